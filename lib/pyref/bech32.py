"""Bech32 (BIP 173) and Bech32m (BIP 350), written from the BIPs; python3 stdlib only.

The 90-character limit of BIP 173 is *not* applied here: Zcash lifts it (ZIP 173 for Sapling
keys, ZIP 316 for unified containers); callers bound the payload length themselves.

Everything an encoder could vary is explicit so that *malformed* strings can be produced too:
checksum constant, padding bits, extra groups.
"""

CHARSET = "qpzry9x8gf2tvdw0s3jn54khce6mua7l"
_REV = {c: i for i, c in enumerate(CHARSET)}
BECH32 = "bech32"
BECH32M = "bech32m"
_CONST = {BECH32: 1, BECH32M: 0x2BC830A3}
_GEN = (0x3B6A57B2, 0x26508E6D, 0x1EA119FA, 0x3D4233DD, 0x2A1462B3)


class Bech32Error(Exception):
    pass


def polymod(values, chk=1):
    g0, g1, g2, g3, g4 = _GEN
    for v in values:
        b = chk >> 25
        chk = ((chk & 0x1FFFFFF) << 5) ^ v
        if b:
            if b & 1:
                chk ^= g0
            if b & 2:
                chk ^= g1
            if b & 4:
                chk ^= g2
            if b & 8:
                chk ^= g3
            if b & 16:
                chk ^= g4
    return chk


def hrp_expand(hrp):
    return [ord(c) >> 5 for c in hrp] + [0] + [ord(c) & 31 for c in hrp]


def create_checksum(hrp, data5, variant):
    pm = polymod(hrp_expand(hrp) + list(data5) + [0, 0, 0, 0, 0, 0]) ^ _CONST[variant]
    return [(pm >> 5 * (5 - i)) & 31 for i in range(6)]


def encode5(hrp, data5, variant):
    """hrp (lower case) + '1' + data + checksum."""
    comb = list(data5) + create_checksum(hrp, data5, variant)
    return hrp + "1" + "".join(CHARSET[d] for d in comb)


def decode5(s):
    """Returns (hrp_lowercase, data5 without checksum, variant, was_uppercase).
    Raises Bech32Error for anything BIP 173 / BIP 350 call invalid (length limit excepted)."""
    if not s:
        raise Bech32Error("empty")
    for ch in s:
        o = ord(ch)
        if o < 33 or o > 126:
            raise Bech32Error("character out of range")
    lower, upper = s.lower(), s.upper()
    if s != lower and s != upper:
        raise Bech32Error("mixed case")
    was_upper = s != lower
    s = lower
    pos = s.rfind("1")
    if pos < 1:
        raise Bech32Error("no separator / empty hrp")
    if pos > 83:
        raise Bech32Error("hrp too long")
    if pos + 7 > len(s):
        raise Bech32Error("checksum too short")
    hrp = s[:pos]
    try:
        data = [_REV[c] for c in s[pos + 1:]]
    except KeyError:
        raise Bech32Error("invalid data character")
    pm = polymod(data, polymod(hrp_expand(hrp)))
    if pm == _CONST[BECH32]:
        variant = BECH32
    elif pm == _CONST[BECH32M]:
        variant = BECH32M
    else:
        raise Bech32Error("bad checksum")
    return hrp, data[:-6], variant, was_upper


def to5(payload, pad_value=0, extra_groups=()):
    """8-bit -> 5-bit groups (big endian bit order). `pad_value` fills the padding bits of the last
    group (0 is the only canonical value); `extra_groups` are appended verbatim (non-canonical)."""
    acc = 0
    bits = 0
    out = []
    for b in payload:
        acc = (acc << 8) | b
        bits += 8
        while bits >= 5:
            bits -= 5
            out.append((acc >> bits) & 31)
        acc &= (1 << bits) - 1
    if bits:
        npad = 5 - bits
        out.append(((acc << npad) | (pad_value & ((1 << npad) - 1))) & 31)
    out.extend(extra_groups)
    return out


def to5_fast(payload):
    """Same as to5(payload) (canonical padding); linear and quick for multi-megabyte payloads:
    5 bytes -> 8 groups at a time."""
    n = len(payload)
    full = n - n % 5
    out = []
    fb = int.from_bytes
    for i in range(0, full, 5):
        v = fb(payload[i:i + 5], "big")
        out += ((v >> 35) & 31, (v >> 30) & 31, (v >> 25) & 31, (v >> 20) & 31,
                (v >> 15) & 31, (v >> 10) & 31, (v >> 5) & 31, v & 31)
    out.extend(to5(payload[full:]))
    return out


def from5(data5):
    """5-bit groups -> (payload bytes, canonical) where canonical is False when the padding is
    5 bits or longer (a whole superfluous group) or not all-zero (BIP 173: decoders must reject)."""
    acc = 0
    bits = 0
    out = bytearray()
    for v in data5:
        acc = (acc << 5) | v
        bits += 5
        if bits >= 8:
            bits -= 8
            out.append((acc >> bits) & 0xFF)
            acc &= (1 << bits) - 1
    canonical = bits < 5 and acc == 0
    return bytes(out), canonical


def encode_bytes(hrp, payload, variant, pad_value=0, extra_groups=()):
    if pad_value == 0 and not extra_groups and len(payload) > 4096:
        return encode5(hrp, to5_fast(payload), variant)
    return encode5(hrp, to5(payload, pad_value, extra_groups), variant)


def decode_bytes(s):
    """Returns (hrp, payload, variant, canonical) with canonical = lower case and canonical padding."""
    hrp, data5, variant, was_upper = decode5(s)
    payload, canon = from5(data5)
    return hrp, payload, variant, canon and not was_upper


def selftest():
    """BIP 173 / BIP 350 test vectors."""
    valid32 = ["A12UEL5L", "a12uel5l",
               "an83characterlonghumanreadablepartthatcontainsthenumber1andtheexcludedcharactersbio1tt5tgs",
               "abcdef1qpzry9x8gf2tvdw0s3jn54khce6mua7lmqqqxw",
               "11qqqqqqqqqqqqqqqqqqqqqqqqqqqqqqqqqqqqqqqqqqqqqqqqqqqqqqqqqqqqqqqqqqqqqqqqqqqqqqqqqqc8247j",
               "split1checkupstagehandshakeupstreamerranterredcaperred2y9e3w", "?1ezyfcl"]
    valid32m = ["A1LQFN3A", "a1lqfn3a",
                "an83characterlonghumanreadablepartthatcontainsthetheexcludedcharactersbioandnumber11sg7hg6",
                "abcdef1l7aum6echk45nj3s0wdvt2fg8x9yrzpqzd3ryx",
                "11llllllllllllllllllllllllllllllllllllllllllllllllllllllllllllllllllllllllllllllllllludsr8",
                "split1checkupstagehandshakeupstreamerranterredcaperredlc445v", "?1v759aa"]
    invalid = [" 1nwldj5", "\x7f1axkwrx", "\x801eym55h", "pzry9x0s0muk", "1pzry9x0s0muk", "x1b4n0q5v", "li1dgmt3",
               "de1lg7wt\xff", "A1G7SGD8", "10a06t8", "1qzzfhee", " 1xj0phk", "\x7f1g6xzxy", "\x801vctc34",
               "qyrz8wqd2c9m", "1qyrz8wqd2c9m", "y1b0jsk6g", "lt1igcx5c", "in1muywd", "mm1crxm3i", "au1s5cgom",
               "M1VUXWEZ", "16plkw9", "1p2gdwpf"]
    for s in valid32:
        assert decode5(s)[2] == BECH32, s
        h, d, v, _ = decode5(s)
        assert encode5(h, d, v) == s.lower(), s
    for s in valid32m:
        assert decode5(s)[2] == BECH32M, s
        h, d, v, _ = decode5(s)
        assert encode5(h, d, v) == s.lower(), s
    for s in invalid:
        try:
            decode5(s)
        except Bech32Error:
            continue
        raise AssertionError("accepted invalid " + repr(s))
    import os
    for n in (0, 1, 4, 5, 20, 43, 64, 4097, 10000):
        p = os.urandom(n)
        assert from5(to5(p)) == (p, True)
        assert to5_fast(p) == to5(p), n
    assert from5(to5(b"\x01" * 43, pad_value=1))[1] is False
    assert from5(to5(b"\x01" * 20, extra_groups=[0]))[1] is False
    return len(valid32) + len(valid32m) + len(invalid)
