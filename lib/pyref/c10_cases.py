"""Generator of well-formed and *malformed* address / unified-container strings for C10.

Strings are produced by the Python encoders (pyref.bech32 / base58 / f4jumble / zip316), so containers
that the Rust encoder refuses to build (wrong padding, descending typecodes, duplicates, P2PKH+P2SH,
transparent-only, bad lengths, non-canonical compactSize, Bech32 instead of Bech32m, ...) exist as
strings at all. The expected verdict of every case is computed by the reference *parser*
(zip316.parse / parse_zcash_address); the generator additionally knows which rule it broke
("intent") and refuses to emit a case where intent and reference disagree (that would be a bug in
the oracle, not a finding).

One JSON object per line:
  {"id", "class", "api": "zaddr"|"ufvk"|"uivk", "ua": bool, "s", "expect": "accept"|"reject",
   "kind", "net", "data": hex | "items": [[typecode, hex], ...]}
api: which entry point of the code under test parses the string; "ua": also feed it to
unified::Address::decode (which does not trim).
"""
import json
import random

from . import base58, bech32, zip316
from .zip316 import P2PKH, P2SH, SAPLING, ORCHARD, KNOWN_LEN, HRPS

NETS = ("main", "test", "regtest")
BOUNDARY_TYPECODES = [4, 5, 0x7F, 0xFB, 0xFC, 0xFD, 0xFE, 0xFF, 0x100, 0xFFF9, 0xFFFA, 0xFFFF, 0x10000, 0x10001,
                      0xFFFFFF, 0x1FFFFFF, 0x2000000]
BOUNDARY_LENS = [0, 1, 2, 31, 32, 43, 64, 251, 252, 253, 254, 255, 256, 300]


class Gen:
    def __init__(self, seed, tier):
        self.r = random.Random("c10-cases-%d" % seed)
        self.tier = tier
        self.cases = []
        self.by_class = {}

    # ---------------------------------------------------------------- plumbing
    def rb(self, n):
        return bytes(self.r.getrandbits(8) for _ in range(n)) if n else b""

    def emit(self, cls, api, s, intent, ua=False):
        """intent: 'accept' | 'reject' | None (no construction-time claim; reference decides)."""
        try:
            if api == "zaddr":
                v = zip316.parse_zcash_address(s)
                exp = {"expect": "accept", "kind": v["kind"], "net": v["net"]}
                if v["kind"] == "unified":
                    exp["items"] = [[tc, d.hex()] for tc, d in v["items"]]
                else:
                    exp["data"] = v["data"].hex()
            else:
                net, items = zip316.parse(api, s)
                exp = {"expect": "accept", "kind": api, "net": net, "items": [[tc, d.hex()] for tc, d in items]}
        except zip316.Zip316Error as e:
            exp = {"expect": "reject", "why": str(e)[:80]}
        if intent is not None and exp["expect"] != intent:
            raise AssertionError("generator/reference disagreement in class %s: intent %s, reference %s (%r)"
                                 % (cls, intent, exp, s[:120]))
        c = {"id": len(self.cases), "class": cls, "api": api, "ua": bool(ua), "s": s}
        c.update(exp)
        self.cases.append(c)
        self.by_class[cls] = self.by_class.get(cls, 0) + 1

    # ---------------------------------------------------------------- item sets
    def unknown_item(self):
        r = self.r
        tc = r.choice(BOUNDARY_TYPECODES) if r.random() < 0.6 else r.randrange(4, 0x2000001)
        ln = r.choice(BOUNDARY_LENS) if r.random() < 0.5 else r.randrange(0, 120)
        return (tc, self.rb(ln))

    def valid_items(self, kind, min_items=1, force_known_shielded=False):
        r = self.r
        known = KNOWN_LEN[kind]
        items = []
        if r.random() < 0.6:
            tc = r.choice([P2PKH, P2SH]) if kind == "addr" else P2PKH
            items.append((tc, self.rb(known[tc])))
        shielded = [tc for tc in (SAPLING, ORCHARD) if r.random() < 0.6]
        n_unknown = r.choice([0, 0, 1, 1, 2, 3])
        if not shielded and (n_unknown == 0 or force_known_shielded):
            shielded = [r.choice([SAPLING, ORCHARD])]
        for tc in shielded:
            items.append((tc, self.rb(known[tc])))
        seen = set()
        for _ in range(n_unknown):
            it = self.unknown_item()
            if it[0] not in seen:
                seen.add(it[0])
                items.append(it)
        while len(items) < min_items:
            it = self.unknown_item()
            if it[0] not in seen:
                seen.add(it[0])
                items.append(it)
        items.sort(key=lambda it: it[0])
        # keep the container inside F4Jumble's domain
        if len(zip316.raw_items(items)) + 16 < 48:
            return self.valid_items(kind, min_items, force_known_shielded)
        return items

    def api_of(self, kind):
        return "zaddr" if kind == "addr" else kind

    # ---------------------------------------------------------------- unified containers
    def unified(self, kind):
        r = self.r
        api = self.api_of(kind)
        ua = kind == "addr"
        net = r.choice(NETS)
        other_net = r.choice([n for n in NETS if n != net])
        items = self.valid_items(kind)

        def enc(it=items, **kw):
            try:
                return zip316.encode(kind, net, it, **kw)
            except zip316.f4jumble.F4JumbleError:
                # outside F4Jumble's domain: no jumbled form exists; emit the raw bytes (still a reject)
                return zip316.encode(kind, net, it, jumble=False, **kw)

        good = enc()
        self.emit("u:valid", api, good, "accept", ua)

        # --- padding
        hrp = HRPS[kind][net]
        pad = bytearray(zip316.padding(hrp))
        self.emit("u:pad-zero", api, enc(pad=bytes(16)), "reject", ua)
        self.emit("u:pad-other-net", api, enc(pad=zip316.padding(HRPS[kind][other_net])), "reject", ua)
        i = r.randrange(16)
        p2 = bytearray(pad)
        p2[i] ^= 1 << r.randrange(8)
        self.emit("u:pad-bitflip", api, enc(pad=bytes(p2)), "reject", ua)
        p3 = bytearray(pad)
        p3[15] = 1
        self.emit("u:pad-last-byte", api, enc(pad=bytes(p3)), "reject", ua)
        self.emit("u:pad-uppercase-hrp", api, enc(pad=zip316.padding(hrp.upper())), "reject", ua)
        self.emit("u:pad-15-bytes", api, enc(pad=bytes(pad[:15])), "reject", ua)
        self.emit("u:pad-17-bytes", api, enc(pad=bytes(pad) + b"\0"), "reject", ua)
        self.emit("u:hrp-other-net-pad-this-net", api, enc(hrp=HRPS[kind][other_net]), "reject", ua)
        self.emit("u:not-jumbled", api, enc(jumble=False), "reject", ua)

        # --- ordering / duplicates
        it2 = self.valid_items(kind, min_items=2)
        rev = list(reversed(it2))
        self.emit("u:order-reversed", api, enc(rev), "reject", ua)
        if len(it2) >= 3:
            perm = it2[:]
            while perm == it2:
                r.shuffle(perm)
            self.emit("u:order-permuted", api, enc(perm), "reject", ua)
        j = r.randrange(len(it2))
        dup_same = it2[:j + 1] + [it2[j]] + it2[j + 1:]
        self.emit("u:dup-identical", api, enc(dup_same), "reject", ua)
        dup_diff = it2[:j + 1] + [(it2[j][0], self.rb(len(it2[j][1])))] + it2[j + 1:]
        self.emit("u:dup-different-data", api, enc(dup_diff), "reject", ua)
        dup_far = it2 + [it2[0]]
        self.emit("u:dup-non-adjacent", api, enc(dup_far), "reject", ua)

        # --- transparent rules
        sh = [(SAPLING, self.rb(KNOWN_LEN[kind][SAPLING]))] if r.random() < 0.5 else \
            [(ORCHARD, self.rb(KNOWN_LEN[kind][ORCHARD]))]
        if kind == "addr":
            both = [(P2PKH, self.rb(20)), (P2SH, self.rb(20))] + sh
            self.emit("u:p2pkh+p2sh", api, enc(both), "reject", ua)
            self.emit("u:p2sh+p2pkh-swapped", api, enc([both[1], both[0]] + sh), "reject", ua)
            # transparent-only addresses are always shorter than 48 bytes as well
            self.emit("u:transparent-only(short)", api,
                      zip316.encode(kind, net, [], raw=zip316.raw_items([(r.choice([P2PKH, P2SH]), self.rb(20))])
                                    + b"", jumble=False), "reject", ua)
            self.emit("u:p2pkh+p2sh-only", api, enc([(P2PKH, self.rb(20)), (P2SH, self.rb(20))]), "reject", ua)
        else:
            self.emit("u:transparent-only", api, enc([(P2PKH, self.rb(65))]), "reject", ua)
            self.emit("u:p2sh-in-viewing-key", api, enc([(P2SH, self.rb(r.choice([20, 65])))] + sh), "reject", ua)
        # acceptance that rests on an unknown typecode only
        unk = self.unknown_item()
        unk = (unk[0], unk[1] + self.rb(max(0, 34 - len(unk[1]))))
        t_item = [(P2PKH, self.rb(KNOWN_LEN[kind][P2PKH]))] if r.random() < 0.5 else []
        self.emit("u:valid-unknown-only", api, enc(t_item + [unk]), "accept", ua)

        # --- item lengths
        tc = r.choice([t for t, l in KNOWN_LEN[kind].items() if l is not None])
        right = KNOWN_LEN[kind][tc]
        for name, ln in (("-1", right - 1), ("+1", right + 1), ("-empty", 0)):
            bad = [(tc, self.rb(ln))]
            bad += sh if tc in (P2PKH, P2SH) else [(0x100 + r.randrange(100), self.rb(40))]
            bad.sort(key=lambda it: it[0])
            self.emit("u:known-item-length" + name, api, enc(bad), "reject", ua)

        # --- compactSize
        raw = zip316.raw_items(items)
        small = [i for i, (t, d) in enumerate(items) if t < 0xFD and len(d) < 0xFD]
        if small:
            i = r.choice(small)
            t, d = items[i]
            head, tail = zip316.raw_items(items[:i]), zip316.raw_items(items[i + 1:])
            w = r.choice([3, 5, 9])
            self.emit("u:noncanonical-typecode-width", api,
                      enc(raw=head + zip316.compact_size(t, w) + zip316.compact_size(len(d)) + d + tail), "reject", ua)
            w = r.choice([3, 5, 9])
            self.emit("u:noncanonical-length-width", api,
                      enc(raw=head + zip316.compact_size(t) + zip316.compact_size(len(d), w) + d + tail), "reject", ua)
        big_tc = r.choice([0x2000001, 0x2000002, 0xFFFFFFFF])
        self.emit("u:typecode-above-max", api,
                  enc(raw=raw + b"\xfe" + big_tc.to_bytes(4, "little") + b"\x02ab"), "reject", ua)
        self.emit("u:typecode-64bit", api,
                  enc(raw=raw + b"\xff" + (1 << r.randrange(32, 64)).to_bytes(8, "little") + b"\x02ab"), "reject", ua)
        self.emit("u:length-above-available", api, enc(raw=raw + zip316.compact_size(0x1000)
                                                        + zip316.compact_size(r.choice([3, 0xFC, 0xFFFF, 0x2000000]))
                                                        + b"ab"), "reject", ua)
        self.emit("u:length-64bit", api, enc(raw=raw + zip316.compact_size(0x1000) + b"\xff" + b"\xff" * 8 + b"ab"),
                  "reject", ua)
        self.emit("u:last-item-truncated", api, enc(raw=raw[:-1]), "reject" if len(items[-1][1]) > 0 else None, ua)
        self.emit("u:trailing-byte", api, enc(raw=raw + bytes([r.randrange(256)])), "reject", ua)
        self.emit("u:trailing-typecode-only", api, enc(raw=raw + zip316.compact_size(0x2000)), "reject", ua)
        # a boundary typecode / length that *is* fine
        ok_tc = r.choice([t for t in BOUNDARY_TYPECODES if t > max(t0 for t0, _ in items)] or [None])
        if ok_tc:
            ln = r.choice([0, 252, 253, 0x100, 1000])
            self.emit("u:valid-boundary-typecode", api, enc(items + [(ok_tc, self.rb(ln))]), "accept", ua)

        # --- string level
        self.emit("u:bech32-not-bech32m", api, enc(variant=bech32.BECH32), "reject", ua)
        payload_bits = (len(raw) + 16) * 8
        npad = (5 - payload_bits % 5) % 5
        if npad:
            self.emit("u:bech32-padding-bits-nonzero", api, enc(pad_value=r.randrange(1, 1 << npad)), "reject", ua)
        self.emit("u:bech32-extra-zero-group", api, enc(extra_groups=[0]), "reject", ua)
        self.emit("u:bech32-extra-group", api, enc(extra_groups=[r.randrange(1, 32)]), "reject", ua)
        self.emit("u:uppercase", api, good.upper(), "reject", ua)
        k = r.randrange(len(good))
        while not good[k].isalpha():
            k = r.randrange(len(good))
        self.emit("u:mixed-case", api, good[:k] + good[k].upper() + good[k + 1:], "reject", ua)
        self.string_mutations("u", api, good, ua)
        # wrong prefixes
        wrong_kind = r.choice([k2 for k2 in HRPS if k2 != kind])
        wh = HRPS[wrong_kind][net]
        self.emit("u:hrp-of-other-container", api, enc(hrp=wh, pad=zip316.padding(wh)), "reject", ua)
        for h in ("uu", "x", hrp + "x", "tex", "zs"):
            self.emit("u:hrp-unknown", api, enc(hrp=h, pad=zip316.padding(h)), "reject", ua)

    def string_mutations(self, tag, api, good, ua):
        r = self.r
        sep = good.rfind("1")
        classes = {"hrp": range(0, sep), "sep": [sep], "data": range(sep + 1, len(good) - 6),
                   "checksum": range(len(good) - 6, len(good))}
        for name, rng in classes.items():
            pos = r.choice(list(rng))
            c = good[pos]
            alt = r.choice([x for x in bech32.CHARSET if x != c and x != "1"])
            self.emit("%s:subst-%s" % (tag, name), api, good[:pos] + alt + good[pos + 1:], "reject", ua)
        pos = r.randrange(sep + 1, len(good))
        self.emit(tag + ":delete-char", api, good[:pos] + good[pos + 1:], "reject", ua)
        self.emit(tag + ":insert-char", api, good[:pos] + r.choice(bech32.CHARSET) + good[pos:], "reject", ua)
        self.emit(tag + ":truncate", api, good[:r.randrange(1, len(good))], "reject", ua)
        self.emit(tag + ":invalid-data-char", api, good[:pos] + r.choice("1bio") + good[pos + 1:], None, ua)
        if api == "zaddr":
            ws = zip316.WHITESPACE
            lead = "".join(r.choice(ws) for _ in range(r.randrange(0, 3)))
            trail = "".join(r.choice(ws) for _ in range(r.randrange(1, 3)))
            self.emit(tag + ":whitespace-around", api, lead + good + trail, "accept", False)
            self.emit(tag + ":whitespace-inside", api, good[:pos] + r.choice(" \t\n") + good[pos:], "reject", False)
            self.emit(tag + ":zero-width-space-around", api, "\u200b" + good, "reject", False)
            self.emit(tag + ":nul-around", api, good + "\0", "reject", False)

    # ---------------------------------------------------------------- non-unified addresses
    def bech32_kinds(self):
        r = self.r
        net = r.choice(NETS)
        # Sapling
        d = self.rb(43)
        h = zip316.SAPLING_HRP[net]
        good = bech32.encode_bytes(h, d, bech32.BECH32)
        self.emit("sapling:valid", "zaddr", good, "accept")
        self.emit("sapling:bech32m-checksum", "zaddr", bech32.encode_bytes(h, d, bech32.BECH32M), "reject")
        for n in (0, 42, 44, 20, 64):
            self.emit("sapling:length-%d" % n, "zaddr", bech32.encode_bytes(h, self.rb(n), bech32.BECH32), "reject")
        self.emit("sapling:padding-bit-nonzero", "zaddr", bech32.encode_bytes(h, d, bech32.BECH32, pad_value=1), "reject")
        self.emit("sapling:extra-zero-group", "zaddr", bech32.encode_bytes(h, d, bech32.BECH32, extra_groups=[0]),
                  "reject")
        for bad in ("zx", "zs" + "x", "ztestsaplin", "zcash", "bc"):
            self.emit("sapling:hrp-unknown", "zaddr", bech32.encode_bytes(bad, d, bech32.BECH32), "reject")
        self.emit("sapling:uppercase", "zaddr", good.upper(), "reject")
        self.string_mutations("sapling", "zaddr", good, False)
        # TEX
        d = self.rb(20)
        h = zip316.TEX_HRP[net]
        good = bech32.encode_bytes(h, d, bech32.BECH32M)
        self.emit("tex:valid", "zaddr", good, "accept")
        self.emit("tex:bech32-checksum", "zaddr", bech32.encode_bytes(h, d, bech32.BECH32), "reject")
        for n in (0, 19, 21, 43):
            self.emit("tex:length-%d" % n, "zaddr", bech32.encode_bytes(h, self.rb(n), bech32.BECH32M), "reject")
        self.emit("tex:extra-zero-group", "zaddr", bech32.encode_bytes(h, d, bech32.BECH32M, extra_groups=[0]), "reject")
        self.emit("tex:extra-group", "zaddr",
                  bech32.encode_bytes(h, d, bech32.BECH32M, extra_groups=[r.randrange(1, 32)]), "reject")
        for bad in ("te", "texx", "textes", "tb"):
            self.emit("tex:hrp-unknown", "zaddr", bech32.encode_bytes(bad, d, bech32.BECH32M), "reject")
        self.emit("tex:uppercase", "zaddr", good.upper(), "reject")
        self.string_mutations("tex", "zaddr", good, False)

    def base58_kinds(self):
        r = self.r
        net = r.choice(("main", "test"))
        kind = r.choice(("p2pkh", "p2sh", "sprout"))
        pre = zip316.B58[net][kind]
        n = zip316.B58_LEN[kind]
        d = self.rb(n) if r.random() < 0.8 else bytes(n)
        good = base58.check_encode(pre + d)
        self.emit("b58:valid-" + kind, "zaddr", good, "accept")
        self.emit("b58:bad-checksum", "zaddr", base58.check_encode(pre + d, bad_checksum=True), "reject")
        for delta in (-1, 1):
            self.emit("b58:length%+d" % delta, "zaddr", base58.check_encode(pre + self.rb(n + delta)), "reject")
        self.emit("b58:no-payload", "zaddr", base58.check_encode(pre), "reject")
        self.emit("b58:one-byte", "zaddr", base58.check_encode(pre[:1]), "reject")
        self.emit("b58:empty-checked", "zaddr", base58.check_encode(b""), "reject")
        bad_pre = bytes([pre[0], pre[1] ^ (1 << r.randrange(8))])
        known = [p for nn in zip316.B58.values() for p in nn.values()]
        if bad_pre not in known:
            self.emit("b58:unknown-version", "zaddr", base58.check_encode(bad_pre + d), "reject")
        self.emit("b58:bitcoin-1byte-version", "zaddr", base58.check_encode(b"\0" + self.rb(20)), "reject")
        self.emit("b58:leading-one-added", "zaddr", "1" + good, "reject")
        pos = r.randrange(len(good))
        self.emit("b58:invalid-char", "zaddr", good[:pos] + r.choice("0OIl") + good[pos + 1:], "reject")
        alt = r.choice([c for c in base58.ALPHABET if c != good[pos]])
        self.emit("b58:subst-char", "zaddr", good[:pos] + alt + good[pos + 1:], "reject")
        ws = zip316.WHITESPACE
        self.emit("b58:whitespace-around", "zaddr", r.choice(ws) + good + r.choice(ws) + r.choice(ws), "accept")
        ins = r.randrange(1, len(good))
        self.emit("b58:whitespace-inside", "zaddr", good[:ins] + " " + good[ins:], "reject")
        self.emit("b58:lowercased", "zaddr", good.lower(), None)

    def length_bounds(self):
        """F4Jumble domain edges. l = 1 + w + n + 16 for one unknown item of typecode 4."""
        r = self.r
        for kind in ("addr", "ufvk", "uivk"):
            api = self.api_of(kind)
            net = r.choice(NETS)
            self.emit("u:total-length-47", api, zip316.encode(kind, net, [], raw=zip316.raw_items([(4, self.rb(29))]),
                                                             jumble=False), "reject", kind == "addr")
            self.emit("u:total-length-48", api, zip316.encode(kind, net, [(4, self.rb(30))]), "accept", kind == "addr")
            self.emit("u:empty-container", api, bech32.encode_bytes(HRPS[kind][net], zip316.padding(HRPS[kind][net]),
                                                                   bech32.BECH32M), "reject", kind == "addr")
            self.emit("u:no-payload", api, bech32.encode_bytes(HRPS[kind][net], b"", bech32.BECH32M), "reject",
                      kind == "addr")
            big = r.choice([0xFFFF, 0x10000, 70000])
            self.emit("u:valid-large-item", api, zip316.encode(kind, net, [(SAPLING, self.rb(KNOWN_LEN[kind][SAPLING])),
                                                                          (0x1234, self.rb(big))]), "accept",
                      kind == "addr")
        # ZIP 316 bounds the *bytes* fed to Bech32m (4194368), not the characters of the string:
        # 2621475 padded bytes encode to exactly 4194368 characters ("u" + "1" + 4194360 + 6)
        for cls, padded in (("u:valid-string-of-4194368-chars", 2621475), ("u:valid-string-of-4194370-chars", 2621476)):
            if self.tier == "thorough" or padded == 2621476:
                n = padded - 16 - 45 - 3 - 5
                self.emit(cls, "zaddr", zip316.encode("addr", "main", [(SAPLING, bytes(43)), (0xFFFF, bytes(n))]),
                          "accept", True)
        if self.tier == "thorough":
            n = 4194368 - 16 - 1 - 5
            self.emit("u:total-length-max", "zaddr", zip316.encode("addr", "main", [(4, bytes(n))]), "accept", True)
            # one byte more cannot be jumbled at all: encode the unjumbled bytes
            self.emit("u:total-length-max+1", "zaddr",
                      zip316.encode("addr", "main", [], raw=zip316.raw_items([(4, bytes(n + 1))]), jumble=False),
                      "reject", True)


def generate(seed, tier, path):
    g = Gen(seed, tier)
    rounds = 40 if tier == "quick" else 400
    g.length_bounds()
    for _ in range(rounds):
        for kind in ("addr", "addr", "ufvk", "uivk"):
            g.unified(kind)
        g.bech32_kinds()
        g.base58_kinds()
    with open(path, "w") as f:
        for c in g.cases:
            f.write(json.dumps(c, separators=(",", ":")) + "\n")
    acc = sum(1 for c in g.cases if c["expect"] == "accept")
    return {"cases": len(g.cases), "accept": acc, "reject": len(g.cases) - acc, "classes": len(g.by_class),
            "by_class": g.by_class}
