"""ZIP 244 transaction identifier, authorising-data commitment and signature digests for v5
transactions (independent reference for C04, C14); sha256d identifier for v1-v4; ZIP 143 / ZIP 243
signature hashes for v3 / v4 (diagnostic reference, validated against the shipped vectors).

Python stdlib only (hashlib.blake2b with `person=`).  Written from the ZIP texts; the input is the
field structure produced by `txlayout.parse_tx` (also independent of the implementation).

txid(tx) / auth_digest(tx)                  v5 only (raises for other versions)
signature_digest(tx, coins, hash_type, index)   index None = shielded signature (hash type ALL);
                                            coins = [(value:int, script_pubkey:bytes)] for ALL inputs
txid_any(tx, raw)                           sha256d(raw) for v1-v4, ZIP 244 for v5
sighash_v34(tx, branch_id, hash_type, index, script_code, amount)   ZIP 143 / 243
selftest(repo_root)                         checks all of the above against the vectors in
                                            zcash_primitives/src/transaction/tests/data.rs
"""
import hashlib
import os
import re
import struct

from . import txlayout

SIGHASH_ALL = 1
SIGHASH_NONE = 2
SIGHASH_SINGLE = 3
SIGHASH_ANYONECANPAY = 0x80


def H(person, data=b""):
    assert len(person) == 16, person
    return hashlib.blake2b(data, digest_size=32, person=person).digest()


def _cs(n):
    return txlayout.compact_size(n)


def _u32(v):
    return struct.pack("<I", v)


def _i64(v):
    return struct.pack("<q", v)


def _outpoint(i):
    return i.prevout_hash + _u32(i.prevout_n)


def _txout(o):
    return _i64(o.value) + _cs(len(o.script)) + o.script


# ---- T.1 .. T.4 -----------------------------------------------------------------------------

def header_digest(tx):
    return H(b"ZTxIdHeadersHash", _u32(tx.header) + _u32(tx.vgid) + _u32(tx.branch) + _u32(tx.lock_time) + _u32(tx.expiry))


def prevouts_digest(tx):
    return H(b"ZTxIdPrevoutHash", b"".join(_outpoint(i) for i in tx.vin))


def sequence_digest(tx):
    return H(b"ZTxIdSequencHash", b"".join(_u32(i.sequence) for i in tx.vin))


def outputs_digest(tx):
    return H(b"ZTxIdOutputsHash", b"".join(_txout(o) for o in tx.vout))


def transparent_digest(tx):
    if not tx.vin and not tx.vout:
        return H(b"ZTxIdTranspaHash")
    return H(b"ZTxIdTranspaHash", prevouts_digest(tx) + sequence_digest(tx) + outputs_digest(tx))


def sapling_spends_digest(tx):
    if not tx.spends:
        return H(b"ZTxIdSSpendsHash")
    compact = H(b"ZTxIdSSpendCHash", b"".join(s.nf for s in tx.spends))
    noncompact = H(b"ZTxIdSSpendNHash", b"".join(s.cv + s.anchor + s.rk for s in tx.spends))
    return H(b"ZTxIdSSpendsHash", compact + noncompact)


def sapling_outputs_digest(tx):
    if not tx.outputs:
        return H(b"ZTxIdSOutputHash")
    compact = H(b"ZTxIdSOutC__Hash", b"".join(o.cmu + o.epk + o.enc[:52] for o in tx.outputs))
    memos = H(b"ZTxIdSOutM__Hash", b"".join(o.enc[52:564] for o in tx.outputs))
    noncompact = H(b"ZTxIdSOutN__Hash", b"".join(o.cv + o.enc[564:] + o.out for o in tx.outputs))
    return H(b"ZTxIdSOutputHash", compact + memos + noncompact)


def sapling_digest(tx):
    if not tx.spends and not tx.outputs:
        return H(b"ZTxIdSaplingHash")
    return H(b"ZTxIdSaplingHash", sapling_spends_digest(tx) + sapling_outputs_digest(tx) + _i64(tx.vb_sapling))


def orchard_digest(tx):
    b = tx.orchard
    if b is None:
        return H(b"ZTxIdOrchardHash")
    compact = H(b"ZTxIdOrcActCHash", b"".join(a.nf + a.cmx + a.epk + a.enc[:52] for a in b.actions))
    memos = H(b"ZTxIdOrcActMHash", b"".join(a.enc[52:564] for a in b.actions))
    noncompact = H(b"ZTxIdOrcActNHash", b"".join(a.cv + a.rk + a.enc[564:] + a.out for a in b.actions))
    return H(b"ZTxIdOrchardHash", compact + memos + noncompact + bytes([b.flags]) + _i64(b.vb) + b.anchor)


def _require_v5(tx):
    if tx.version != 5:
        raise ValueError("ZIP 244 reference covers v5 only (got v%d)" % tx.version)


def txid(tx):
    _require_v5(tx)
    return H(b"ZcashTxHash_" + _u32(tx.branch), header_digest(tx) + transparent_digest(tx) + sapling_digest(tx) + orchard_digest(tx))


def txid_any(tx, raw):
    if tx.version <= 4:
        return txlayout.sha256d(raw[:tx.consumed])
    return txid(tx)


# ---- A.1 .. A.3 -----------------------------------------------------------------------------

def auth_digest(tx):
    _require_v5(tx)
    if not tx.vin and not tx.vout:
        t = H(b"ZTxAuthTransHash")
    else:
        t = H(b"ZTxAuthTransHash", b"".join(_cs(len(i.script_sig)) + i.script_sig for i in tx.vin))
    if not tx.spends and not tx.outputs:
        s = H(b"ZTxAuthSapliHash")
    else:
        s = H(b"ZTxAuthSapliHash", b"".join(x.proof for x in tx.spends) + b"".join(x.sig for x in tx.spends)
              + b"".join(x.proof for x in tx.outputs) + tx.sapling_bsig)
    b = tx.orchard
    if b is None:
        o = H(b"ZTxAuthOrchaHash")
    else:
        o = H(b"ZTxAuthOrchaHash", b.proof + b"".join(a.sig for a in b.actions) + b.bsig)
    return H(b"ZTxAuthHash_" + _u32(tx.branch), t + s + o)


# ---- S.1 .. S.4 -----------------------------------------------------------------------------

def transparent_sig_digest(tx, coins, hash_type, index):
    # "coinbase, or no transparent inputs": identical to T.2
    if tx.is_coinbase() or not tx.vin:
        return transparent_digest(tx)
    if hash_type & 0x7F not in (SIGHASH_ALL, SIGHASH_NONE, SIGHASH_SINGLE):
        raise ValueError("invalid hash type")
    acp = bool(hash_type & SIGHASH_ANYONECANPAY)
    base = hash_type & 0x1F
    assert len(coins) == len(tx.vin)
    prevouts = H(b"ZTxIdPrevoutHash") if acp else prevouts_digest(tx)
    amounts = H(b"ZTxTrAmountsHash") if acp else H(b"ZTxTrAmountsHash", b"".join(_i64(v) for v, _ in coins))
    scripts = H(b"ZTxTrScriptsHash") if acp else H(b"ZTxTrScriptsHash", b"".join(_cs(len(s)) + s for _, s in coins))
    sequence = H(b"ZTxIdSequencHash") if acp else sequence_digest(tx)
    if base == SIGHASH_SINGLE:
        if index is not None and index < len(tx.vout):
            outputs = H(b"ZTxIdOutputsHash", _txout(tx.vout[index]))
        else:
            outputs = H(b"ZTxIdOutputsHash")
    elif base == SIGHASH_NONE:
        outputs = H(b"ZTxIdOutputsHash")
    else:
        outputs = outputs_digest(tx)
    if index is None:
        txin = H(b"Zcash___TxInHash")
    else:
        i = tx.vin[index]
        v, s = coins[index]
        txin = H(b"Zcash___TxInHash", _outpoint(i) + _i64(v) + _cs(len(s)) + s + _u32(i.sequence))
    return H(b"ZTxIdTranspaHash", bytes([hash_type]) + prevouts + amounts + scripts + sequence + outputs + txin)


def signature_digest(tx, coins, hash_type=SIGHASH_ALL, index=None):
    _require_v5(tx)
    return H(b"ZcashTxHash_" + _u32(tx.branch),
             header_digest(tx) + transparent_sig_digest(tx, coins, hash_type, index) + sapling_digest(tx) + orchard_digest(tx))


# ---- ZIP 143 / ZIP 243 (v3 / v4) --------------------------------------------------------------

ZERO = b"\0" * 32


def sighash_v34(tx, branch_id, hash_type, index, script_code=b"", amount=0):
    if tx.version not in (3, 4):
        raise ValueError("ZIP 143/243 apply to v3/v4")
    acp = bool(hash_type & SIGHASH_ANYONECANPAY)
    base = hash_type & 0x1F
    d = _u32(tx.header) + _u32(tx.vgid)
    d += ZERO if acp else H(b"ZcashPrevoutHash", b"".join(_outpoint(i) for i in tx.vin))
    d += H(b"ZcashSequencHash", b"".join(_u32(i.sequence) for i in tx.vin)) if (not acp and base not in (SIGHASH_SINGLE, SIGHASH_NONE)) else ZERO
    if base not in (SIGHASH_SINGLE, SIGHASH_NONE):
        d += H(b"ZcashOutputsHash", b"".join(_txout(o) for o in tx.vout))
    elif base == SIGHASH_SINGLE and index is not None and index < len(tx.vout):
        d += H(b"ZcashOutputsHash", _txout(tx.vout[index]))
    else:
        d += ZERO
    d += H(b"ZcashJSplitsHash", b"".join(tx.js) + tx.js_pubkey) if tx.js else ZERO
    if tx.version == 4:
        d += H(b"ZcashSSpendsHash", b"".join(s.cv + s.anchor + s.nf + s.rk + s.proof for s in tx.spends)) if tx.spends else ZERO
        d += H(b"ZcashSOutputHash", b"".join(o.cv + o.cmu + o.epk + o.enc + o.out + o.proof for o in tx.outputs)) if tx.outputs else ZERO
    d += _u32(tx.lock_time) + _u32(tx.expiry)
    if tx.version == 4:
        d += _i64(tx.vb_sapling)
    d += _u32(hash_type)
    if index is not None:
        i = tx.vin[index]
        d += _outpoint(i) + _cs(len(script_code)) + script_code + _i64(amount) + _u32(i.sequence)
    return H(b"ZcashSigHash" + _u32(branch_id), d)


# ---- test vectors shipped with the repository -------------------------------------------------

BRANCH_IDS = {"Sprout": 0, "Overwinter": 0x5BA81B19, "Sapling": 0x76B809BB, "Blossom": 0x2BB40E60,
              "Heartwood": 0xF5B9230B, "Canopy": 0xE9FF75A6, "Nu5": 0xC2D6D0B4, "Nu6": 0xC8E71055,
              "Nu6_1": 0x4DEC4DF0, "Nu6_2": 0x5437F330, "Nu6_3": 0x37A5165B}

_TOK = re.compile(r"\s*(0x[0-9a-fA-F_]+|-?[0-9][0-9_]*|[A-Za-z_][A-Za-z0-9_]*(?:::[A-Za-z_][A-Za-z0-9_]*)*!?|[\[\](){},:])")


class _P:
    """Tiny parser for the Rust struct-literal subset used by tests/data.rs."""

    def __init__(self, text):
        self.toks = _TOK.findall(text)
        self.i = 0

    def peek(self):
        return self.toks[self.i] if self.i < len(self.toks) else None

    def next(self):
        t = self.toks[self.i]
        self.i += 1
        return t

    def expect(self, t):
        g = self.next()
        assert g == t, (g, t, self.toks[self.i - 5:self.i + 5])

    def seq(self, close):
        out = []
        while self.peek() != close:
            out.append(self.value())
            if self.peek() == ",":
                self.next()
        self.expect(close)
        return out

    def value(self):
        t = self.next()
        if t == "[":
            return self.seq("]")
        if t == "vec!":
            self.expect("[")
            return self.seq("]")
        if t[0].isdigit() or t[0] == "-":
            return int(t.replace("_", ""), 0)
        if t == "None":
            return None
        if self.peek() == "(":
            self.next()
            v = self.value()
            if self.peek() == ",":
                self.next()
            self.expect(")")
            return v                      # Some(x), Script(x), script::Code(x) -> x
        if self.peek() == "{":
            self.next()
            d = {}
            while self.peek() != "}":
                k = self.next()
                self.expect(":")
                d[k] = self.value()
                if self.peek() == ",":
                    self.next()
            self.expect("}")
            return d
        return t                          # path such as consensus::BranchId::Overwinter


def _module_text(src, name):
    start = src.index("pub mod %s {" % name)
    depth = 0
    for j in range(start, len(src)):
        if src[j] == "{":
            depth += 1
        elif src[j] == "}":
            depth -= 1
            if depth == 0:
                return src[start:j + 1]
    raise ValueError(name)


def load_vectors(repo_root, module, struct_name):
    path = os.path.join(repo_root, "zcash_primitives", "src", "transaction", "tests", "data.rs")
    text = _module_text(open(path).read(), module)
    text = re.sub(r"//[^\n]*", "", text)
    body = text[text.index("fn make_test_vectors"):]
    body = body[body.index("vec!["):]
    p = _P(body)
    vs = p.value()
    assert vs and all(isinstance(v, dict) for v in vs), "no %s vectors parsed" % struct_name
    return vs


def selftest(repo_root="/repo"):
    txlayout.selftest()
    n = 0
    vs = load_vectors(repo_root, "zip_0244", "TestVector")
    assert len(vs) >= 10
    for v in vs:
        raw = bytes(v["tx"])
        tx = txlayout.parse_tx(raw)
        assert tx.consumed == len(raw), "layout: trailing bytes in a ZIP 244 vector"
        assert txid(tx) == bytes(v["txid"]), "zip244.py txid disagrees with vector %d" % n
        assert auth_digest(tx) == bytes(v["auth_digest"]), "zip244.py auth digest disagrees with vector %d" % n
        coins = list(zip(v["amounts"], [bytes(s) for s in v["script_pubkeys"]]))
        assert signature_digest(tx, coins) == bytes(v["sighash_shielded"]), "shielded sighash, vector %d" % n
        idx = v["transparent_input"]
        if idx is not None:
            for key, ht in (("sighash_all", 1), ("sighash_none", 2), ("sighash_single", 3),
                            ("sighash_all_anyone", 0x81), ("sighash_none_anyone", 0x82), ("sighash_single_anyone", 0x83)):
                if v[key] is not None:
                    assert signature_digest(tx, coins, ht, idx) == bytes(v[key]), "%s, vector %d" % (key, n)
        n += 1
    m = 0
    for module, name in (("zip_0143", "Test0143Vector"), ("zip_0243", "Test0243Vector")):
        for v in load_vectors(repo_root, module, name):
            raw = bytes(v["tx"])
            tx = txlayout.parse_tx(raw)
            assert tx.consumed == len(raw)
            branch = BRANCH_IDS[v["consensus_branch_id"].split("::")[-1]]
            got = sighash_v34(tx, branch, v["hash_type"], v["transparent_input"], bytes(v["script_code"]), v["amount"])
            assert got == bytes(v["sighash"]), "%s vector %d" % (module, m)
            m += 1
    return {"zip244_vectors": n, "zip143_243_vectors": m}


if __name__ == "__main__":
    print(selftest(os.environ.get("VERIF_REPO", "/repo")))
