"""Zcash block header layout (protocol specification section 7.5) and block hash.

nVersion(4, signed LE) | hashPrevBlock(32) | hashMerkleRoot(32) | hashBlockCommitments /
hashFinalSaplingRoot / hashReserved(32) | nTime(4) | nBits(4) | nNonce(32) |
solutionSize(CompactSize) | solution.  The block hash is SHA-256d of exactly these bytes.
"""
import hashlib
import struct

from . import txlayout


class HeaderError(Exception):
    pass


def parse_header(b):
    if len(b) < 140:
        raise HeaderError("short header")
    version, = struct.unpack_from("<i", b, 0)
    prev, merkle, root = b[4:36], b[36:68], b[68:100]
    time, bits = struct.unpack_from("<II", b, 100)
    nonce = b[108:140]
    r = txlayout.Reader(b)
    r.pos = 140
    try:
        n = r.cs("solution_size")
        sol = r.take(n, "solution")
    except txlayout.LayoutError as e:
        raise HeaderError(str(e))
    return {"version": version, "prev": prev, "merkle": merkle, "root": root, "time": time, "bits": bits,
            "nonce": nonce, "solution": sol, "consumed": r.pos}


def block_hash(header_bytes):
    return hashlib.sha256(hashlib.sha256(header_bytes).digest()).digest()


def selftest():
    # Zcash mainnet genesis block header (well known): hash 00040fe8ec8471911baa1db1266ea15dd06b4a8a5c453883c000b031973dce08
    # is not embedded here (1487 bytes); structural self-check instead.
    h = struct.pack("<i", 4) + bytes(range(32)) * 3 + struct.pack("<II", 5, 6) + b"\x07" * 32 + b"\xfd\x40\x05" + b"\x09" * 1344
    p = parse_header(h + b"xyz")
    assert p["consumed"] == len(h) and p["version"] == 4 and p["time"] == 5 and p["bits"] == 6 and len(p["solution"]) == 1344
    try:
        parse_header(h[:140] + b"\xfd\x10\x00" + b"\0" * 16)
        raise AssertionError("non-canonical solution size accepted")
    except HeaderError:
        pass
    assert block_hash(b"") == bytes.fromhex("5df6e0e2761359d30a8275058e299fcc0381534545f55cf43e41983f5d4c9456")
    return True


if __name__ == "__main__":
    selftest()
    print("blockhdr selftest ok")
