"""Equihash solution validity, written from the Zcash protocol specification §7.6.1.1
(and §5.4.1.11 for the personalised BLAKE2b), with Python integers only.

Nothing here follows the structure of the Rust crate: no byte-expanded arrays, no trimmed
hashes.  A hash X_i is an n-bit integer, "leading zeros" is a comparison with a power of two,
the ordering condition is Python's lexicographic list comparison.

    valid(n, k, powheader, soln)  ->  (True, "ok") | (False, reason)

`powheader` is the whole hashed prefix (input ‖ nonce in the crate's API).

Parameter validity (what the definition needs to make sense at all):
    n ≡ 0 (mod 8), n ≡ 0 (mod k+1), 3 ≤ k < n, and n ≤ 512 (m = floor(512/n) ≥ 1 so that a BLAKE2b
    output holds at least one n-bit string).  The minimal solution encoding is 2^k indices of
    n/(k+1)+1 bits each, big-endian bit packing, exact byte length for k ≥ 3.

Self-test (`python3 equihash_ref.py [repo]`): the crate's own valid / invalid index vectors and the
mainnet block header shipped in zcash_primitives must be judged as the files say.
"""
import hashlib
import os
import re
import struct
import sys


def params_ok(n, k):
    return n % 8 == 0 and k >= 3 and k < n and n % (k + 1) == 0


def hash_defined(n):
    return 8 <= n <= 512


def soln_len(n, k):
    """Byte length of the minimal encoding (None when it is absurdly large)."""
    if k > 40:
        return None
    return ((1 << k) * (n // (k + 1) + 1)) // 8


def decode_minimal(n, k, soln):
    """I2BEBSP-packed indices: 2^k fields of (n/(k+1)+1) bits, most significant bit first."""
    w = n // (k + 1) + 1
    cnt = 1 << k
    if len(soln) * 8 != cnt * w:
        return None
    if cnt <= 4096:
        big = int.from_bytes(soln, "big")
        mask = (1 << w) - 1
        return [(big >> (w * (cnt - 1 - j))) & mask for j in range(cnt)]
    return _LazyIndices(soln, w, cnt)


class _LazyIndices:
    """Index list view for very long encodings (grid points with large k)."""

    def __init__(self, soln, w, cnt):
        self.s, self.w, self.cnt = soln, w, cnt

    def __len__(self):
        return self.cnt

    def __getitem__(self, j):
        if isinstance(j, slice):
            return [self[i] for i in range(*j.indices(self.cnt))]
        lo = j * self.w
        hi = lo + self.w
        b0, b1 = lo // 8, (hi + 7) // 8
        v = int.from_bytes(self.s[b0:b1], "big")
        v >>= (b1 * 8 - hi)
        return v & ((1 << self.w) - 1)


def encode_minimal(n, k, indices):
    w = n // (k + 1) + 1
    big = 0
    for i in indices:
        assert 0 <= i < (1 << w)
        big = (big << w) | i
    return big.to_bytes(len(indices) * w // 8, "big")


class Hasher:
    """X_i for one (n, k, powheader).  `i` is the 0-based index as encoded (spec index − 1)."""

    def __init__(self, n, k, powheader):
        self.n = n
        self.m = 512 // n
        self.person = b"ZcashPoW" + struct.pack("<II", n, k)
        self.base = hashlib.blake2b(digest_size=n * self.m // 8, person=self.person)
        self.base.update(powheader)
        self.cache = {}

    def x(self, i):
        q, r = divmod(i, self.m)
        d = self.cache.get(q)
        if d is None:
            h = self.base.copy()
            h.update(struct.pack("<I", q))
            d = h.digest()
            if len(self.cache) < 4096:
                self.cache[q] = d
        nb = self.n // 8
        return int.from_bytes(d[r * nb:(r + 1) * nb], "big")


def check_indices(n, k, powheader, idx, hasher=None):
    """The three conditions of the definition on a decoded index sequence.

    Depth-first with early exit so that hopeless long sequences cost little; the verdict does
    not depend on evaluation order (all conditions are conjoined)."""
    cnt = 1 << k
    if len(idx) != cnt:
        return False, "count"
    c = n // (k + 1)
    H = hasher or Hasher(n, k, powheader)

    # returns (xor of X over the block, list of the block's indices) or raises _Bad
    def block(lo, r):
        if r == 0:
            i = idx[lo]
            return H.x(i), [i]
        half = 1 << (r - 1)
        xl, il = block(lo, r - 1)
        xr, ir = block(lo + half, r - 1)
        x = xl ^ xr
        # algorithm binding, part 1: 2^r-fold XOR has r*c leading zero bits (r < k);
        # for r = k the generalised birthday condition demands all n bits zero.
        if r < k:
            if x >> (n - r * c):
                raise _Bad("collision@%d" % r)
        else:
            if x != 0:
                # distinguish "first k*c bits collide but the rest does not" for diagnostics
                raise _Bad("collision@%d" % r if x >> (n - r * c) else "nonzero-root")
        # algorithm binding, part 2: left half precedes right half lexicographically
        if not (il < ir):
            # equal first elements are a duplicate, whatever comes after
            raise _Bad("duplicate@%d" % r if il[0] == ir[0] else "order@%d" % r)
        return x, il + ir

    try:
        _, all_idx = block(0, k)
    except _Bad as e:
        return False, e.args[0]
    if len(set(all_idx)) != cnt:
        return False, "duplicate"
    return True, "ok"


class _Bad(Exception):
    pass


class GeneratedIndices:
    """Index sequence given by a rule (grid points whose encoding is too long to log)."""

    def __init__(self, n, k, kind, a=0, b=0):
        self.w = n // (k + 1) + 1
        self.cnt = 1 << k
        self.kind, self.a, self.b = kind, a, b

    def __len__(self):
        return self.cnt

    def __getitem__(self, j):
        mask = (1 << self.w) - 1
        if self.kind == "zeros":
            return 0
        if self.kind == "ones":
            return mask
        if self.kind == "seq":
            return j & mask
        if self.kind == "affine":
            return ((self.a * j + self.b) & 0xFFFFFFFFFFFFFFFF) & mask
        raise ValueError(self.kind)


def valid_indices(n, k, powheader, idx, hasher=None):
    """Like `valid` for an already decoded sequence of 2^k indices."""
    if not params_ok(n, k):
        return False, "params"
    if not hash_defined(n):
        return False, "params-n>512"
    if k > 12:
        sys.setrecursionlimit(max(sys.getrecursionlimit(), 10000))
    return check_indices(n, k, powheader, idx, hasher)


def valid(n, k, powheader, soln, hasher=None):
    if not params_ok(n, k):
        return False, "params"
    if not hash_defined(n):
        return False, "params-n>512"
    L = soln_len(n, k)
    if L is None or len(soln) != L:
        return False, "length"
    idx = decode_minimal(n, k, soln)
    if idx is None:
        return False, "length"
    if k > 12:
        sys.setrecursionlimit(max(sys.getrecursionlimit(), 10000))
    return check_indices(n, k, powheader, idx, hasher)


# --------------------------------------------------------------------------------------------
# vectors shipped in the repository

def _rust_bytes(lit):
    """b"..." literal (only simple escapes occur in the vector files)."""
    out = bytearray()
    i = 0
    while i < len(lit):
        ch = lit[i]
        if ch == "\\":
            nx = lit[i + 1]
            if nx == "x":
                out.append(int(lit[i + 2:i + 4], 16))
                i += 4
                continue
            out.append({"n": 10, "r": 13, "t": 9, "0": 0, "\\": 92, '"': 34, "'": 39}[nx])
            i += 2
            continue
        out += ch.encode()
        i += 1
    return bytes(out)


def _ints(body):
    return [int(t, 0) for t in re.findall(r"0x[0-9a-fA-F]+|\d+", body)]


def _strip_comments(src):
    return re.sub(r"//[^\n]*", "", src)


def parse_vectors(path, valid_file):
    src = _strip_comments(open(path).read())
    src = src[src.index("TEST_VECTORS"):]
    out = []
    for blk in src.split("TestVector {")[1:]:
        n, k = map(int, re.search(r"params:\s*Params\s*\{\s*n:\s*(\d+),\s*k:\s*(\d+)\s*\}", blk).groups())
        inp = _rust_bytes(re.search(r'input:\s*b"((?:[^"\\]|\\.)*)"', blk).group(1))
        nm = re.search(r"nonce:\s*\[([^\]]*)\]", blk).group(1)
        if ";" in nm:
            v, c = nm.split(";")
            nonce = bytes([int(v)] * int(c))
        else:
            nonce = bytes(_ints(nm))
        assert len(nonce) == 32
        if valid_file:
            body = blk[blk.index("solutions:"):]
            sols = [x for x in (_ints(s) for s in re.findall(r"&\[([^\[\]]*)\]", body)) if x]
            out.append({"n": n, "k": k, "input": inp, "nonce": nonce, "solutions": sols})
        else:
            body = re.search(r"solution:\s*&\[([^\]]*)\]", blk).group(1)
            err = re.search(r"error:\s*Kind::(\w+)", blk).group(1)
            out.append({"n": n, "k": k, "input": inp, "nonce": nonce, "solution": _ints(body), "error": err})
    return out


def parse_mainnet_header(repo):
    src = _strip_comments(open(os.path.join(repo, "zcash_primitives/src/block.rs")).read())
    m = re.search(r"const BLOCK_MAINNET_415000:\s*\[u8;\s*\d+\]\s*=\s*\[([^\]]*)\]", src)
    b = bytes(_ints(m.group(1)))
    assert b[140:143] == b"\xfd\x40\x05"
    return {"n": 200, "k": 9, "input": b[:108], "nonce": b[108:140], "soln": b[143:143 + 1344]}


def load_repo_vectors(repo):
    d = os.path.join(repo, "components/equihash/src/test_vectors")
    return (parse_vectors(os.path.join(d, "valid.rs"), True),
            parse_vectors(os.path.join(d, "invalid.rs"), False),
            parse_mainnet_header(repo))


_KIND = {"Collision": "collision", "OutOfOrder": "order", "DuplicateIdxs": "duplicate", "NonZeroRootHash": "nonzero-root"}


def selftest(repo="/repo"):
    """Returns (problems, stats)."""
    problems = []
    val, inv, hdr = load_repo_vectors(repo)
    nv = ni = 0
    for tv in val:
        for s in tv["solutions"]:
            nv += 1
            enc = encode_minimal(tv["n"], tv["k"], s)
            if list(decode_minimal(tv["n"], tv["k"], enc)) != s:
                problems.append("minimal encode/decode mismatch")
            ok, why = valid(tv["n"], tv["k"], tv["input"] + tv["nonce"], enc)
            if not ok:
                problems.append("valid vector (%d,%d) judged invalid: %s" % (tv["n"], tv["k"], why))
    for tv in inv:
        ni += 1
        enc = encode_minimal(tv["n"], tv["k"], tv["solution"])
        ok, why = valid(tv["n"], tv["k"], tv["input"] + tv["nonce"], enc)
        if ok:
            problems.append("invalid vector judged valid (file says %s)" % tv["error"])
        elif not why.startswith(_KIND[tv["error"]]):
            # the *first* failing condition depends on evaluation order; only the verdict is
            # normative, so a different reason is reported but is not a self-test failure
            pass
    ok, why = valid(200, 9, hdr["input"] + hdr["nonce"], hdr["soln"])
    if not ok:
        problems.append("mainnet block 415000 header solution judged invalid: %s" % why)
    # one flipped bit in the real header must be invalid
    bad = bytearray(hdr["soln"])
    bad[700] ^= 0x10
    if valid(200, 9, hdr["input"] + hdr["nonce"], bytes(bad))[0]:
        problems.append("bit-flipped mainnet solution judged valid")
    if nv < 20 or ni < 9:
        problems.append("too few vectors parsed (%d valid, %d invalid)" % (nv, ni))
    return problems, {"valid_vectors": nv, "invalid_vectors": ni, "header_vectors": 1}


if __name__ == "__main__":
    p, st = selftest(sys.argv[1] if len(sys.argv) > 1 else "/repo")
    print(st)
    for x in p:
        print("PROBLEM:", x)
    sys.exit(1 if p else 0)
