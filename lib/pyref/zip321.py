"""ZIP 321 payment-request URIs: a hand-written recogniser of the ABNF, the semantic rule list,
and exact decimal <-> zatoshi conversion with Python integers.  Written from the ZIP text; shares
nothing with the Rust crate (no nom-style combinators, no percent-encoding tables from a library).

Two levels, because the property under test only says what an *accepted* URI must satisfy:

* `rules(uri, kinds)` works on a lenient "raw view" of the URI (split at the first '?', at '&',
  at the first '=', at the first '.') and checks exactly the rule list of the property:
    recipient for every index / amount 1*DIGIT["."1*8DIGIT] within [0, MAX_MONEY] / no memo for a
    recipient that cannot receive one / no zero-valued transparent output / no duplicate
    (name, index) / index = NONZERO 0*3DIGIT / no `req-` parameter (none is defined, so every one
    is unknown).
  An accepted URI that breaks one of them is a violation.  It also predicts the zatoshi value of
  every amount.

* `strict(uri)` is the full grammar (paramname and qchar alphabets, pct-encoded = "%" HEXDIG HEXDIG,
  base64url memo, UTF-8 after decoding, "zcash:" alone is not a URI, no empty parameters, known keys
  need "=").  Divergence from it is reported as a diagnostic only: the property does not demand
  that every grammar deviation be refused, and the crate documents `zcash:` / `zcash:?` as accepted.

Addresses cannot be validated here (that is C10's subject); the caller supplies
`kinds[address_string] = {"valid": bool, "t_only": bool, "memo": bool}`.

    ABNF (ZIP 321)
    zcashurn     = "zcash:" ( zcashaddress [ "?" zcashparams ] / "?" zcashparams )
    zcashaddress = 1*( ALPHA / DIGIT )
    zcashparams  = zcashparam [ "&" zcashparams ]
    zcashparam   = [ addrparam / amountparam / memoparam / messageparam / labelparam / reqparam / otherparam ]
    paramindex   = "." NONZERO 0*3DIGIT
    addrparam    = "address" [ paramindex ] "=" zcashaddress
    amountparam  = "amount"  [ paramindex ] "=" 1*DIGIT [ "." 1*8DIGIT ]
    labelparam   = "label"   [ paramindex ] "=" *qchar
    memoparam    = "memo"    [ paramindex ] "=" *base64url
    messageparam = "message" [ paramindex ] "=" *qchar
    paramname    = ALPHA *( ALPHA / DIGIT / "+" / "-" )
    reqparam     = "req-" paramname [ paramindex ] [ "=" *qchar ]
    otherparam   = paramname [ paramindex ] [ "=" *qchar ]
    qchar        = unreserved / pct-encoded / allowed-delims / ":" / "@"
    allowed-delims = "!" / "$" / "'" / "(" / ")" / "*" / "+" / "," / ";"
"""
import os
import re
import sys

COIN = 10 ** 8
MAX_MONEY = 21_000_000 * COIN

ALPHA = set("abcdefghijklmnopqrstuvwxyzABCDEFGHIJKLMNOPQRSTUVWXYZ")
DIGIT = set("0123456789")
HEXDIG = set("0123456789abcdefABCDEF")
UNRESERVED = ALPHA | DIGIT | set("-._~")
ALLOWED_DELIMS = set("!$'()*+,;")
QCHAR_LITERAL = UNRESERVED | ALLOWED_DELIMS | set(":@")
BASE64URL = ALPHA | DIGIT | set("-_")
NAMECHAR = ALPHA | DIGIT | set("+-")
KNOWN = ("address", "amount", "label", "memo", "message")


# ------------------------------------------------------------------------------------------
# amounts

def amount_to_zat(text):
    """Exact: returns (zat, None) or (None, reason). ASCII digits only."""
    if text == "":
        return None, "empty"
    whole, dot, frac = text.partition(".")
    if not whole or any(c not in DIGIT for c in whole):
        return None, "not-decimal"
    if dot:
        if not frac or any(c not in DIGIT for c in frac):
            return None, "not-decimal"
        if len(frac) > 8:
            return None, "more-than-8-decimals"
    z = int(whole) * COIN + (int(frac + "0" * (8 - len(frac))) if dot else 0)
    if z > MAX_MONEY:
        return None, "above-max-money"
    return z, None


def zat_to_amount(z):
    """One exact rendering (shortest)."""
    w, f = divmod(z, COIN)
    if f == 0:
        return str(w)
    return "%d.%s" % (w, ("%08d" % f).rstrip("0"))


def amount_text_equals(text, z):
    """Is `text` a grammar-valid decimal that denotes exactly z zatoshis?"""
    got, why = amount_to_zat(text)
    return got is not None and got == z


# ------------------------------------------------------------------------------------------
# small codecs

def pct_decode_strict(v, why=None):
    """*qchar -> bytes, or None if a character is outside qchar or an escape is malformed
    (`why`, if given, is a list that receives the reason)."""
    out = bytearray()
    i = 0
    while i < len(v):
        c = v[i]
        if c == "%":
            if len(v) >= i + 3 and v[i + 1] in HEXDIG and v[i + 2] in HEXDIG:
                out.append(int(v[i + 1:i + 3], 16))
                i += 3
                continue
            if why is not None:
                why.append("malformed-percent-escape")
            return None
        if c not in QCHAR_LITERAL:
            if why is not None:
                why.append("character-outside-qchar")
            return None
        out.append(ord(c))
        i += 1
    return bytes(out)


def pct_decode_lenient(v):
    """What a forgiving decoder does: well-formed escapes are decoded, everything else is literal."""
    out = bytearray()
    i = 0
    while i < len(v):
        c = v[i]
        if c == "%" and len(v) >= i + 3 and v[i + 1] in HEXDIG and v[i + 2] in HEXDIG:
            out.append(int(v[i + 1:i + 3], 16))
            i += 3
            continue
        out += c.encode("utf-8", "surrogatepass")
        i += 1
    return bytes(out)


_B64 = {c: i for i, c in enumerate("ABCDEFGHIJKLMNOPQRSTUVWXYZabcdefghijklmnopqrstuvwxyz0123456789-_")}


def b64url_decode(v):
    """Unpadded base64url. Returns (bytes, canonical) or (None, False)."""
    if any(c not in _B64 for c in v):
        return None, False
    if len(v) % 4 == 1:
        return None, False
    acc = 0
    bits = 0
    out = bytearray()
    for c in v:
        acc = (acc << 6) | _B64[c]
        bits += 6
        if bits >= 8:
            bits -= 8
            out.append((acc >> bits) & 0xFF)
    canonical = (acc & ((1 << bits) - 1)) == 0
    return bytes(out), canonical


def b64url_encode(b):
    alphabet = "ABCDEFGHIJKLMNOPQRSTUVWXYZabcdefghijklmnopqrstuvwxyz0123456789-_"
    out = []
    acc = 0
    bits = 0
    for byte in b:
        acc = (acc << 8) | byte
        bits += 8
        while bits >= 6:
            bits -= 6
            out.append(alphabet[(acc >> bits) & 63])
    if bits:
        out.append(alphabet[(acc << (6 - bits)) & 63])
    return "".join(out)


def memo_canonical_512(b):
    """Memo bytes as the 512-byte field (zero padded)."""
    return b + b"\x00" * (512 - len(b))


# ------------------------------------------------------------------------------------------
# raw view

class Raw:
    def __init__(self):
        self.scheme_ok = False
        self.lead = None          # text between "zcash:" and the first '?', None if absent/empty
        self.has_query = False
        self.params = []          # (nametext, name, idxtext or None, value or None)
        self.empty_params = 0


def raw_view(uri):
    r = Raw()
    if not uri.startswith("zcash:"):
        return r
    r.scheme_ok = True
    rest = uri[6:]
    lead, q, query = rest.partition("?")
    r.lead = lead if lead != "" else None
    r.has_query = q == "?"
    if r.has_query:
        for piece in query.split("&"):
            if piece == "":
                r.empty_params += 1
                continue
            nametext, eq, value = piece.partition("=")
            name, dot, idxtext = nametext.partition(".")
            r.params.append((nametext, name, idxtext if dot else None, value if eq else None))
    return r


def index_ok(idxtext):
    return (1 <= len(idxtext) <= 4 and idxtext[0] in "123456789" and all(c in DIGIT for c in idxtext))


def address_candidates(uri):
    """Every string the caller must classify for `rules` to be decidable."""
    r = raw_view(uri)
    out = []
    if r.lead is not None:
        out.append(r.lead)
    for (_, name, _, value) in r.params:
        if name == "address" and value is not None:
            out.append(value)
    return out


def rules(uri, kinds):
    """The property's rule list on the raw view.

    Returns (broken, payments, undecided):
      broken    - list of rule names the URI breaks (empty = satisfies the list)
      payments  - {index: {"address": str, "amount": zat or None, "memo": bytes or None,
                            "label": raw value or None, "message": raw value or None,
                            "other": [(name, raw value)]}} as far as it could be read
      undecided - an address string was not classified by the caller
    """
    r = raw_view(uri)
    broken = []
    undecided = False
    if not r.scheme_ok:
        return ["scheme"], {}, False
    by_index = {}
    seen = set()

    def slot(i):
        return by_index.setdefault(i, {"address": None, "amount": None, "memo": None, "label": None, "message": None,
                                       "other": [], "_amount_text": None, "_memo_text": None})

    if r.lead is not None:
        slot(0)["address"] = r.lead
        seen.add(("address", 0))
    for (nametext, name, idxtext, value) in r.params:
        if idxtext is None:
            idx = 0
        elif index_ok(idxtext):
            idx = int(idxtext)
        else:
            broken.append("bad-index")
            continue
        if name.startswith("req-"):
            broken.append("unknown-required")
        key = (name, idx)
        if key in seen:
            broken.append("duplicate-param")
            continue
        seen.add(key)
        s = slot(idx)
        if name == "address":
            s["address"] = value if value is not None else ""
        elif name == "amount":
            s["_amount_text"] = value if value is not None else ""
        elif name == "memo":
            s["_memo_text"] = value if value is not None else ""
        elif name == "label":
            s["label"] = value if value is not None else ""
        elif name == "message":
            s["message"] = value if value is not None else ""
        else:
            s["other"].append((name, value))
    for idx, s in by_index.items():
        a = s["address"]
        kind = None
        if a is None:
            broken.append("missing-recipient")
        elif a == "":
            broken.append("invalid-recipient")
        else:
            kind = kinds.get(a)
            if kind is None:
                undecided = True
            elif not kind.get("valid"):
                broken.append("invalid-recipient")
                kind = None
        if s["_amount_text"] is not None:
            z, why = amount_to_zat(s["_amount_text"])
            if z is None:
                broken.append("bad-amount:" + why)
            else:
                s["amount"] = z
                if z == 0 and kind is not None and kind.get("t_only"):
                    broken.append("zero-valued-transparent-output")
        if s["_memo_text"] is not None:
            m, _canon = b64url_decode(s["_memo_text"])
            if m is None or len(m) > 512:
                broken.append("bad-memo")
            else:
                s["memo"] = m
            if kind is not None and not kind.get("memo"):
                broken.append("memo-to-recipient-without-memo")
    # deduplicate, keep order
    out = []
    for b in broken:
        if b not in out:
            out.append(b)
    return out, by_index, undecided


# ------------------------------------------------------------------------------------------
# strict grammar

def strict(uri):
    """(True, None) if `uri` is derivable from the ABNF and every value decodes (UTF-8, base64url),
    else (False, reason). Address *validity* is not part of this."""
    if not uri.startswith("zcash:"):
        return False, "scheme"
    rest = uri[6:]
    lead, q, query = rest.partition("?")
    if lead == "" and q == "":
        return False, "neither-address-nor-params"
    if any(c not in ALPHA and c not in DIGIT for c in lead):
        return False, "address-alphabet"
    if q == "?":
        if query == "":
            return False, "empty-query"
        for piece in query.split("&"):
            if piece == "":
                return False, "empty-param"
            ok, why = _strict_param(piece)
            if not ok:
                return False, why
    return True, None


def _strict_param(piece):
    nametext, eq, value = piece.partition("=")
    name, dot, idxtext = nametext.partition(".")
    if name == "" or name[0] not in ALPHA or any(c not in NAMECHAR for c in name):
        return False, "paramname"
    if dot and not index_ok(idxtext):
        return False, "paramindex"
    if name in KNOWN and not eq:
        return False, "known-key-without-value"
    if name == "address":
        if value == "" or any(c not in ALPHA and c not in DIGIT for c in value):
            return False, "address-alphabet"
    elif name == "amount":
        whole, d, frac = value.partition(".")
        if not whole or any(c not in DIGIT for c in whole) or (d and (not 1 <= len(frac) <= 8 or any(c not in DIGIT for c in frac))):
            return False, "amount-syntax"
    elif name == "memo":
        if any(c not in BASE64URL for c in value):
            return False, "memo-alphabet"
        m, canon = b64url_decode(value)
        if m is None:
            return False, "memo-base64"
        if not canon:
            return False, "memo-base64-trailing-bits"
    else:
        if name.startswith("req-") and (len(name) == 4 or name[4] not in ALPHA):
            return False, "reqparam-name"
        if eq:
            why = []
            b = pct_decode_strict(value, why)
            if b is None:
                return False, why[0]
            try:
                b.decode("utf-8")
            except UnicodeDecodeError:
                return False, "value-not-utf8"
    return True, None


def predicted_strings(payments):
    """Decoded label / message / other values of a strictly valid URI (call after strict() held)."""
    out = {}
    for idx, s in payments.items():
        d = {}
        for k in ("label", "message"):
            d[k] = None if s[k] is None else pct_decode_strict(s[k]).decode("utf-8")
        d["other"] = [(n, "" if v is None else pct_decode_strict(v).decode("utf-8")) for (n, v) in s["other"]]
        out[idx] = d
    return out


# ------------------------------------------------------------------------------------------
# constructors

def payment_new_expected(kind, amount_zat, has_memo):
    """What Payment::new must answer according to the rule list: 'ok' or the broken rule."""
    if has_memo and not kind["memo"]:
        return "memo-to-recipient-without-memo"
    if kind["t_only"] and amount_zat == 0:
        return "zero-valued-transparent-output"
    return "ok"


# ------------------------------------------------------------------------------------------
# self-test on the ZIP 321 examples quoted in the crate's test module

def _heuristic_kinds(uri):
    k = {}
    for a in address_candidates(uri):
        if re.fullmatch(r"[A-Za-z0-9]+", a) is None:
            k[a] = {"valid": False}
        elif a.startswith("t"):
            k[a] = {"valid": True, "t_only": True, "memo": False}
        else:
            k[a] = {"valid": True, "t_only": False, "memo": True}
    return k


def spec_examples(repo):
    src = open(os.path.join(repo, "components/zip321/src/lib.rs")).read()
    out = {"valid": [], "invalid": []}
    for fn, key in (("test_zip321_spec_valid_examples", "valid"), ("test_zip321_spec_regtest_valid_examples", "valid"),
                    ("test_zip321_spec_invalid_examples", "invalid")):
        at = src.index("fn " + fn)
        end = src.index("\n    }\n", at)
        body = src[at:end]
        for m in re.finditer(r'"((?:[^"\\]|\\.)*)"', body):
            s = m.group(1)
            if s.startswith("zcash:") or (key == "invalid" and s == ""):
                out[key].append(s)
    return out


def selftest(repo="/repo"):
    problems = []
    # amounts
    for text, want in (("1", COIN), ("0", 0), ("0.1", 10 ** 7), ("0.00000001", 1), ("1.10", 110000000), ("21000000", MAX_MONEY),
                       ("20999999.99999999", MAX_MONEY - 1), ("001", COIN), ("123.456", 12345600000)):
        if amount_to_zat(text)[0] != want:
            problems.append("amount %r" % text)
    for text in ("", ".", "1.", ".5", "1.123456789", "21000000.00000001", "21000001", "-1", "+1", "1e3", "1,5", " 1", "1 ", "١", "１",
                 "9223372036854775808", "18446744073709551624"):
        if amount_to_zat(text)[0] is not None:
            problems.append("amount %r accepted" % text)
    for z in (0, 1, 10, COIN - 1, COIN, COIN + 1, 123456789, MAX_MONEY - 1, MAX_MONEY, 50000000, 100000):
        if amount_to_zat(zat_to_amount(z))[0] != z:
            problems.append("amount roundtrip %d" % z)
    # base64url
    for b in (b"", b"a", b"ab", b"abc", bytes(range(256)) * 2):
        if b64url_decode(b64url_encode(b)) != (b, True):
            problems.append("base64 roundtrip")
    if b64url_decode("VGhpcyBpcyBhIHNpbXBsZSBtZW1vLg")[0] != b"This is a simple memo.":
        problems.append("base64 vector")
    if b64url_decode("QQ")[1] is not True or b64url_decode("QR")[1] is not False or b64url_decode("Q")[0] is not None:
        problems.append("base64 trailing bits / length")
    ex = spec_examples(repo)
    n = 0
    for u in ex["valid"]:
        n += 1
        broken, pay, und = rules(u, _heuristic_kinds(u))
        if broken or und:
            problems.append("spec-valid example breaks rules %s: %s" % (broken, u[:60]))
        ok, why = strict(u)
        if not ok and u not in ("zcash:", "zcash:?"):
            problems.append("spec-valid example not in grammar (%s): %s" % (why, u[:60]))
    for u in ex["invalid"]:
        n += 1
        broken, pay, und = rules(u, _heuristic_kinds(u))
        ok, why = strict(u)
        if not broken and ok:
            problems.append("spec-invalid example judged valid: %s" % u[:80])
    if len(ex["valid"]) < 6 or len(ex["invalid"]) < 13:
        problems.append("too few spec examples found (%d valid, %d invalid)" % (len(ex["valid"]), len(ex["invalid"])))
    return problems, {"spec_examples": n}


if __name__ == "__main__":
    p, st = selftest(sys.argv[1] if len(sys.argv) > 1 else "/repo")
    print(st)
    for x in p:
        print("PROBLEM:", x)
    sys.exit(1 if p else 0)
