"""ZIP 316 unified containers (Revision 0: addresses, UFVKs, UIVKs) and the Zcash address string
grammar (protocol spec 5.6, ZIP 173, ZIP 316, ZIP 320), written from the specifications.
python3 stdlib only. Shares no code with /repo.

Container encoding (ZIP 316 "Encoding of Unified Addresses"):
  raw      = concat over items in ascending typecode order of  compactSize(typecode) || compactSize(len) || data
  padded   = raw || hrp padded with zero bytes to 16 bytes
  string   = Bech32m(hrp, F4Jumble(padded))            (no 90 character limit)
Requirements checked by a consumer:
  * Bech32m (not Bech32), known HRP, canonical 5-bit padding, lower case
  * 48 <= len(padded) <= 4194368 (F4Jumble's domain)
  * the last 16 bytes equal the padded HRP
  * items parse exactly (canonical compactSize, typecode <= 0x2000000, no truncation, nothing left over)
  * typecodes strictly ascending (hence unique); not both P2PKH (0x00) and P2SH (0x01)
  * at least one item that is not transparent
  * known typecodes carry data of exactly the defined length; a UFVK/UIVK has no P2SH item
  * items with unknown typecodes are preserved verbatim

Scope note ("at least one shielded item"): a consumer cannot know whether an *unknown* typecode is a
future shielded pool, so, like the repository's own definition (`arb_shielded_typecode`: "Sapling,
Orchard, or unknown"), every non-transparent item counts; `only_unknown_shielded(items)` lets the
caller report how often acceptance rested on that reading.
"""
import re

from . import base58, bech32, f4jumble

MAX_COMPACT = 0x02000000
P2PKH, P2SH, SAPLING, ORCHARD = 0, 1, 2, 3

HRPS = {
    "addr": {"main": "u", "test": "utest", "regtest": "uregtest"},
    "ufvk": {"main": "uview", "test": "uviewtest", "regtest": "uviewregtest"},
    "uivk": {"main": "uivk", "test": "uivktest", "regtest": "uivkregtest"},
}
# exact data length of the known items per container kind; None = typecode not allowed there
KNOWN_LEN = {
    "addr": {P2PKH: 20, P2SH: 20, SAPLING: 43, ORCHARD: 43},
    "ufvk": {P2PKH: 65, P2SH: None, SAPLING: 128, ORCHARD: 96},
    "uivk": {P2PKH: 65, P2SH: None, SAPLING: 64, ORCHARD: 64},
}
SAPLING_HRP = {"main": "zs", "test": "ztestsapling", "regtest": "zregtestsapling"}
TEX_HRP = {"main": "tex", "test": "textest", "regtest": "texregtest"}
# Base58Check two-byte version prefixes (protocol spec 5.6.1.1, 5.6.2); testnet == regtest
B58 = {
    "main": {"p2pkh": bytes([0x1C, 0xB8]), "p2sh": bytes([0x1C, 0xBD]), "sprout": bytes([0x16, 0x9A])},
    "test": {"p2pkh": bytes([0x1D, 0x25]), "p2sh": bytes([0x1C, 0xBA]), "sprout": bytes([0x16, 0xB6])},
}
B58_LEN = {"p2pkh": 20, "p2sh": 20, "sprout": 64}

# Unicode White_Space (what "trimmed" means for a Rust &str); written out so that python's
# str.strip() default set (which differs: it includes U+001C..U+001F) is not relied upon.
WHITESPACE = ("\t\n\x0b\x0c\r \x85\xa0\u1680" + "".join(chr(c) for c in range(0x2000, 0x200B))
              + "\u2028\u2029\u202f\u205f\u3000")


class Zip316Error(Exception):
    pass


# ---------------------------------------------------------------- compactSize

def compact_size(n, width=None):
    """Canonical compactSize, or (width in 1,3,5,9) a forced -- possibly non-canonical -- width."""
    if width is None:
        width = 1 if n < 0xFD else 3 if n <= 0xFFFF else 5 if n <= 0xFFFFFFFF else 9
    if width == 1:
        assert n < 0xFD
        return bytes([n])
    if width == 3:
        return b"\xfd" + n.to_bytes(2, "little")
    if width == 5:
        return b"\xfe" + n.to_bytes(4, "little")
    if width == 9:
        return b"\xff" + n.to_bytes(8, "little")
    raise ValueError(width)


def read_compact_size(buf, pos):
    if pos >= len(buf):
        raise Zip316Error("truncated compactSize")
    b = buf[pos]
    if b < 0xFD:
        return b, pos + 1
    width = {0xFD: 2, 0xFE: 4, 0xFF: 8}[b]
    if pos + 1 + width > len(buf):
        raise Zip316Error("truncated compactSize")
    v = int.from_bytes(buf[pos + 1:pos + 1 + width], "little")
    lo = {2: 0xFD, 4: 0x10000, 8: 0x100000000}[width]
    if v < lo:
        raise Zip316Error("non-canonical compactSize")
    if v > MAX_COMPACT:
        raise Zip316Error("compactSize above 0x2000000")
    return v, pos + 1 + width


# ---------------------------------------------------------------- containers

def padding(hrp):
    b = hrp.encode("ascii")
    if len(b) > 16:
        raise Zip316Error("hrp longer than the padding")
    return b + bytes(16 - len(b))


def raw_items(items, tc_width=None, len_width=None):
    out = bytearray()
    for tc, data in items:
        out += compact_size(tc, tc_width) + compact_size(len(data), len_width) + data
    return bytes(out)


def encode(kind, net, items, hrp=None, pad=None, variant=bech32.BECH32M, jumble=True, raw=None,
           pad_value=0, extra_groups=(), sort=False):
    """Encodes a container. Every keyword lets the caller break exactly one rule:
    hrp: HRP of the string (default: the network's);  pad: the 16 trailing bytes (default: the
    *network's* HRP zero-padded, so overriding only `hrp` yields a prefix/padding mismatch);
    variant: checksum constant;  raw: the item bytes (default: raw_items(items), order as given);
    pad_value / extra_groups: non-canonical 5-bit padding."""
    if sort:
        items = sorted(items, key=lambda it: it[0])
    h = HRPS[kind][net] if hrp is None else hrp
    body = raw_items(items) if raw is None else raw
    padded = body + (padding(HRPS[kind][net]) if pad is None else pad)
    payload = f4jumble.f4jumble(padded) if jumble else padded
    return bech32.encode_bytes(h, payload, variant, pad_value, extra_groups)


def parse_items(buf):
    items = []
    pos = 0
    while pos < len(buf):
        tc, pos = read_compact_size(buf, pos)
        ln, pos = read_compact_size(buf, pos)
        if pos + ln > len(buf):
            raise Zip316Error("truncated item")
        items.append((tc, bytes(buf[pos:pos + ln])))
        pos += ln
    return items


def check_items(kind, items):
    """The composition rules; `items` in encoded order."""
    known = KNOWN_LEN[kind]
    prev = None
    for tc, data in items:
        if tc < 0 or tc > MAX_COMPACT:
            raise Zip316Error("typecode out of range")
        if tc in known:
            if known[tc] is None:
                raise Zip316Error("typecode %d not allowed in %s" % (tc, kind))
            if len(data) != known[tc]:
                raise Zip316Error("wrong length %d for typecode %d" % (len(data), tc))
        if prev is not None:
            if tc == prev:
                raise Zip316Error("duplicate typecode")
            if tc < prev:
                raise Zip316Error("typecodes not ascending")
        prev = tc
    tcs = [tc for tc, _ in items]
    if P2PKH in tcs and P2SH in tcs:
        raise Zip316Error("both P2PKH and P2SH")
    if all(tc in (P2PKH, P2SH) for tc in tcs):
        raise Zip316Error("no shielded item")


def only_unknown_shielded(items):
    """True when no Sapling/Orchard item is present (acceptance rests on an unknown typecode)."""
    return not any(tc in (SAPLING, ORCHARD) for tc, _ in items)


def parse(kind, s):
    """Decodes a unified container string of the given kind -> (net, items). Raises Zip316Error."""
    try:
        hrp, payload, variant, canonical = bech32.decode_bytes(s)
    except bech32.Bech32Error as e:
        raise Zip316Error("bech32: %s" % e)
    if variant != bech32.BECH32M:
        raise Zip316Error("Bech32 checksum, Bech32m required")
    nets = [n for n, h in HRPS[kind].items() if h == hrp]
    if not nets:
        raise Zip316Error("unknown hrp " + hrp)
    if not canonical:
        raise Zip316Error("non-canonical string (upper case or 5-bit padding)")
    try:
        padded = f4jumble.f4jumble_inv(payload)
    except f4jumble.F4JumbleError as e:
        raise Zip316Error(str(e))
    if padded[-16:] != padding(hrp):
        raise Zip316Error("padding does not match hrp")
    items = parse_items(padded[:-16])
    check_items(kind, items)
    return nets[0], items


def try_from_items(kind, items):
    """Value-level constructor semantics: sort by typecode, then the composition rules."""
    items = sorted(items, key=lambda it: it[0])
    check_items(kind, items)
    return items


# ---------------------------------------------------------------- address strings

def trim(s):
    return s.strip(WHITESPACE)


def encode_address(kind, net, data=None, items=None):
    if kind == "unified":
        return encode("addr", net, items)
    if kind == "sapling":
        return bech32.encode_bytes(SAPLING_HRP[net], data, bech32.BECH32)
    if kind == "tex":
        return bech32.encode_bytes(TEX_HRP[net], data, bech32.BECH32M)
    n = "test" if net == "regtest" else net  # documented sharing of prefixes
    return base58.check_encode(B58[n][kind] + data)


def parse_zcash_address(s):
    """The string -> address grammar. Returns {"kind","net","data"} or {"kind":"unified","net","items"}.
    Raises Zip316Error. A string is only acceptable when it *is* the canonical encoding of what it
    decodes to, once trimmed (that is the statement of the property: accepted strings re-encode to
    their trimmed selves), so upper-case Bech32 and non-canonical padding are rejections."""
    t = trim(s)
    try:
        hrp, payload, variant, canonical = bech32.decode_bytes(t)
    except bech32.Bech32Error:
        hrp = None
    if hrp is not None:
        if variant == bech32.BECH32M and hrp in HRPS["addr"].values():
            net, items = parse("addr", t)
            return {"kind": "unified", "net": net, "items": items}
        if not canonical:
            raise Zip316Error("non-canonical bech32 string")
        if variant == bech32.BECH32:
            for net, h in SAPLING_HRP.items():
                if h == hrp:
                    if len(payload) != 43:
                        raise Zip316Error("sapling address length")
                    return {"kind": "sapling", "net": net, "data": payload}
            raise Zip316Error("unknown bech32 hrp")
        for net, h in TEX_HRP.items():
            if h == hrp:
                if len(payload) != 20:
                    raise Zip316Error("tex address length")
                return {"kind": "tex", "net": net, "data": payload}
        raise Zip316Error("unknown bech32m hrp")
    try:
        raw = base58.check_decode(t)
    except base58.Base58Error as e:
        raise Zip316Error("not bech32/bech32m/base58check: %s" % e)
    if len(raw) < 2:
        raise Zip316Error("too short")
    for net in ("main", "test"):
        for kind, pre in B58[net].items():
            if raw[:2] == pre:
                if len(raw) - 2 != B58_LEN[kind]:
                    raise Zip316Error("%s length" % kind)
                return {"kind": kind, "net": net, "data": raw[2:]}
    raise Zip316Error("unknown base58 version")


# ---------------------------------------------------------------- self-test against /repo's vectors

def _opt_bytes(block, field):
    m = re.search(field + r":\s*(None|Some\(\s*&?\[(.*?)\]\s*,?\s*\))", block, re.S)
    if not m or m.group(1) == "None":
        return None
    return bytes(int(x, 16) for x in re.findall(r"0x([0-9a-fA-F]{2})", m.group(2)))


def selftest(repo="/repo"):
    """The official ZIP 316 unified-address vectors shipped in /repo + hand-made negatives from the
    repo's own unit tests."""
    text = open(repo + "/components/zcash_address/src/kind/unified/address/test_vectors.rs").read()
    blocks = text.split("TestVector {")[2:]  # [0] preamble, [1] the struct definition
    n = 0
    for b in blocks:
        items = []
        for tc, f in ((P2PKH, "p2pkh_bytes"), (P2SH, "p2sh_bytes"), (SAPLING, "sapling_raw_addr"),
                      (ORCHARD, "orchard_raw_addr")):
            v = _opt_bytes(b, f)
            if v is not None:
                items.append((tc, v))
        m = re.search(r"unknown_typecode:\s*(None|Some\((\d+)\))", b)
        if m.group(1) != "None":
            items.append((int(m.group(2)), _opt_bytes(b, "unknown_bytes")))
        s = re.search(r'unified_addr:\s*"([^"]+)"', b).group(1)
        net, got = parse("addr", s)
        assert net == "main" and got == items, s
        assert encode("addr", "main", items) == s, s
        assert parse_zcash_address(" " + s + "\n") == {"kind": "unified", "net": "main", "items": items}
        n += 1
    assert n >= 10, n
    # examples quoted in /repo/components/zcash_address/src/encoding.rs tests
    z = parse_zcash_address("zs1qqqqqqqqqqqqqqqqqqqqqqqqqqqqqqqqqqqqqqqqqqqqqqqqqqqqqqqqqqqqqqqqqqqqqpq6d8g")
    assert z == {"kind": "sapling", "net": "main", "data": bytes(43)}
    assert encode_address("sapling", "main", bytes(43)).startswith("zs1qqqq")
    assert parse_zcash_address("tex1s2rt77ggv6q989lr49rkgzmh5slsksa9khdgte") == {
        "kind": "tex", "net": "main", "data": base58.check_decode("t1VmmGiyjVNeCjxDZzg7vZmd99WyzVby9yC")[2:]}
    assert parse_zcash_address("t1Hsc1LR8yKnbbe3twRp88p6vFfC5t7DLbs")["kind"] == "p2pkh"
    assert parse_zcash_address("tm9iMLAuYMzJ6jtFLcA7rzUmfreGuKvr7Ma") == {"kind": "p2pkh", "net": "test",
                                                                         "data": bytes(20)}
    good = [(SAPLING, bytes(43)), (ORCHARD, bytes(43))]
    for bad in ([(P2PKH, bytes(20))], [(P2PKH, bytes(20)), (P2SH, bytes(20)), (SAPLING, bytes(43))],
                [(SAPLING, bytes(43)), (SAPLING, bytes(43))], [(ORCHARD, bytes(43)), (SAPLING, bytes(43))],
                [(SAPLING, bytes(42)), (ORCHARD, bytes(43))], [], [(P2SH, bytes(20))]):
        try:
            check_items("addr", bad)
        except Zip316Error:
            pass
        else:
            raise AssertionError("accepted %r" % (bad,))
        if len(raw_items(bad)) >= 32:
            try:
                parse("addr", encode("addr", "main", bad))
            except Zip316Error:
                continue
            raise AssertionError("accepted string of %r" % (bad,))
    for kind in ("ufvk", "uivk"):
        for bad in ([(P2PKH, bytes(65))], [(P2SH, bytes(65)), (SAPLING, bytes(KNOWN_LEN[kind][SAPLING]))],
                    [(SAPLING, bytes(43))]):
            try:
                parse(kind, encode(kind, "main", bad))
            except Zip316Error:
                continue
            raise AssertionError("accepted %s %r" % (kind, bad))
        ok = [(P2PKH, bytes(65)), (ORCHARD, bytes(KNOWN_LEN[kind][ORCHARD])), (0xFFFF, b"x")]
        assert parse(kind, encode(kind, "regtest", ok)) == ("regtest", ok)
    assert parse("addr", encode("addr", "test", good)) == ("test", good)
    for kw in (dict(variant=bech32.BECH32), dict(pad=bytes(16)), dict(hrp="utest"), dict(pad_value=1),
               dict(extra_groups=[0]), dict(pad=padding("utest"))):
        try:
            parse("addr", encode("addr", "main", good, **kw))
        except Zip316Error:
            continue
        raise AssertionError("accepted malformed %r" % (kw,))
    return n
