"""Base58 / Base58Check as used by Bitcoin and Zcash (protocol spec section 5.6), stdlib only."""
import hashlib

ALPHABET = "123456789ABCDEFGHJKLMNPQRSTUVWXYZabcdefghijkmnopqrstuvwxyz"
_REV = {c: i for i, c in enumerate(ALPHABET)}


class Base58Error(Exception):
    pass


def b58encode(data):
    n = int.from_bytes(data, "big")
    out = []
    while n:
        n, r = divmod(n, 58)
        out.append(ALPHABET[r])
    zeros = len(data) - len(data.lstrip(b"\0"))
    return "1" * zeros + "".join(reversed(out))


def b58decode(s):
    n = 0
    for c in s:
        if c not in _REV:
            raise Base58Error("invalid character")
        n = n * 58 + _REV[c]
    zeros = len(s) - len(s.lstrip("1"))
    body = n.to_bytes((n.bit_length() + 7) // 8, "big") if n else b""
    return b"\0" * zeros + body


def checksum(data):
    return hashlib.sha256(hashlib.sha256(data).digest()).digest()[:4]


def check_encode(data, bad_checksum=False):
    c = checksum(data)
    if bad_checksum:
        c = bytes([c[0] ^ 1]) + c[1:]
    return b58encode(data + c)


def check_decode(s):
    raw = b58decode(s)
    if len(raw) < 4:
        raise Base58Error("too short")
    data, c = raw[:-4], raw[-4:]
    if checksum(data) != c:
        raise Base58Error("bad checksum")
    return data


def selftest():
    # vectors from the Bitcoin Core base58 test-suite (base58_encode_decode.json) and two addresses
    # quoted in /repo (zcash_keys::encoding doc-tests, zcash_address tests)
    vec = [("", ""), ("61", "2g"), ("626262", "a3gV"), ("636363", "aPEr"),
           ("73696d706c792061206c6f6e6720737472696e67", "2cFupjhnEsSn59qHXstmK2ffpLv2"),
           ("00eb15231dfceb60925886b67d065299925915aeb172c06647", "1NS17iag9jJgTHD1VXjvLCEnZuQ3rJDE9L"),
           ("516b6fcd0f", "ABnLTmg"), ("bf4f89001e670274dd", "3SEo3LWLoPntC"), ("572e4794", "3EFU7m"),
           ("ecac89cad93923c02321", "EJDM8drfXA6uyA"), ("10c8511e", "Rt5zm"), ("00000000000000000000", "1111111111")]
    for h, s in vec:
        assert b58encode(bytes.fromhex(h)) == s, (h, s)
        assert b58decode(s) == bytes.fromhex(h), (h, s)
    assert check_encode(bytes([0x1D, 0x25]) + bytes(20)) == "tm9iMLAuYMzJ6jtFLcA7rzUmfreGuKvr7Ma"
    assert check_encode(bytes([0x1C, 0xBA]) + bytes(20)) == "t26YoyZ1iPgiMEWL4zGUm74eVWfhyDMXzY2"
    assert check_decode("t1Hsc1LR8yKnbbe3twRp88p6vFfC5t7DLbs")[:2] == bytes([0x1C, 0xB8])
    try:
        check_decode("t1Hsc1LR8yKnbbe3twRp88p6vFfC5t7DLbt")
        raise AssertionError("bad checksum accepted")
    except Base58Error:
        pass
    return len(vec) + 4
