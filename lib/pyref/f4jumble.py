"""F4Jumble (ZIP 316, section "Jumbling"), written from the ZIP; python3 stdlib only.

  l_L = min(64, floor(l_M / 2)),  l_R = l_M - l_L,   48 <= l_M <= 4194368
  H_i(u) = BLAKE2b-(8 l_L)("UA_F4Jumble_H" || [i, 0, 0], u)
  G_i(u) = first l_R bytes of  ||_{j=0..ceil(l_R/64)-1} BLAKE2b-512("UA_F4Jumble_G" || [i] || I2LEOSP_16(j), u)
  F4Jumble(a||b):  x = b ^ G_0(a); y = a ^ H_0(x); d = x ^ G_1(y); c = y ^ H_1(d);  return c||d
  inverse(c||d):   y = c ^ H_1(d); x = d ^ G_1(y); a = y ^ H_0(x); b = x ^ G_0(a);  return a||b
"""
import hashlib
import re

MIN_LEN = 48
MAX_LEN = 4194368


class F4JumbleError(Exception):
    pass


def _xor(a, b):
    n = len(a)
    return (int.from_bytes(a, "little") ^ int.from_bytes(b[:n], "little")).to_bytes(n, "little")


def _H(i, u, l_l):
    return hashlib.blake2b(u, digest_size=l_l, person=b"UA_F4Jumble_H" + bytes([i, 0, 0])).digest()


def _G(i, u, l_r):
    blocks = (l_r + 63) // 64
    b2 = hashlib.blake2b
    return b"".join(
        b2(u, digest_size=64, person=b"UA_F4Jumble_G" + bytes([i, j & 0xFF, j >> 8])).digest() for j in range(blocks)
    )[:l_r]


def _split(m):
    n = len(m)
    if n < MIN_LEN or n > MAX_LEN:
        raise F4JumbleError("invalid length %d" % n)
    l_l = min(64, n // 2)
    return m[:l_l], m[l_l:], l_l, n - l_l


def f4jumble(m):
    a, b, l_l, l_r = _split(bytes(m))
    x = _xor(b, _G(0, a, l_r))
    y = _xor(a, _H(0, x, l_l))
    d = _xor(x, _G(1, y, l_r))
    c = _xor(y, _H(1, d, l_l))
    return c + d


def f4jumble_inv(m):
    c, d, l_l, l_r = _split(bytes(m))
    y = _xor(c, _H(1, d, l_l))
    x = _xor(d, _G(1, y, l_r))
    a = _xor(y, _H(0, x, l_l))
    b = _xor(x, _G(0, a, l_r))
    return a + b


def stream(seed, n):
    """Deterministic pseudo-random input shared with the Rust harness:
    block_k = SHA-256(LE64(seed) || LE64(k)), concatenated and truncated to n bytes."""
    out = bytearray()
    k = 0
    s = seed.to_bytes(8, "little")
    sha = hashlib.sha256
    while len(out) < n:
        out += sha(s + k.to_bytes(8, "little")).digest()
        k += 1
    return bytes(out[:n])


def _rust_byte_arrays(text, field):
    """All `field: &[ 0x.., ... ]` byte arrays of a Rust test-vector file, in order."""
    out = []
    for m in re.finditer(field + r":\s*&\[(.*?)\]", text, re.S):
        out.append(bytes(int(x, 16) for x in re.findall(r"0x([0-9a-fA-F]{2})", m.group(1))))
    return out


def selftest(repo="/repo", long_vectors=False):
    """Official vectors shipped in /repo/components/f4jumble/src/test_vectors*.rs + the doc examples."""
    text = open(repo + "/components/f4jumble/src/test_vectors.rs").read()
    normal = _rust_byte_arrays(text, "normal")
    jumbled = _rust_byte_arrays(text, "jumbled")
    assert len(normal) == len(jumbled) and len(normal) >= 5, (len(normal), len(jumbled))
    for n, j in zip(normal, jumbled):
        assert f4jumble(n) == j, len(n)
        assert f4jumble_inv(j) == n, len(n)
    a = b"The package from Alice arrives tomorrow morning."
    assert f4jumble(a).hex() == ("861c51ee746b0313476967a3483e7e1ff77a2952a17d3ed9e0ab0f502e117943"
                                 "0322da9967b613545b1c36353046ca27")
    count = len(normal) + 1
    if long_vectors:
        text = open(repo + "/components/f4jumble/src/test_vectors_long.rs").read()
        lens = [int(x) for x in re.findall(r"length:\s*(\d+)", text)]
        hashes = _rust_byte_arrays(text, "jumbled_hash")
        assert len(lens) == len(hashes) == 2
        for ln, h in zip(lens, hashes):
            m = bytes(i & 0xFF for i in range(ln))
            j = f4jumble(m)
            assert hashlib.blake2b(j).digest() == h, ln
            assert f4jumble_inv(j) == m
            count += 1
    for n in (47, 0, MAX_LEN + 1):
        try:
            f4jumble(bytes(n))
            raise AssertionError("accepted length %d" % n)
        except F4JumbleError:
            pass
    return count
