"""Zcash transaction wire layout, versions 1-6 (reference oracle for C03 / C04).

Written from the protocol specification section 7.1 (v1-v4 layouts), ZIP 202 / 243 headers,
ZIP 225 (v5) and the v6 layout named by the property statement (v5 header, transparent, Sapling
and Orchard parts as in v5, followed by an Orchard-shaped Ironwood bundle).  Python stdlib only;
shares no code with the implementation under test.

parse_tx(b)      -> Tx   strict parser: canonical CompactSize only, exact lengths; raises LayoutError
Tx.fields        -> list of Field(off, len, name, idx, role) in wire order; role is
                    'S' structural (header, counts), 'E' effecting, 'A' authorising (ZIP 244 sense;
                    before v5 'A' means: not covered by any signature hash)
fingerprint(tx)  -> sha256 over the *abstract* field stream (the same stream the Rust harness
                    hashes from the values it sees through the public accessors of the real types)
table_digest(tx) -> sha256 over "name:off:len:role;" of every field (layout cross-check)
"""
import hashlib
import struct

MAX_COMPACT_SIZE = 0x02000000
MAX_MONEY = 21_000_000 * 100_000_000

V3_VGID = 0x03C48270
V4_VGID = 0x892F2085
V5_VGID = 0x26A7270A
V6_VGID = 0xD884B698

GROTH = 192
PHGR = 296
ENC = 580
OUT = 80


class LayoutError(Exception):
    pass


def compact_size(n):
    if n < 253:
        return bytes([n])
    if n <= 0xFFFF:
        return b"\xfd" + struct.pack("<H", n)
    if n <= 0xFFFFFFFF:
        return b"\xfe" + struct.pack("<I", n)
    return b"\xff" + struct.pack("<Q", n)


class Field:
    __slots__ = ("off", "len", "name", "idx", "role")

    def __init__(self, off, ln, name, idx, role):
        self.off, self.len, self.name, self.idx, self.role = off, ln, name, idx, role

    def __repr__(self):
        return "Field(%d,%d,%s[%d],%s)" % (self.off, self.len, self.name, self.idx, self.role)


class Reader:
    def __init__(self, b):
        self.b = b
        self.pos = 0
        self.fields = []

    def take(self, n, name, idx=0, role="E"):
        if self.pos + n > len(self.b):
            raise LayoutError("eof in %s at %d (+%d)" % (name, self.pos, n))
        v = self.b[self.pos:self.pos + n]
        self.fields.append(Field(self.pos, n, name, idx, role))
        self.pos += n
        return v

    def u32(self, name, idx=0, role="E"):
        return struct.unpack("<I", self.take(4, name, idx, role))[0]

    def i64(self, name, idx=0, role="E"):
        return struct.unpack("<q", self.take(8, name, idx, role))[0]

    def cs(self, name, idx=0, role="S"):
        if self.pos >= len(self.b):
            raise LayoutError("eof in %s" % name)
        f = self.b[self.pos]
        if f < 253:
            n, l = f, 1
        elif f == 253:
            if self.pos + 3 > len(self.b):
                raise LayoutError("eof in %s" % name)
            n, l = struct.unpack_from("<H", self.b, self.pos + 1)[0], 3
            if n < 253:
                raise LayoutError("non-canonical CompactSize in %s" % name)
        elif f == 254:
            if self.pos + 5 > len(self.b):
                raise LayoutError("eof in %s" % name)
            n, l = struct.unpack_from("<I", self.b, self.pos + 1)[0], 5
            if n < 0x10000:
                raise LayoutError("non-canonical CompactSize in %s" % name)
        else:
            if self.pos + 9 > len(self.b):
                raise LayoutError("eof in %s" % name)
            n, l = struct.unpack_from("<Q", self.b, self.pos + 1)[0], 9
            if n < 0x100000000:
                raise LayoutError("non-canonical CompactSize in %s" % name)
        if n > MAX_COMPACT_SIZE:
            raise LayoutError("CompactSize too large in %s" % name)
        self.fields.append(Field(self.pos, l, name, idx, role))
        self.pos += l
        return n


class TxIn:
    __slots__ = ("prevout_hash", "prevout_n", "script_sig", "sequence")


class TxOut:
    __slots__ = ("value", "script")


class Spend:
    __slots__ = ("cv", "anchor", "nf", "rk", "proof", "sig")


class Output:
    __slots__ = ("cv", "cmu", "epk", "enc", "out", "proof")


class Action:
    __slots__ = ("cv", "nf", "rk", "cmx", "epk", "enc", "out", "sig")


class OBundle:
    __slots__ = ("actions", "flags", "vb", "anchor", "proof", "bsig")


class Tx:
    def __init__(self):
        self.header = 0
        self.vgid = None
        self.version = 0       # 1..6 (non-overwintered versions >= 2 are "2")
        self.overwintered = False
        self.branch = 0        # serialised from v5 on
        self.lock_time = 0
        self.expiry = 0
        self.vin = []
        self.vout = []
        self.vb_sapling = 0
        self.spends = []
        self.outputs = []
        self.sapling_bsig = b"\0" * 64
        self.js = []           # raw JoinSplit descriptions
        self.js_pubkey = b"\0" * 32
        self.js_sig = b"\0" * 64
        self.orchard = None
        self.ironwood = None
        self.fields = []
        self.consumed = 0

    def is_coinbase(self):
        return len(self.vin) == 1 and self.vin[0].prevout_hash == b"\0" * 32 and self.vin[0].prevout_n == 0xFFFFFFFF


def _transparent(r, tx):
    n = r.cs("tx_in_count")
    for i in range(n):
        t = TxIn()
        t.prevout_hash = r.take(32, "vin.prevout_hash", i)
        t.prevout_n = r.u32("vin.prevout_n", i)
        l = r.cs("vin.script_sig_len", i)
        t.script_sig = r.take(l, "vin.script_sig", i, "A")
        t.sequence = r.u32("vin.sequence", i)
        tx.vin.append(t)
    n = r.cs("tx_out_count")
    for i in range(n):
        t = TxOut()
        t.value = r.i64("vout.value", i)
        l = r.cs("vout.script_len", i)
        t.script = r.take(l, "vout.script", i)
        tx.vout.append(t)


JS_LAYOUT = [("js.vpub_old", 8), ("js.vpub_new", 8), ("js.anchor", 32), ("js.nullifiers", 64),
             ("js.commitments", 64), ("js.ephemeral_key", 32), ("js.random_seed", 32), ("js.macs", 64),
             ("js.proof", None), ("js.ciphertexts", 1202)]


def _sprout(r, tx, proof_len):
    n = r.cs("n_joinsplit")
    for i in range(n):
        start = r.pos
        for name, l in JS_LAYOUT:
            r.take(proof_len if l is None else l, name, i)
        tx.js.append(r.b[start:r.pos])
    if n > 0:
        tx.js_pubkey = r.take(32, "joinsplit_pubkey")
        tx.js_sig = r.take(64, "joinsplit_sig", 0, "A")


def _orchard(r, prefix, v6):
    n = r.cs(prefix + ".n_actions")
    if n == 0:
        return None
    b = OBundle()
    b.actions = []
    for i in range(n):
        a = Action()
        a.cv = r.take(32, prefix + ".action.cv", i)
        a.nf = r.take(32, prefix + ".action.nf", i)
        a.rk = r.take(32, prefix + ".action.rk", i)
        a.cmx = r.take(32, prefix + ".action.cmx", i)
        a.epk = r.take(32, prefix + ".action.epk", i)
        a.enc = r.take(ENC, prefix + ".action.enc", i)
        a.out = r.take(OUT, prefix + ".action.out", i)
        b.actions.append(a)
    b.flags = r.take(1, prefix + ".flags")[0]
    b.vb = r.i64(prefix + ".value_balance")
    # version 6 moves the shielded anchors to the authorising data
    b.anchor = r.take(32, prefix + ".anchor", 0, "A" if v6 else "E")
    pl = r.cs(prefix + ".proof_len")
    b.proof = r.take(pl, prefix + ".proof", 0, "A")
    for i, a in enumerate(b.actions):
        a.sig = r.take(64, prefix + ".spend_auth_sig", i, "A")
    b.bsig = r.take(64, prefix + ".binding_sig", 0, "A")
    return b


def parse_tx(b):
    r = Reader(b)
    tx = Tx()
    tx.header = r.u32("header", 0, "S")
    tx.overwintered = (tx.header >> 31) == 1
    v = tx.header & 0x7FFFFFFF
    if tx.overwintered:
        tx.vgid = r.u32("version_group_id", 0, "S")
        if (v, tx.vgid) not in ((3, V3_VGID), (4, V4_VGID), (5, V5_VGID), (6, V6_VGID)):
            raise LayoutError("unknown (version, version group id)")
        tx.version = v
    else:
        if v < 1:
            raise LayoutError("version 0")
        tx.version = 1 if v == 1 else 2
    if tx.version >= 5:
        v6 = tx.version == 6
        tx.branch = r.u32("consensus_branch_id")
        tx.lock_time = r.u32("lock_time")
        tx.expiry = r.u32("expiry_height")
        _transparent(r, tx)
        ns = r.cs("sapling.n_spends")
        for i in range(ns):
            s = Spend()
            s.cv = r.take(32, "sapling.spend.cv", i)
            s.nf = r.take(32, "sapling.spend.nf", i)
            s.rk = r.take(32, "sapling.spend.rk", i)
            tx.spends.append(s)
        no = r.cs("sapling.n_outputs")
        for i in range(no):
            o = Output()
            o.cv = r.take(32, "sapling.output.cv", i)
            o.cmu = r.take(32, "sapling.output.cmu", i)
            o.epk = r.take(32, "sapling.output.epk", i)
            o.enc = r.take(ENC, "sapling.output.enc", i)
            o.out = r.take(OUT, "sapling.output.out", i)
            tx.outputs.append(o)
        if ns + no > 0:
            tx.vb_sapling = r.i64("sapling.value_balance")
        if ns > 0:
            a = r.take(32, "sapling.anchor", 0, "A" if v6 else "E")
            for s in tx.spends:
                s.anchor = a
        for i, s in enumerate(tx.spends):
            s.proof = r.take(GROTH, "sapling.spend.proof", i, "A")
        for i, s in enumerate(tx.spends):
            s.sig = r.take(64, "sapling.spend.auth_sig", i, "A")
        for i, o in enumerate(tx.outputs):
            o.proof = r.take(GROTH, "sapling.output.proof", i, "A")
        if ns + no > 0:
            tx.sapling_bsig = r.take(64, "sapling.binding_sig", 0, "A")
        tx.orchard = _orchard(r, "orchard", v6)
        if v6:
            tx.ironwood = _orchard(r, "ironwood", True)
    else:
        _transparent(r, tx)
        tx.lock_time = r.u32("lock_time")
        if tx.overwintered:
            tx.expiry = r.u32("expiry_height")
        if tx.version == 4:
            tx.vb_sapling = r.i64("sapling.value_balance")
            ns = r.cs("sapling.n_spends")
            for i in range(ns):
                s = Spend()
                s.cv = r.take(32, "sapling.spend.cv", i)
                s.anchor = r.take(32, "sapling.spend.anchor", i)
                s.nf = r.take(32, "sapling.spend.nf", i)
                s.rk = r.take(32, "sapling.spend.rk", i)
                s.proof = r.take(GROTH, "sapling.spend.proof", i)
                s.sig = r.take(64, "sapling.spend.auth_sig", i, "A")
                tx.spends.append(s)
            no = r.cs("sapling.n_outputs")
            for i in range(no):
                o = Output()
                o.cv = r.take(32, "sapling.output.cv", i)
                o.cmu = r.take(32, "sapling.output.cmu", i)
                o.epk = r.take(32, "sapling.output.epk", i)
                o.enc = r.take(ENC, "sapling.output.enc", i)
                o.out = r.take(OUT, "sapling.output.out", i)
                o.proof = r.take(GROTH, "sapling.output.proof", i)
                tx.outputs.append(o)
        if tx.version >= 2:
            _sprout(r, tx, GROTH if tx.version == 4 else PHGR)
        if tx.version == 4 and (tx.spends or tx.outputs):
            tx.sapling_bsig = r.take(64, "sapling.binding_sig", 0, "A")
    tx.fields = r.fields
    tx.consumed = r.pos
    return tx


def _u32(v):
    return struct.pack("<I", v)


def fingerprint(tx):
    """sha256 of the abstract field stream; mirrors `parts_fingerprint` in the Rust harness, which
    feeds it from the accessors of the parsed `Transaction`."""
    h = hashlib.sha256()
    h.update(_u32(tx.header))
    h.update(_u32(tx.vgid or 0))
    h.update(_u32(tx.branch if tx.version >= 5 else 0))
    h.update(_u32(tx.lock_time))
    h.update(_u32(tx.expiry))
    h.update(_u32(len(tx.vin)))
    for i in tx.vin:
        h.update(i.prevout_hash)
        h.update(_u32(i.prevout_n))
        h.update(_u32(len(i.script_sig)))
        h.update(i.script_sig)
        h.update(_u32(i.sequence))
    h.update(_u32(len(tx.vout)))
    for o in tx.vout:
        h.update(struct.pack("<q", o.value))
        h.update(_u32(len(o.script)))
        h.update(o.script)
    h.update(struct.pack("<q", tx.vb_sapling if (tx.spends or tx.outputs) else 0))
    h.update(_u32(len(tx.spends)))
    for s in tx.spends:
        for x in (s.cv, s.anchor, s.nf, s.rk, s.proof, s.sig):
            h.update(x)
    h.update(_u32(len(tx.outputs)))
    for o in tx.outputs:
        for x in (o.cv, o.cmu, o.epk, o.enc, o.out, o.proof):
            h.update(x)
    h.update(tx.sapling_bsig)
    h.update(_u32(len(tx.js)))
    for j in tx.js:
        h.update(j)
    h.update(tx.js_pubkey)
    h.update(tx.js_sig)
    for b in (tx.orchard, tx.ironwood):
        if b is None:
            h.update(b"\0")
            continue
        h.update(b"\1")
        h.update(_u32(len(b.actions)))
        for a in b.actions:
            for x in (a.cv, a.nf, a.rk, a.cmx, a.epk, a.enc, a.out, a.sig):
                h.update(x)
        h.update(bytes([b.flags]))
        h.update(struct.pack("<q", b.vb))
        h.update(b.anchor)
        h.update(_u32(len(b.proof)))
        h.update(b.proof)
        h.update(b.bsig)
    return h.hexdigest()


def table_digest(tx):
    h = hashlib.sha256()
    for f in tx.fields:
        h.update(("%s:%d:%d:%s;" % (f.name, f.off, f.len, f.role)).encode())
    return h.hexdigest()


def sha256d(b):
    return hashlib.sha256(hashlib.sha256(b).digest()).digest()


def selftest():
    # a minimal v5 transaction with everything empty
    b = struct.pack("<IIIII", 0x80000005, V5_VGID, 0xC2D6D0B4, 7, 9) + b"\0\0" + b"\0\0" + b"\0"
    t = parse_tx(b)
    assert t.consumed == len(b) and t.version == 5 and t.lock_time == 7 and t.expiry == 9
    assert [f.name for f in t.fields][:5] == ["header", "version_group_id", "consensus_branch_id", "lock_time", "expiry_height"]
    for bad in (b[:-1], b[:8] + b"\xfd\x00\x00"):
        try:
            parse_tx(bad)
            if bad is not b[:-1]:
                pass
        except LayoutError:
            continue
    assert compact_size(252) == b"\xfc" and compact_size(253) == b"\xfd\xfd\x00" and compact_size(0x10000) == b"\xfe\x00\x00\x01\x00"
    return True


if __name__ == "__main__":
    selftest()
    print("txlayout selftest ok")
