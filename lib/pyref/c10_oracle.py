"""Python-side oracle of C10 (and of the UFVK/UIVK cross-check of C11): replays one shard's JSONL
event log against the reference implementations in this package.

Event kinds written by harness/vh-pure/src/bin/c10.rs (and c11.rs for "cont"):
  {"k":"enc",  "s", "want": {"kind","net","data"|"items"}}   string produced by the Rust encoder from a value
  {"k":"cont", "kind": "addr"|"ufvk"|"uivk", "s", "net", "items"}  container string produced by the Rust encoder
  {"k":"parse","api": "zaddr"|"ufvk"|"uivk", "s", "res": null | {...}}  what the Rust parser made of a string
  {"k":"f4",   "len", "seed", "out" | "out_b2b256"}           F4Jumble output for the shared input stream
  {"k":"b32",  "s", "hrp", "variant", "data"}                 Bech32 key string (C11: Sapling ExtSK / ExtFVK / address)
  {"k":"b58",  "s", "data"}                                   Base58Check key string (C11: transparent secret key)

Returns {"counters": {...}, "violations": [(signature, detail, replay), ...]} (picklable: it runs in
a worker process, one per shard log).
"""
import hashlib
import json
import re

from . import base58, bech32, f4jumble, zip316


def _norm_items(items):
    return [[int(t), d] for t, d in items]


def _ref_value(v):
    if v["kind"] == "unified":
        return {"kind": "unified", "net": v["net"], "items": [[t, d.hex()] for t, d in v["items"]]}
    return {"kind": v["kind"], "net": v["net"], "data": v["data"].hex()}


def _reason_class(msg):
    """Run-independent class of a reference rejection message."""
    m = re.sub(r"[0-9]+", "N", str(msg))
    return m.split(":")[0][:48].strip().replace(" ", "-")


def _len_class(n):
    for hi, name in ((127, "48..127"), (191, "128..191"), (4095, "192..4095"), (65535, "4K..64K"),
                     (1048575, "64K..1M"), (4194368, "1M..max")):
        if n <= hi:
            return name
    return "above-max"


def _clip(s):
    return s if len(s) <= 600 else s[:300] + "...<%d chars>" % len(s)


def check_events(path, prefix="C10"):
    counters = {}
    viol = []

    def count(k, n=1):
        counters[k] = counters.get(k, 0) + n

    def violation(sig, detail, replay):
        if len(viol) < 200:
            viol.append((prefix + ":py:" + sig, detail, replay))
        count("py_oracle_violations")

    with open(path) as f:
        for line in f:
            if not line.strip():
                continue
            ev = json.loads(line)
            k = ev["k"]
            if k == "enc":
                want = ev["want"]
                if "items" in want:
                    want = dict(want, items=_norm_items(want["items"]))
                try:
                    got = _ref_value(zip316.parse_zcash_address(ev["s"]))
                except zip316.Zip316Error as e:
                    violation("encoder-output-rejected-by-reference:%s:%s" % (want["kind"], _reason_class(e)),
                              "the encoder produced %r which the reference grammar rejects: %s" % (_clip(ev["s"]), e),
                              {"event": {"s": _clip(ev["s"]), "want": want}})
                    continue
                if got != want:
                    violation("encoder-output-decodes-differently:%s" % want["kind"],
                              "reference decodes %r to %r, the value encoded was %r" % (_clip(ev["s"]), got, want),
                              {"event": {"s": _clip(ev["s"]), "want": want}})
                count("py_checked_encoder_strings")
                count("py_checked_encoder_strings_" + want["kind"])
            elif k == "cont":
                want = (ev["net"], [(int(t), bytes.fromhex(d)) for t, d in ev["items"]])
                try:
                    got = zip316.parse(ev["kind"], ev["s"])
                except zip316.Zip316Error as e:
                    violation("container-rejected-by-reference:%s:%s" % (ev["kind"], _reason_class(e)),
                              "the encoder produced %s %r which the reference rejects: %s" % (ev["kind"], _clip(ev["s"]), e),
                              {"event": {"kind": ev["kind"], "s": _clip(ev["s"])}})
                    continue
                if got != want:
                    violation("container-decodes-differently:%s" % ev["kind"],
                              "reference decodes %r to %r, the harness encoded %r" % (_clip(ev["s"]), got, want),
                              {"event": {"kind": ev["kind"], "s": _clip(ev["s"])}})
                # the reference *encoder* must produce the very same string (canonical form is unique)
                if zip316.encode(ev["kind"], ev["net"], want[1]) != ev["s"]:
                    violation("container-encoding-differs-from-reference:%s" % ev["kind"],
                              "reference encodes the same items to a different string than %r" % _clip(ev["s"]),
                              {"event": {"kind": ev["kind"], "s": _clip(ev["s"])}})
                count("py_checked_container_strings")
                count("py_checked_container_strings_" + ev["kind"])
                if zip316.only_unknown_shielded(want[1]):
                    count("py_containers_whose_only_shielded_item_is_unknown")
            elif k == "parse":
                api = ev["api"]
                res = ev["res"]
                try:
                    if api == "zaddr":
                        ref = _ref_value(zip316.parse_zcash_address(ev["s"]))
                    else:
                        net, items = zip316.parse(api, ev["s"])
                        ref = {"kind": "unified", "net": net, "items": [[t, d.hex()] for t, d in items]}
                    why = None
                except zip316.Zip316Error as e:
                    ref, why = None, e
                if res is not None and "items" in res:
                    res = dict(res, items=_norm_items(res["items"]))
                    res.setdefault("kind", "unified")
                if ref is None and res is not None:
                    violation("malformed-accepted:%s:%s" % (api, _reason_class(why)),
                              "reference rejects %r (%s) but the parser accepted it as %r" % (_clip(ev["s"]), why, res),
                              {"event": {"api": api, "s": _clip(ev["s"])}})
                elif ref is not None and res is None:
                    violation("wellformed-rejected:%s:%s" % (api, ref["kind"]),
                              "reference accepts %r as %r but the parser rejected it" % (_clip(ev["s"]), ref),
                              {"event": {"api": api, "s": _clip(ev["s"])}})
                elif ref != res:
                    violation("parsed-value-differs:%s" % api,
                              "parser: %r, reference: %r for %r" % (res, ref, _clip(ev["s"])),
                              {"event": {"api": api, "s": _clip(ev["s"])}})
                count("py_checked_parser_verdicts")
                count("py_checked_parser_verdicts_accept" if ref is not None else "py_checked_parser_verdicts_reject")
            elif k == "f4":
                n = ev["len"]
                out = f4jumble.f4jumble(f4jumble.stream(ev["seed"], n))
                if "out" in ev:
                    same = out.hex() == ev["out"]
                else:
                    same = hashlib.blake2b(out, digest_size=32).hexdigest() == ev["out_b2b256"]
                if not same:
                    violation("f4jumble-differs-from-reference:" + _len_class(n),
                              "F4Jumble of the %d-byte stream with seed %d differs from the reference" % (n, ev["seed"]),
                              {"event": {"len": n, "stream_seed": ev["seed"]}})
                count("py_checked_f4jumble_outputs")
                count("py_checked_f4jumble_bytes", n)
                if n >= 1 << 20:
                    count("py_checked_f4jumble_outputs_1M_or_longer")
            elif k == "b32":
                try:
                    hrp, payload, variant, canon = bech32.decode_bytes(ev["s"])
                    got = (hrp, payload.hex(), variant, canon)
                except bech32.Bech32Error as e:
                    got = ("error", str(e))
                if got != (ev["hrp"], ev["data"], ev["variant"], True):
                    violation("bech32-string-differs-from-reference:" + ev["hrp"],
                              "reference decodes %r to %r, expected hrp %s, %s, data %s" % (
                                  _clip(ev["s"]), got, ev["hrp"], ev["variant"], ev["data"][:80]),
                              {"event": {"s": _clip(ev["s"]), "hrp": ev["hrp"]}})
                count("py_checked_bech32_key_strings")
            elif k == "b58":
                try:
                    got = base58.check_decode(ev["s"]).hex()
                except base58.Base58Error as e:
                    got = "error: %s" % e
                if got != ev["data"]:
                    violation("base58check-string-differs-from-reference",
                              "reference decodes the string to %s..., expected %s..." % (got[:12], ev["data"][:4]),
                              {"event": {"len": len(ev["s"])}})
                count("py_checked_base58_key_strings")
            else:
                count("py_unknown_event_kind")
    return {"counters": counters, "violations": viol}


def run_pool(paths, prefix="C10", workers=8):
    """check_events over several logs in parallel; returns the merged result."""
    import concurrent.futures as cf
    counters = {}
    viol = []
    paths = [p for p in paths if p]
    if not paths:
        return {"counters": counters, "violations": viol}
    with cf.ProcessPoolExecutor(max_workers=min(workers, len(paths))) as ex:
        for res in ex.map(check_events, paths, [prefix] * len(paths)):
            for k, v in res["counters"].items():
                counters[k] = counters.get(k, 0) + v
            viol.extend(res["violations"])
    return {"counters": counters, "violations": viol}
