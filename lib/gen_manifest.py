"""Regenerates MANIFEST.json from lib/props/*.py (SPEC['manifest'] blocks) so that the manifest
never drifts from what ./check actually runs. Usage: python3 lib/gen_manifest.py"""
import json, os, sys, subprocess
sys.path.insert(0, os.path.dirname(os.path.abspath(__file__)))
import driver

NOT_BUILT = "check not built yet (planned, see DESIGN.md section 5)"


def main():
    props = [json.loads(l) for l in open(os.path.join(driver.VERIF, "properties.jsonl"))]
    checks, na = [], []
    for p in props:
        pid = p["id"]
        path = os.path.join(driver.VERIF, "lib", "props", pid.lower() + ".py")
        ready = set(open(os.path.join(driver.VERIF, "lib", "ready.txt")).read().split())
        if not os.path.exists(path) or pid not in ready:
            na.append({"property_id": pid, "reason": NOT_BUILT})
            continue
        spec = driver.load_spec(pid).SPEC
        m = spec["manifest"]
        c = {
            "property_id": pid,
            "quick_cmd": "./check %s --tier quick" % pid,
            "thorough_cmd": "./check %s --tier thorough" % pid,
            "evidence_file": "/verif/evidence/%s.json" % pid,
            "replay_cmd_template": "./check %s --replay {path}" % pid,
            "engine": m.get("engine", spec.get("package", "harness")),
            "level_claimed": {"category": spec["level"], "text": m["text"], "design_ref": m.get("design_ref", "DESIGN.md section 5, " + pid)},
            "level_note": m["note"],
            "technique": m["technique"],
        }
        checks.append(c)
    hooks_commits = []
    try:
        out = subprocess.run(["git", "-C", "/repo", "log", "--format=%h %s"], capture_output=True, text=True).stdout
        hooks_commits = [l.split()[0] for l in out.splitlines() if l.split(" ", 1)[1].startswith("verif-hook:")]
    except Exception:
        pass
    man = {
        "version": 1,
        "setup_cmd": "./setup.sh",
        "hooks": {
            "guard": "--cfg zcash_librustzcash_verif",
            "enable": "harness/.cargo/config.toml sets rustflags = [--cfg zcash_librustzcash_verif]; ./check builds the harness crates (path dependencies on /repo) with it",
            "baseline_off_cmd": "cd /repo && cargo nextest run --workspace --no-fail-fast --test-threads 8 --offline",
            "source_commits": hooks_commits,
            "add_only": True,
        },
        "engines": [
            {"name": "vh-pure", "path": "harness/vh-pure", "serves_properties": ["C03", "C04", "C09", "C10", "C11", "C12", "C15", "C16", "C17", "C19", "C20"], "kind_free_text": "Rust harness binaries calling the public API of the pure crates under generated/hostile inputs with reference oracles (i128 models, independent re-implementations, brute force); Python reference oracles over recorded event logs"},
            {"name": "vh-tx", "path": "harness/vh-tx", "serves_properties": ["C07", "C13", "C14"], "kind_free_text": "Rust harness for fee/change computation, builder and PCZT roles with conservation / effect-invariance monitors"},
            {"name": "vh-wallet", "path": "harness/vh-wallet", "serves_properties": ["C01", "C02", "C05", "C06", "C08", "C15", "C18"], "kind_free_text": "ChainSim ground-truth world + SQLite wallet; ledger/frontier/queue reference models compared after every operation; SQLite fault/crash/snapshot injection"},
        ],
        "checks": checks,
        "notes": "See DESIGN.md. Exit 0 = held on everything explored, 1 = VIOLATION not listed in known_findings.json, 2 = check broken/inconclusive (build failure, watchdog, coverage floor).",
        "not_applicable": na,
    }
    json.dump(man, open(os.path.join(driver.VERIF, "MANIFEST.json"), "w"), indent=1)
    print("checks:", [c["property_id"] for c in checks], "not yet:", [n["property_id"] for n in na])


if __name__ == "__main__":
    main()
