"""Driver library for /verif/check.

A *check* of one property =
  build the harness package from /repo's working tree (hooks on)  ->
  run N shards of a harness binary in parallel (each writes a JSON result and
  optionally a JSONL event log)  ->
  run the property's Python reference oracle over the event logs (if any)  ->
  fold: violations / known findings / coverage floors  ->
  write evidence/<id>.json, print VIOLATION / KNOWN-FINDING lines, exit 0/1/2.

Exit codes: 0 held on everything explored; 1 at least one violation that
known_findings.json does not list; 2 the check itself is broken or
inconclusive (build failure, harness crash, watchdog, coverage floor not met).
"""
import concurrent.futures as cf
import hashlib
import importlib
import json
import os
import shutil
import subprocess
import sys
import time

VERIF = os.path.dirname(os.path.dirname(os.path.abspath(__file__)))
HARNESS_SRC = os.path.join(VERIF, "harness")
WORK = os.path.join(VERIF, ".work")
# Normal operation: everything is built from /repo's working tree and evidence lands in
# /verif/evidence. For sensitivity experiments (mutants living in a scratch worktree, so that
# /repo stays untouched while other work goes on) VERIF_REPO=<worktree> redirects the path
# dependencies to that tree and moves *all* outputs under .work/alt-<hash>/.
REPO = os.path.realpath(os.environ.get("VERIF_REPO", "/repo"))
ALT = REPO != "/repo"
if ALT:
    OUT = os.path.join(WORK, "alt-" + hashlib.sha1(REPO.encode()).hexdigest()[:8])
    HARNESS = os.path.join(OUT, "harness")
else:
    OUT = VERIF
    HARNESS = HARNESS_SRC
RUNS = os.path.join(WORK, "runs") if not ALT else os.path.join(OUT, "runs")
TARGET_BASE = WORK if not ALT else OUT
EVIDENCE_DIR = os.path.join(OUT, "evidence")
REPLAY_DIR = os.path.join(OUT, "replays")
NCPU = os.cpu_count() or 8

GUARD_FLAGS = "--cfg zcash_librustzcash_verif --check-cfg cfg(zcash_librustzcash_verif)"


def log(*a):
    print(*a, file=sys.stderr, flush=True)


def path_farm():
    """A PATH in which `protoc` cannot be found. zcash_client_backend's build script, when it finds
    protoc, regenerates src/proto/*.rs inside /repo on every build: that makes the crate permanently
    dirty (+10..25 s per check) and lets two concurrent builds race on files in /repo. The generated
    files are committed in /repo, so nothing is lost by hiding protoc."""
    farm = os.path.join(WORK, "pathfarm")
    marker = os.path.join(farm, ".complete")
    if not os.path.exists(marker):
        os.makedirs(farm, exist_ok=True)
        for d in ("/usr/bin", "/usr/sbin"):
            for f in os.listdir(d):
                if f == "protoc" or f.startswith("protoc-"):
                    continue
                dst = os.path.join(farm, f)
                if not os.path.lexists(dst):
                    try:
                        os.symlink(os.path.join(d, f), dst)
                    except FileExistsError:
                        pass
        open(marker, "w").write("ok")
    home = os.path.expanduser("~")
    return os.pathsep.join([os.path.join(home, ".cargo", "bin"), farm])


def base_env():
    e = dict(os.environ)
    e["PATH"] = path_farm()
    e.pop("PROTOC", None)
    e["CARGO_NET_OFFLINE"] = "true"
    e.setdefault("CARGO_TERM_COLOR", "never")
    e.pop("RUSTFLAGS", None)  # harness/.cargo/config.toml carries the guard cfg
    e.pop("CARGO_TARGET_DIR", None)
    return e


def ensure_lockfile():
    """harness/Cargo.lock is committed (derived from /repo/Cargo.lock so that
    every shared dependency resolves to the version the repository pins)."""
    if ALT:
        sync_alt_harness()
    lock = os.path.join(HARNESS, "Cargo.lock")
    if not os.path.exists(lock):
        shutil.copy(os.path.join(REPO, "Cargo.lock"), lock)


def sync_alt_harness():
    """Mirror harness/ into the alt directory with /repo path dependencies rewritten."""
    # drop files that no longer exist in the source tree (a stale bin would break the build)
    for root, dirs, files in os.walk(HARNESS):
        dirs[:] = [d for d in dirs if d != "target"]
        rel = os.path.relpath(root, HARNESS)
        for f in files:
            if f == "Cargo.lock":
                continue
            if not os.path.exists(os.path.join(HARNESS_SRC, rel, f)):
                os.remove(os.path.join(root, f))
    for root, dirs, files in os.walk(HARNESS_SRC):
        dirs[:] = [d for d in dirs if d != "target"]
        rel = os.path.relpath(root, HARNESS_SRC)
        dst_dir = os.path.join(HARNESS, rel) if rel != "." else HARNESS
        os.makedirs(dst_dir, exist_ok=True)
        for f in files:
            src = os.path.join(root, f)
            dst = os.path.join(dst_dir, f)
            data = open(src, "rb").read()
            if f == "Cargo.toml":
                data = data.replace(b'"/repo/', ('"' + REPO + '/').encode())
            if not os.path.exists(dst) or open(dst, "rb").read() != data:
                open(dst, "wb").write(data)


class BuildError(Exception):
    pass


def cargo_build(package, bins=None, profile="release", variant="main", extra_env=None,
                toolchain=None, extra_args=None, features=None):
    """Builds harness binaries; returns the directory holding them."""
    ensure_lockfile()
    target_dir = os.path.join(TARGET_BASE, "target" if variant == "main" else "target-" + variant)
    env = base_env()
    env["CARGO_TARGET_DIR"] = target_dir
    if extra_env:
        env.update(extra_env)
    cmd = ["cargo"]
    if toolchain:
        cmd.append("+" + toolchain)
    cmd += ["build", "--offline", "-p", package]
    if profile == "release":
        cmd.append("--release")
    else:
        cmd += ["--profile", profile]
    for b in bins or []:
        cmd += ["--bin", b]
    if features:
        cmd += ["--features", ",".join(features)]
    if extra_args:
        cmd += extra_args
    t0 = time.time()
    p = subprocess.run(cmd, cwd=HARNESS, env=env, stdout=subprocess.PIPE, stderr=subprocess.STDOUT, text=True)
    if p.returncode != 0:
        tail = "\n".join(p.stdout.splitlines()[-150:])
        raise BuildError("cargo build failed (%s):\n%s" % (" ".join(cmd), tail))
    log("[build] %s %s/%s ok in %.1fs" % (package, variant, profile, time.time() - t0))
    sub = profile
    triple = None
    if extra_args and "--target" in extra_args:
        triple = extra_args[extra_args.index("--target") + 1]
    return os.path.join(target_dir, triple, sub) if triple else os.path.join(target_dir, sub)


class ShardResult:
    def __init__(self, idx, rc, result, events_path, log_path, timed_out, wall):
        self.idx = idx
        self.rc = rc
        self.result = result
        self.events_path = events_path
        self.log_path = log_path
        self.timed_out = timed_out
        self.wall = wall


def run_shards(prop_id, exe, nshards, seed, tier, budget_s, extra=None, events=False,
               env=None, tag="main", per_shard_extra=None, per_shard_env=None, max_parallel=None,
               wrapper=None):
    """Runs `nshards` processes of `exe`. The watchdog (3x budget + 120 s) firing is
    recorded as timed_out -> inconclusive, never a violation."""
    outdir = os.path.join(RUNS, prop_id, tag)
    shutil.rmtree(outdir, ignore_errors=True)
    os.makedirs(outdir, exist_ok=True)
    watchdog = budget_s * 3 + 120

    def one(i):
        out = os.path.join(outdir, "shard%d.json" % i)
        ev = os.path.join(outdir, "shard%d.events.jsonl" % i) if events else None
        lg = os.path.join(outdir, "shard%d.log" % i)
        cmd = list(wrapper or []) + [exe, "--seed", str(seed), "--shard", str(i), "--nshards", str(nshards),
               "--tier", tier, "--out", out, "--budget-s", str(budget_s)]
        if ev:
            cmd += ["--events", ev]
        for k, v in (extra or {}).items():
            cmd += ["--" + k, str(v)]
        if per_shard_extra:
            for k, v in per_shard_extra(i).items():
                cmd += ["--" + k, str(v)]
        e = base_env()
        e["RUST_BACKTRACE"] = "0"
        e["VERIF_REPO"] = REPO
        tmpd = os.path.join(WORK, "tmp")
        os.makedirs(tmpd, exist_ok=True)
        e["TMPDIR"] = tmpd
        if env:
            e.update(env)
        if per_shard_env:
            e.update(per_shard_env(i))
        t0 = time.time()
        timed_out = False
        with open(lg, "w") as lf:
            try:
                p = subprocess.run(cmd, env=e, stdout=lf, stderr=subprocess.STDOUT, timeout=watchdog,
                                   cwd=outdir)
                rc = p.returncode
            except subprocess.TimeoutExpired:
                rc = -999
                timed_out = True
        res = None
        if os.path.exists(out):
            try:
                res = json.load(open(out))
            except Exception:
                res = None
        return ShardResult(i, rc, res, ev, lg, timed_out, time.time() - t0)

    with cf.ThreadPoolExecutor(max_workers=max_parallel or min(nshards, NCPU)) as ex:
        return list(ex.map(one, range(nshards)))


class Fold:
    """Accumulates shard results and extra (python-side) observations."""

    def __init__(self, prop_id):
        self.prop_id = prop_id
        self.evaluations = 0
        self.sigs = set()
        self.sigs_overflow = 0
        self.counters = {}
        self.samples = []
        self.violations = {}  # sig -> {"count": n, "examples": [...]}
        self.inconclusive = {}
        self.broken = []  # reasons the run cannot be trusted
        self.exhaustive = None
        self.notes = []
        self.wall = 0.0

    def add_shards(self, shards, tag=""):
        for s in shards:
            if s.timed_out:
                self.inconc("watchdog%s" % (":" + tag if tag else ""))
                self.broken.append("shard %d%s hit the wall-clock watchdog (inconclusive)" % (s.idx, " " + tag if tag else ""))
                continue
            if s.rc != 0 or s.result is None:
                tail = ""
                try:
                    tail = "".join(open(s.log_path).readlines()[-15:])
                except Exception:
                    pass
                self.broken.append("shard %d%s exited rc=%s without a usable result; log tail:\n%s" % (s.idx, " " + tag if tag else "", s.rc, tail))
                continue
            self.add_result(s.result)

    def add_result(self, r):
        self.evaluations += r.get("evaluations", 0)
        self.sigs.update(r.get("sigs", []))
        self.sigs_overflow += r.get("sigs_overflow", 0)
        for k, v in r.get("counters", {}).items():
            if k.startswith("max_"):
                self.counters[k] = max(self.counters.get(k, 0), v)
            else:
                self.counters[k] = self.counters.get(k, 0) + v
        for smp in r.get("samples", []):
            if len(self.samples) < 16 and not any(x.get("class") == smp.get("class") for x in self.samples):
                self.samples.append(smp)
        for v in r.get("violations", []):
            self.violation(v["sig"], v.get("examples", []), v.get("count", 1))
        for k, v in r.get("inconclusive", {}).items():
            self.inconclusive[k] = self.inconclusive.get(k, 0) + v
        if r.get("exhaustive") is not None:
            self.exhaustive = r["exhaustive"] if self.exhaustive is None else (self.exhaustive and r["exhaustive"])
        for n in r.get("notes", []):
            if n not in self.notes and len(self.notes) < 50:
                self.notes.append(n)
        self.wall = max(self.wall, r.get("wall_s", 0.0))

    def violation(self, sig, examples, count=1):
        e = self.violations.setdefault(sig, {"count": 0, "examples": []})
        e["count"] += count
        for x in examples:
            if len(e["examples"]) < 3:
                e["examples"].append(x)

    def inconc(self, why, n=1):
        self.inconclusive[why] = self.inconclusive.get(why, 0) + n

    def count(self, k, n=1):
        self.counters[k] = self.counters.get(k, 0) + n

    def sig(self, s):
        self.sigs.add(hashlib.sha1(repr(s).encode()).hexdigest()[:16])


def load_known():
    p = os.path.join(VERIF, "known_findings.json")
    if not os.path.exists(p):
        return []
    return json.load(open(p)).get("findings", [])


def unmet_floors(spec, fold, tier):
    out = []
    for k, minimum in spec.get("floors", {}).get(tier, {}).items():
        have = fold.evaluations if k == "evaluations" else (len(fold.sigs) if k == "distinct_nontrivial" else fold.counters.get(k, 0))
        if have < minimum:
            out.append((k, have, minimum))
    return out


def finish(spec, fold, tier, seed, t0, replay_mode=False):
    """Applies floors + known findings, writes evidence, prints verdict lines, returns exit code."""
    pid = spec["id"]
    known = [k for k in load_known() if k.get("property") == pid and k.get("status") == "open"]
    known_sigs = {k["signature"]: k for k in known}
    new_viol = {s: v for s, v in fold.violations.items() if s not in known_sigs}
    seen_known = {s: v for s, v in fold.violations.items() if s in known_sigs}

    floors = spec.get("floors", {}).get(tier, {})
    for k, minimum in floors.items():
        have = fold.evaluations if k == "evaluations" else (len(fold.sigs) if k == "distinct_nontrivial" else fold.counters.get(k, 0))
        if have < minimum:
            fold.broken.append("coverage floor not met: %s=%d < %d" % (k, have, minimum))

    os.makedirs(EVIDENCE_DIR, exist_ok=True)
    os.makedirs(REPLAY_DIR, exist_ok=True)
    replay_paths = {}
    for i, (s, v) in enumerate(sorted(new_viol.items())):
        path = os.path.join(REPLAY_DIR, "%s-seed%d-%s-%d.json" % (pid, seed, tier, i))
        json.dump({"property": pid, "tier": tier, "seed": seed, "signature": s, "count": v["count"],
                   "examples": v["examples"]}, open(path, "w"), indent=1)
        replay_paths[s] = path

    distinct = len(fold.sigs)
    coverage = {
        "evaluations": int(fold.evaluations),
        "distinct_nontrivial": int(distinct),
        "rule": spec["rule"],
        "samples": fold.samples if fold.samples else [{"note": "no sample recorded"}],
        "counters": fold.counters,
        "inconclusive": fold.inconclusive,
        "distinct_signatures_capped": fold.sigs_overflow > 0,
        "known_findings_observed": {s: v["count"] for s, v in seen_known.items()},
        "violation_classes": {s: v["count"] for s, v in new_viol.items()},
        "harness_problems": fold.broken,
        "notes": fold.notes,
    }
    if fold.exhaustive is not None:
        coverage["exhaustive"] = bool(fold.exhaustive)
        coverage["exhaustive_scope"] = spec.get("exhaustive_scope", "")
    ev = {
        "property_id": pid,
        "tier": tier,
        "seed": int(seed),
        "level": spec["level"],
        "coverage": coverage,
        "assumptions": spec.get("assumptions", []),
        "wall_s": round(time.time() - t0, 2),
        "violations": int(sum(v["count"] for v in new_viol.values())),
    }
    if not replay_mode:
        json.dump(ev, open(os.path.join(EVIDENCE_DIR, pid + ".json"), "w"), indent=1, sort_keys=True)

    for s, v in sorted(seen_known.items()):
        print("KNOWN-FINDING: property=%s %s (%s; observed %d times in this run)" % (pid, s, known_sigs[s].get("description", "")[:160], v["count"]))
    for s, v in sorted(new_viol.items()):
        ex = v["examples"][0]["detail"] if v["examples"] else ""
        print("VIOLATION property=%s replay=%s" % (pid, replay_paths[s]))
        print("  class=%s count=%d e.g. %s" % (s, v["count"], str(ex)[:400]))
    print("[%s %s seed=%d] evaluations=%d distinct_nontrivial=%d violations=%d known=%d inconclusive=%s wall=%.1fs" % (
        pid, tier, seed, fold.evaluations, distinct, len(new_viol), len(seen_known), fold.inconclusive, time.time() - t0))
    for k in sorted(fold.counters):
        print("    %s=%d" % (k, fold.counters[k]))
    if new_viol:
        return 1
    if fold.broken:
        for b in fold.broken:
            print("CHECK-BROKEN property=%s %s" % (pid, b))
        return 2
    return 0


def load_spec(pid):
    sys.path.insert(0, os.path.join(VERIF, "lib"))
    mod = importlib.import_module("props." + pid.lower())
    return mod


def standard_run(spec, tier, seed, fold, tag="main", profile="release", variant="main", build_kw=None, run_kw=None):
    """The common shape: build one bin, run shards, fold. Returns shard list."""
    bindir = cargo_build(spec["package"], [spec["bin"]], profile=profile, variant=variant, **(build_kw or {}))
    exe = os.path.join(bindir, spec["bin"])
    t = spec["tiers"][tier]
    shards = run_shards(spec["id"], exe, t["shards"], seed, tier, t["budget_s"], extra=t.get("extra"),
                        events=spec.get("events", False), tag=tag, **(run_kw or {}))
    fold.add_shards(shards, tag if tag != "main" else "")
    return shards


# ---------------------------------------------------------------------------------------------
# Miri tier: the same harness crate family, interpreted. Each process is single-threaded, so the
# work is sharded over processes. A Miri diagnostic ("Undefined Behavior") is a violation of the
# property the section belongs to; "unsupported operation" (FFI etc.) is inconclusive.

def miri_run(prop_id, section, seed, fold, procs=12, ops=100, timeout_s=1500):
    import re
    ensure_lockfile()
    env = base_env()
    env["CARGO_TARGET_DIR"] = os.path.join(TARGET_BASE, "target-miri")
    env["MIRIFLAGS"] = "-Zmiri-disable-isolation"
    env["RUST_BACKTRACE"] = "0"
    base = ["cargo", "+nightly", "miri", "run", "--offline", "-q", "-p", "vh-miri", "--bin", "miri_all", "--"]
    outdir = os.path.join(RUNS, prop_id, "miri-" + section)
    shutil.rmtree(outdir, ignore_errors=True)
    os.makedirs(outdir, exist_ok=True)
    t0 = time.time()
    b = subprocess.run(base + ["--section", "none", "--out", os.path.join(outdir, "build.json")], cwd=HARNESS, env=env,
                       stdout=subprocess.PIPE, stderr=subprocess.STDOUT, text=True)
    if b.returncode != 0:
        raise BuildError("miri build failed:\n" + "\n".join(b.stdout.splitlines()[-40:]))
    log("[miri] build ok in %.1fs" % (time.time() - t0))

    def one(i):
        out = os.path.join(outdir, "p%d.json" % i)
        lg = os.path.join(outdir, "p%d.log" % i)
        cmd = base + ["--section", section, "--ops", str(ops), "--seed", str(seed), "--shard", str(i), "--nshards", str(procs),
                      "--tier", "thorough", "--out", out]
        with open(lg, "w") as lf:
            try:
                p = subprocess.run(cmd, cwd=HARNESS, env=env, stdout=lf, stderr=subprocess.STDOUT, timeout=timeout_s)
                rc = p.returncode
            except subprocess.TimeoutExpired:
                rc = -999
        return i, rc, out, lg

    with cf.ThreadPoolExecutor(max_workers=min(procs, NCPU)) as ex:
        results = list(ex.map(one, range(procs)))
    for i, rc, out, lg in results:
        text = open(lg, errors="replace").read()
        if rc == -999:
            fold.inconc("miri-watchdog:" + section)
            continue
        if "Undefined Behavior" in text or "error: memory leaked" in text or "data race" in text.lower():
            m = re.search(r"error: (Undefined Behavior|memory leaked|Data race)[^\n]*", text)
            loc = re.search(r"--> ([^\n:]+):\d+", text)
            where = loc.group(1) if loc else "?"
            where = where.split("/src/")[-1] if "/src/" in where else where
            kind = m.group(1) if m else "diagnostic"
            fold.violation("%s:miri:%s:%s:%s" % (prop_id, section, kind.lower().replace(" ", "-"), where),
                           [{"detail": "\n".join(text.splitlines()[-40:])[:3000], "replay": {"section": section, "seed": seed, "shard": i, "ops": ops}}])
            continue
        if "unsupported operation" in text:
            fold.inconc("miri-unsupported-operation:" + section)
            continue
        if rc != 0 or not os.path.exists(out):
            fold.broken.append("miri process %d (%s) exited rc=%s: %s" % (i, section, rc, text[-600:]))
            continue
        fold.add_result(json.load(open(out)))
        fold.count("miri_processes_clean_%s" % section, 1)
    fold.count("miri_sections_run", 1)


# ---------------------------------------------------------------------------------------------
# Compiler sanitizers (nightly): one sanitizer family per build, the workload repeated per build.

SAN = {
    "tsan": {"rustflags": "-Zsanitizer=thread", "cflags": "-fsanitize=thread", "build_std": True,
             "opt_env": "TSAN_OPTIONS", "opts": "halt_on_error=0 exitcode=0 report_signal_unsafe=0 history_size=4",
             "markers": ["WARNING: ThreadSanitizer"]},
    "asan": {"rustflags": "-Zsanitizer=address -Cforce-frame-pointers=yes", "cflags": "-fsanitize=address -fno-omit-frame-pointer", "build_std": False,
             "opt_env": "ASAN_OPTIONS", "opts": "halt_on_error=0 exitcode=0 detect_leaks=1 detect_stack_use_after_return=0",
             "markers": ["ERROR: AddressSanitizer", "ERROR: LeakSanitizer"]},
}
TRIPLE = "x86_64-unknown-linux-gnu"


def sanitizer_build(kind, package, bins):
    ensure_lockfile()
    cfg = SAN[kind]
    env = base_env()
    env["CARGO_TARGET_DIR"] = os.path.join(TARGET_BASE, "target-" + kind)
    env["CC"] = "clang-14"
    env["CFLAGS"] = cfg["cflags"]
    env["RUSTFLAGS"] = cfg["rustflags"] + " " + GUARD_FLAGS
    cmd = ["cargo", "+nightly", "build", "--offline", "--release", "--target", TRIPLE, "-p", package]
    if cfg["build_std"]:
        cmd.insert(3, "-Zbuild-std")
    for b in bins:
        cmd += ["--bin", b]
    t0 = time.time()
    p = subprocess.run(cmd, cwd=HARNESS, env=env, stdout=subprocess.PIPE, stderr=subprocess.STDOUT, text=True)
    if p.returncode != 0:
        raise BuildError("%s build failed:\n%s" % (kind, "\n".join(p.stdout.splitlines()[-60:])))
    log("[build] %s %s ok in %.1fs" % (package, kind, time.time() - t0))
    return os.path.join(TARGET_BASE, "target-" + kind, TRIPLE, "release")


def sanitizer_run(spec, kind, tier, seed, fold, shards=8, budget_s=120, extra=None, per_shard_env=None, frame_filter=None):
    """Runs the spec's binary under a sanitizer build; every report whose stack has a frame in
    /repo (or matching frame_filter) is a violation, deduplicated by that frame."""
    import re
    cfg = SAN[kind]
    bindir = sanitizer_build(kind, spec["package"], [spec["bin"]])
    exe = os.path.join(bindir, spec["bin"])
    outdir = os.path.join(RUNS, spec["id"], kind)
    logbase = os.path.join(outdir, "sanlog")

    def pse(i):
        e = {cfg["opt_env"]: cfg["opts"] + " log_path=%s.%d" % (logbase, i)}
        if per_shard_env:
            e.update(per_shard_env(i))
        return e

    res = run_shards(spec["id"], exe, shards, seed, tier, budget_s, extra=extra, events=False, tag=kind, per_shard_env=pse)
    fold.add_shards(res, kind)
    reports = 0
    seen = {}
    for f in sorted(os.listdir(outdir)):
        if not f.startswith("sanlog."):
            continue
        text = open(os.path.join(outdir, f), errors="replace").read()
        blocks = re.split(r"(?m)^(?==+\n?(?:WARNING|ERROR): )|(?m)^(?=(?:WARNING|ERROR): (?:Thread|Address|Leak)Sanitizer)", text)
        for b in blocks:
            if not any(m in b for m in cfg["markers"]):
                continue
            reports += 1
            frames = re.findall(r"#\d+ (?:0x[0-9a-f]+ in )?(\S+) (/\S+?):(\d+)", b)
            inrepo = [fr for fr in frames if "/repo/" in fr[1] or (frame_filter and re.search(frame_filter, fr[0]))]
            head = b.strip().splitlines()[0][:120] if b.strip() else kind
            if not inrepo:
                fold.count("%s_reports_without_repo_frame" % kind, 1)
                key = "no-repo-frame:" + re.sub(r"0x[0-9a-f]+|\d+", "N", head)
                seen.setdefault(key, b)
                continue
            top = inrepo[0]
            where = top[1].split("/repo/")[-1]
            sig = "%s:%s:%s:%s" % (spec["id"], kind, re.sub(r"[^A-Za-z]+", "-", head.split(":")[1] if ":" in head else head).strip("-").lower()[:40], where)
            fold.violation(sig, [{"detail": b[:3000], "replay": {"sanitizer": kind, "seed": seed}}])
    fold.count("%s_reports" % kind, reports)
    fold.count("%s_shards_run" % kind, len(res))
    if seen:
        fold.notes.append("%s reports without a frame in /repo (not judged): %s" % (kind, "; ".join(list(seen)[:4])))
    return res
