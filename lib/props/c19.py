import concurrent.futures as cf
import json
import os
import sys

SPEC = {
    "id": "C19",
    "package": "vh-pure",
    "bin": "c19",
    "level": "exploration",
    "events": True,
    "rule": ("A case is one guarded call of equihash::is_valid_solution. Sources: (1) valid solutions found by the harness's own "
             "Wagner solver for 23 parameter sets (index widths 9..21 and 25 bits: (48,5),(32,3),(40,4),(56,6),(40,3),(88,7),(72,5),(48,3),"
             "(104,7),(56,3),(112,7),(120,7),(96,5),(128,7),(64,3),(160,9),(144,8),(80,4),(112,6),(136,7),(72,3),(144,7),(96,3); "
             "thorough also (152,7),(80,3),(120,5),(160,7),(200,9),(88,3),(168,7),(264,11)) on random inputs/nonces of varied lengths, plus the crate's valid/invalid index "
             "vectors and the mainnet header shipped in zcash_primitives; (2) every (or, above a cap, a random sample of) single-bit "
             "flip of solution, input and nonce; (3) index-level mutations re-encoded to minimal form: sibling swap at every level, "
             "cousin swap (+re-canonicalised), duplicated index, doubled blocks at every level, substitution of an index by one that "
             "collides on a chosen chunk, substitution of a subtree by another partial solution from the solver's lists, near "
             "solutions whose last chunk alone is non-zero, sequences whose last chunk alone cancels at the top level, spliced halves of two "
             "solutions, sorted/reversed/rotated, valid encodings with a byte appended/removed; sequences from the solver's lists whose "
             "*only* defect is a repeated index (one repeated leaf at any position, or a repeated subtree [A1,A2,B1,A2] with A1,B1 "
             "colliding on every bit; hunted on thousands of (32,3)/(40,4) instances); (4) random "
             "byte strings of every length 0..2000; (5) the grid n in 0..600 + extremes x k in 0..40 + extremes x lengths {0,1,2,3,"
             "random,L-1,L+1,L/2,2L,L} with zero / sequential / all-ones / affine / random contents at the right length L. "
             "Distinctness: (source or mutation kind, n, k, tree level or chunk, verdict). Non-trivial = the parameters are valid "
             "and the string has the right length, i.e. the call reaches decoding and the tree validator."),
    "assumptions": [
        "hashlib.blake2b (python stdlib) and blake2b_simd (solver workload generation) implement BLAKE2b with personalisation",
        "the Python reference lib/pyref/equihash_ref.py is the judge for every case the shard cannot decide by construction; it is "
        "validated against the crate's 46 valid / 9 invalid vectors and mainnet block 415000 before each run",
        "completeness (reference-valid => accepted) is demanded where n <= 512, 8 <= n/(k+1) <= 24, k < 32; elsewhere an error is "
        "tolerated, a panic or an accepted invalid solution is not",
    ],
    "tiers": {
        "quick": {"shards": 12, "budget_s": 35, "extra": {"heavy-shards": 1}},
        "thorough": {"shards": 16, "budget_s": 420, "extra": {"heavy-shards": 3, "heavy2-shards": 2}},
    },
    "floors": {
        "quick": {
            "evaluations": 400_000, "distinct_nontrivial": 300,
            "grid_points": 33_000, "grid_shards_completed": 12, "grid_valid_param_pairs": 500,
            "grid_pairs_right_length_supplied": 400, "grid_calls_right_length": 1500,
            "solver_solutions": 300, "valid_solver": 300, "valid_vector": 46, "valid_header": 1,
            "valid_n48_k5": 100, "valid_n96_k5": 20, "valid_n200_k9": 8, "valid_n144_k5": 10,
            "valid_n104_k7": 5, "valid_n136_k7": 1, "valid_n72_k5": 5, "valid_n64_k3": 1, "valid_n144_k8": 1,
            "bitflips_soln": 50_000, "bitflips_input": 50_000, "bitflips_nonce": 50_000,
            "judged_mut-swap-siblings": 1000, "judged_mut-swap-cousins-canon": 800, "judged_mut-duplicate-index-canon": 200,
            "judged_mut-doubled-blocks": 1000, "judged_mut-chunk-collider": 800, "judged_mut-subtree-substitute": 400,
            "judged_near-solution": 300, "near_solutions_last_chunk_differs_only_in_low_byte": 20,
            "judged_near-solution-last-chunk-only": 300, "judged_embedded-duplicate-subtree": 50,
            "embedded_duplicate_not_in_first_position": 20, "judged_single-duplicate-leaf": 1000,
            "single_duplicate_leaf_inner_in_left_last_in_right": 50, "single_duplicate_leaf_meeting_at_top_level": 300,
            "single_duplicate_leaf_meeting_below_top_level": 200, "valid_solution_with_wrong_length_calls": 5000,
            "judged_invalid-vector": 9,
            "rust_err_collision": 1000, "rust_err_order": 1000, "rust_err_duplicate": 500, "rust_err_nonzero-root": 100,
            "rust_err_params": 100_000, "random_strings_wrong_length": 2000, "random_strings_right_length": 200,
            "ref_judged": 10_000, "ref_says_valid": 300, "ref_says_invalid": 8000, "selftest_vectors": 56,
        },
        "thorough": {
            "evaluations": 5_000_000, "distinct_nontrivial": 400,
            "grid_points": 33_000, "grid_shards_completed": 16, "grid_valid_param_pairs": 500,
            "solver_solutions": 2500, "valid_vector": 46, "valid_header": 1,
            "valid_n48_k5": 500, "valid_n96_k5": 200, "valid_n200_k9": 9, "valid_n96_k3": 2, "valid_n264_k11": 1,
            "bitflips_soln": 500_000, "bitflips_input": 500_000, "bitflips_nonce": 500_000,
            "judged_mut-swap-siblings": 10_000, "judged_mut-doubled-blocks": 10_000, "judged_mut-chunk-collider": 8000,
            "judged_mut-subtree-substitute": 4000, "judged_near-solution": 3000,
            "judged_near-solution-last-chunk-only": 3000, "judged_embedded-duplicate-subtree": 500,
            "judged_single-duplicate-leaf": 10_000, "single_duplicate_leaf_inner_in_left_last_in_right": 500,
            "valid_solution_with_wrong_length_calls": 15_000,
            "rust_err_collision": 10_000, "rust_err_order": 10_000, "rust_err_duplicate": 5000, "rust_err_nonzero-root": 1000,
            "ref_judged": 100_000, "selftest_vectors": 56,
        },
    },
    "manifest": {
        "technique": "differential testing of is_valid_solution against an independent big-integer reference (protocol spec 7.6.1.1) on "
                     "solutions from an independent Wagner solver, their bit flips and structure-aware index mutations, random strings, "
                     "and a parameter/length grid; panics caught per call",
        "text": "Every solution found by an independent solver for 23 parameter sets and every shipped valid vector was accepted; "
                "every single-bit flip and every structure-aware mutation was judged identically by the crate and by the reference; "
                "the parameter grid exposes the panics recorded as finding F2.",
        "note": "Sampled, not exhaustive. Trusted: BLAKE2b implementations, the Python reference (validated against the shipped vectors).",
    },
}

_LIB = os.path.dirname(os.path.dirname(os.path.abspath(__file__)))


def _ref():
    sys.path.insert(0, os.path.join(_LIB, "pyref"))
    import equihash_ref
    return equihash_ref


def in_envelope(n, k):
    if not (n % 8 == 0 and k >= 3 and k < n and n % (k + 1) == 0):
        return False
    c = n // (k + 1)
    return n <= 512 and 8 <= c <= 24 and k < 32


def _reason_class(why):
    return why.split("@")[0]


def judge_file(path):
    """Runs the reference over one shard's event log. Returns a plain dict (picklable)."""
    R = _ref()
    out = {"viol": {}, "counters": {}, "broken": [], "inconclusive": {}}

    def cnt(k, n=1):
        out["counters"][k] = out["counters"].get(k, 0) + n

    def viol(sig, detail, replay):
        e = out["viol"].setdefault(sig, {"count": 0, "examples": []})
        e["count"] += 1
        if len(e["examples"]) < 3:
            e["examples"].append({"detail": detail, "replay": replay})

    insts = {}
    with open(path) as f:
        for line in f:
            e = json.loads(line)
            t = e["t"]
            if t == "inst":
                hdr = bytes.fromhex(e["input"]) + bytes.fromhex(e["nonce"])
                n, k = e["n"], e["k"]
                H = R.Hasher(n, k, hdr) if (R.params_ok(n, k) and R.hash_defined(n)) else None
                insts.clear()  # instances are emitted strictly before their cases, one at a time
                insts[e["id"]] = (n, k, hdr, H, e)
                continue
            if t == "flip":
                n, k = e["n"], e["k"]
                ok, why = R.valid(n, k, bytes.fromhex(e["input"]) + bytes.fromhex(e["nonce"]), bytes.fromhex(e["soln"]))
                cnt("ref_judged")
                if ok:
                    out["inconclusive"]["accepted-bitflip-is-genuinely-valid"] = out["inconclusive"].get("accepted-bitflip-is-genuinely-valid", 0) + 1
                else:
                    viol("C19:is_valid_solution:accepted-invalid:bitflip-%s:%s" % (e["which"], _reason_class(why)),
                         "n=%d k=%d: string obtained by flipping bit %d of the %s of a valid instance was accepted; reference: %s" % (n, k, e["bit"], e["which"], why),
                         {k2: e[k2] for k2 in ("n", "k", "input", "nonce", "soln", "which", "bit")})
                continue
            n, k, hdr, H, ie = insts[e["inst"]]
            if e["rust"] != "ok" and not in_envelope(n, k):
                # An error for parameters outside the supported envelope is always acceptable (and the
                # reference cannot even hash indices wider than 32 bits there): nothing to judge.
                cnt("errors_outside_supported_envelope_not_judged")
                continue
            if t == "v":
                origin = e["origin"]
                ok, why = R.valid(n, k, hdr, bytes.fromhex(e["soln"]), H)
            else:  # "g"
                origin = "grid-" + e["kind"]
                if e.get("soln") is not None:
                    ok, why = R.valid(n, k, hdr, bytes.fromhex(e["soln"]), H)
                else:
                    idx = R.GeneratedIndices(n, k, e["kind"], int(e.get("a", "0")), int(e.get("b", "0")))
                    ok, why = R.valid_indices(n, k, hdr, idx, H)
            cnt("ref_judged")
            cnt("ref_says_valid" if ok else "ref_says_invalid")
            if not ok:
                cnt("ref_reason_" + _reason_class(why))
            rust_ok = e["rust"] == "ok"
            replay = {"n": n, "k": k, "input": ie["input"], "nonce": ie["nonce"], "origin": origin, "level": e.get("level"),
                      "soln": e.get("soln") or {"generated": e.get("kind"), "a": e.get("a"), "b": e.get("b")}, "rust": e["rust"], "reference": why}
            if e.get("expect") == "valid" and not ok:
                out["broken"].append("harness-side 'valid' solution (%s, n=%d k=%d) is invalid per reference: %s" % (origin, n, k, why))
                continue
            if origin.startswith("mut-") and ok:
                cnt("mutated_sequences_that_are_valid")
            if rust_ok and not ok:
                viol("C19:is_valid_solution:accepted-invalid:%s:%s" % (origin, _reason_class(why)),
                     "n=%d k=%d %s (level/chunk %s): accepted, reference says invalid (%s)" % (n, k, origin, e.get("level"), why), replay)
            elif (not rust_ok) and ok:
                if e.get("expect") == "valid":
                    cnt("rejected_valid_already_reported_by_shard")
                elif in_envelope(n, k):
                    viol("C19:is_valid_solution:rejected-valid:%s:%s" % (origin, e["rust"]),
                         "n=%d k=%d %s: rejected (%s), reference says valid" % (n, k, origin, e["rust"]), replay)
                else:
                    cnt("ref_valid_but_error_outside_supported_envelope")
            else:
                cnt("ref_agrees")
    return out


def run(tier, seed, fold):
    import driver
    R = _ref()
    # 1) the reference must reproduce the shipped vectors (a disagreement is a broken oracle, not a finding)
    problems, stats = R.selftest(driver.REPO)
    for p in problems:
        fold.broken.append("equihash_ref self-test: " + p)
    fold.count("selftest_vectors", sum(stats.values()))
    if problems:
        return
    # 2) hand the vectors to the shards
    val, inv, hdr = R.load_repo_vectors(driver.REPO)
    cases = {
        "valid": [{"n": t["n"], "k": t["k"], "input": t["input"].hex(), "nonce": t["nonce"].hex(), "solutions": t["solutions"],
                   "origin": "vector"} for t in val]
                 + [{"n": 200, "k": 9, "input": hdr["input"].hex(), "nonce": hdr["nonce"].hex(), "solutions": [hdr["soln"].hex()],
                     "origin": "header"}],
        "invalid": [{"n": t["n"], "k": t["k"], "input": t["input"].hex(), "nonce": t["nonce"].hex(), "solution": t["solution"],
                     "error": t["error"]} for t in inv],
    }
    d = os.path.join(driver.RUNS, "C19-aux")
    os.makedirs(d, exist_ok=True)
    vec_path = os.path.join(d, "vectors.json")
    json.dump(cases, open(vec_path, "w"))
    # 3) build + run
    bindir = driver.cargo_build(SPEC["package"], [SPEC["bin"]])
    t = SPEC["tiers"][tier]
    extra = dict(t.get("extra") or {})
    extra["vectors"] = vec_path
    shards = driver.run_shards("C19", os.path.join(bindir, SPEC["bin"]), t["shards"], seed, tier, t["budget_s"], extra=extra, events=True)
    fold.add_shards(shards)
    post(shards, fold, tier, seed)
    if tier == "thorough":
        # Miri: undefined behaviour / invalid values in everything the parser reaches
        driver.miri_run("C19", "equihash", seed, fold, procs=12, ops=400)


def post(shards, fold, tier, seed):
    paths = [s.events_path for s in shards if s.events_path and os.path.exists(s.events_path)]
    with cf.ProcessPoolExecutor(max_workers=min(len(paths), os.cpu_count() or 8) or 1) as ex:
        for res in ex.map(judge_file, paths):
            for k, v in res["counters"].items():
                fold.count(k, v)
            for sig, v in res["viol"].items():
                fold.violation(sig, v["examples"], v["count"])
            for b in res["broken"]:
                if b not in fold.broken and len(fold.broken) < 20:
                    fold.broken.append(b)
            for k, v in res["inconclusive"].items():
                fold.inconc(k, v)
