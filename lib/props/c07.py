SPEC = {
    "id": "C07",
    "package": "vh-tx",
    "bin": "c07",
    "level": "exploration",
    "rule": ("Each case is one call of ChangeStrategy::compute_balance (SingleOutputChangeStrategy / MultiOutputChangeStrategy over "
             "StandardFeeRule::Zip317, zip317::FeeRule::standard() and non_standard rules) on harness-defined transparent/Sapling/"
             "Orchard/Ironwood bundle views, or one call of FeeRule::fee_required. Requests are generated per scenario (fully "
             "transparent, ZIP 318 crossing look-alike, Orchard-plus-other funding, free mix of 0-12 inputs/outputs per pool), then the "
             "input total is placed deliberately at outputs+min_fee-1/+0/+1, outputs+fee_with_change-1/+0/+1, +dust threshold-1/+0/+1, "
             "+k*min_split-1/+0/+1, at the point where the change bound equals the Orchard input total -1/+0/+1, at MAX_MONEY, or "
             "randomly; shard 0 additionally walks a deterministic lattice over every (input pool, output pool) pair x upgrade side x "
             "dust action x threshold x transparent-change policy x single/multi. A case is distinct by (strategy, fee rule kind, "
             "pools with inputs, pools with outputs, change count per pool, outcome branch [exact/no change/zero change/dust folded/"
             "dust kept/normal/insufficient-min/insufficient-with-change/insufficient-dust/dust-inputs/strategy-error], dust action, "
             "NU6.3 side, ephemeral kind, total placement) and non-trivial when at least two pools are involved or the total sits on a "
             "boundary. fee_required calls are distinct by (rule kind, which term dominates, grace floor, error kind)."),
    "assumptions": [
        "padded bundle sizes come from sapling-crypto BundleType::num_spends/num_outputs and orchard BundleType::num_actions with "
        "BundleVersion::default_flags (dependency crates, trusted)",
        "NU6.3 activation heights of the main/test networks are read from zcash_protocol::consensus (trusted here; LocalNetwork heights "
        "are chosen by the harness)",
        "legal shapes for refusals: no change output only when all shielded flows are zero and no change memo is in effect; otherwise "
        "1..target change outputs in one pool (one P2PKH output when transparent change is allowed and the flows are transparent)",
        "a zero-valued change output is always allowed (documented behaviour of every DustAction)",
        "the dust threshold of a policy without an explicit threshold is the fee rule's marginal fee",
        "the final shape's Ironwood bundle is unpadded exactly for the documented canonical crossing (one Orchard spend, no Ironwood "
        "spend, a single Ironwood output of {1,2,5}*10^k zatoshi within [0.01, 10000] ZEC, no Ironwood change, at most one Orchard "
        "change output, no change or ephemeral output elsewhere, anchor on the bucket grid); the builder reproduces the dummy-output "
        "counts the balance records, so the fee is compared with the recorded shape and the recorded shape with this rule",
        "a refusal for lack of funds is justified when the cheapest with-change shape (one change output, any candidate pool) is not "
        "affordable, or (DustAction::Reject) some legal shape would leave a non-zero change below the threshold; with "
        "min_split_output_value == 0 the strategy never falls back to fewer outputs, so every split count may justify it",
        "rustc u128 arithmetic as the exact-integer reference",
    ],
    "tiers": {
        "quick": {"shards": 8, "budget_s": 60},
        "thorough": {"shards": 16, "budget_s": 900},
    },
    # about a fifth of what an unloaded quick run observes (the time budget may cut a run short on a busy
    # machine); thorough = 20 x that.
    "floors": {
        "quick": {
            "anchor_off_grid_cases": 300_000, "anchor_on_grid_cases": 500_000, "boundary_total_cases": 700_000,
            "distinct_nontrivial": 100_000, "evaluations": 1_000_000, "fee_required_grace_floor": 10_000,
            "fee_required_ok": 100_000, "fee_required_overflow": 10_000, "fee_required_unknown_inputs": 10_000,
            "fee_required_with_ironwood_actions": 100_000, "insufficient_below_fee_with_change": 70_000,
            "insufficient_below_min_fee": 80_000, "insufficient_dust_change_rejected": 30_000, "insufficient_funds": 100_000,
            "lattice_cases": 65_520, "max_change_outputs": 8, "multi_output_strategy_cases": 400_000, "ok_balances": 600_000,
            "ok_canonical_crossing_unpadded": 30_000, "ok_change_ironwood": 100_000, "ok_change_orchard": 200_000,
            "ok_change_sapling": 50_000, "ok_change_transparent": 10_000, "ok_dust_change_allowed": 40_000,
            "ok_dust_change_kept_under_add_to_fee": 7_000, "ok_dust_folded_into_fee": 30_000, "ok_exact_no_change": 10_000,
            "ok_fee_exact": 500_000, "ok_ironwood_change_where_orchard_was_preferred": 90_000,
            "ok_orchard_change_post_nu6_3": 100_000, "ok_post_nu6_3": 300_000, "ok_pre_nu6_3": 200_000,
            "ok_split_change": 70_000, "ok_split_fewer_than_target": 20_000, "ok_split_with_remainder": 40_000,
            "ok_with_ephemeral_balance": 70_000, "ok_zero_valued_change": 50_000, "single_output_strategy_cases": 400_000,
            "strategy_error_unknown_p2sh": 20_000, "turnstile_boundary_cases": 80_000,
        },
        "thorough": {
            "anchor_off_grid_cases": 7_000_000, "anchor_on_grid_cases": 10_000_000, "boundary_total_cases": 10_000_000,
            "distinct_nontrivial": 200_000, "evaluations": 20_000_000, "fee_required_grace_floor": 200_000,
            "fee_required_ok": 3_000_000, "fee_required_overflow": 300_000, "fee_required_unknown_inputs": 300_000,
            "fee_required_with_ironwood_actions": 2_000_000, "insufficient_below_fee_with_change": 1_000_000,
            "insufficient_below_min_fee": 1_000_000, "insufficient_dust_change_rejected": 600_000,
            "insufficient_funds": 3_000_000, "lattice_cases": 65_520, "max_change_outputs": 8,
            "multi_output_strategy_cases": 8_000_000, "ok_balances": 10_000_000, "ok_canonical_crossing_unpadded": 600_000,
            "ok_change_ironwood": 3_000_000, "ok_change_orchard": 5_000_000, "ok_change_sapling": 1_000_000,
            "ok_change_transparent": 300_000, "ok_dust_change_allowed": 800_000,
            "ok_dust_change_kept_under_add_to_fee": 100_000, "ok_dust_folded_into_fee": 700_000, "ok_exact_no_change": 300_000,
            "ok_fee_exact": 10_000_000, "ok_ironwood_change_where_orchard_was_preferred": 1_000_000,
            "ok_orchard_change_post_nu6_3": 2_000_000, "ok_post_nu6_3": 6_000_000, "ok_pre_nu6_3": 5_000_000,
            "ok_split_change": 1_000_000, "ok_split_fewer_than_target": 500_000, "ok_split_with_remainder": 900_000,
            "ok_with_ephemeral_balance": 1_000_000, "ok_zero_valued_change": 1_000_000,
            "single_output_strategy_cases": 8_000_000, "strategy_error_unknown_p2sh": 500_000,
            "turnstile_boundary_cases": 1_000_000,
        },
    },
    "manifest": {
        "technique": "generated and boundary-placed requests fed to the real change strategies through harness-defined bundle views; "
                     "independent u128 re-computation of the ZIP 317 fee of the final padded shape, conservation, dust policy and "
                     "turnstile; direct differential test of fee_required",
        "text": "Millions of compute_balance calls across all four pools, both strategies, every dust action/threshold, split policies, "
                "ephemeral balances, both sides of NU6.3 and on/off-grid anchors, with input totals placed on the fee and dust boundaries, "
                "are checked for exact conservation, exact (or, with dust folding, at-least) ZIP 317 fee of the final shape, dust-free "
                "change under Reject, no Orchard pool gain after NU6.3, and justified InsufficientFunds refusals; fee_required is "
                "compared with the closed formula. Sampled, not exhaustive.",
        "note": "Trusted: padding arithmetic of sapling-crypto/orchard, network activation tables, u128 arithmetic. DustInputs refusals "
                "and other error kinds are counted, not judged (the property says nothing about them).",
    },
}
