SPEC = {
    "id": "C08",
    "package": "vh-wallet",
    "bin": "c08",
    "level": "exploration",
    "rule": ("One case = one proposal request made inside a generated wallet history. A history is a fabricated chain "
             "(2 accounts; Sapling, Orchard and - with NU6.3 active - Ironwood notes to external/internal addresses, dust, "
             "1-ZEC and very large values, on-chain spends, foreign traffic) plus transparent coins "
             "(put_received_transparent_utxo), driven through a random interleaving of: mining, full and partial scans, "
             "tip updates, rewinds with a different continuation (orphans re-mined), lock_outputs / unlock_output / "
             "clear_locked_outputs / unlock_proposal_inputs with 4 owners and expiries around the tip, tip advances that "
             "expire locks and pending transactions, and proposals through propose_standard_transfer_to_address, "
             "propose_transfer (single/multi-output change, every LockedInputPolicy variant, ConfirmationsPolicy 1..10 "
             "trusted<=untrusted, pool subsets, transparent spend policies, 1-3 payments incl. TEX), "
             "propose_send_max_transfer (both modes), propose_shielding, each with or without a LockRequest; every mined "
             "wallet shielding transaction is followed by six requests (send-max and transfers sized against the model, alternating) one or two blocks apart under a policy whose "
             "untrusted depth lies just beyond the depth of the newest shielded coin. Amounts are "
             "chosen against the model: random, near the eligible total, eligible+1, eligible + an ineligible note, the "
             "value of an ineligible note, canonical ZIP 318 denominations, above the upper bound. Returned proposals are "
             "judged input by input against the model; some are turned into stored pending transactions "
             "(create_proposed_transactions / store_transactions_to_be_sent) which are later mined, expired or orphaned. "
             "Signature = (kind, policy, locked-input policy, lock request?, set of ineligible-note kinds present, "
             "unscanned blocks?, transparent/change/mode/amount class, outcome). Non-trivial = the wallet held at least one "
             "INELIGIBLE note or coin (other account / spent by pending tx / locked by unadmitted owner / too shallow) "
             "worth more than dust and at least the requested amount when the proposal was made."),
    "assumptions": [
        "ground truth (note owner, value, position, nullifier, mined height, on-chain spends, true tree roots) comes from the harness's own chain fabricator; lock and pending-transaction state comes from the harness's own log of the operations it issued, interpreted by the documented rules of data_api::locking and of the spent-notes predicate (spent = mined in a scanned block, or stored and unexpired)",
        "the confirmations rule is re-implemented from the ConfirmationsPolicy documentation in its weakest reading (every shielded input needs at least `trusted` confirmations; external receipts need `untrusted` unless the creating transaction is the wallet's own; outputs of a wallet shielding transaction count as untrusted receipts at the height of the shielded coins; coins need `untrusted` unless zero-conf shielding is allowed); send-max / shielding selections are compared with the model's eligible set as a tightness diagnostic, not as a verdict",
        "witnessability is checked, not modelled: the wallet's own witness_at_checkpoint_id(position, anchor) path is hashed up (plain Merkle hashing) and compared with the true root at the proposal's anchor",
        "pending transactions: Sapling/transparent-only proposals go through create_proposed_transactions (mock Sapling provers, one per shard with the real bundled LocalTxProver); proposals spending only Orchard/Ironwood notes are stored through store_transactions_to_be_sent around a transaction the harness builds with the orchard builder (real nullifiers and witnesses, dummy proof and signatures) because halo2 proving costs seconds per action; the thorough tier additionally creates a few with real halo2 proofs",
        "witness failures in a pool whose history satisfied the trigger predicate of known finding F1 (shardtree truncation keeps stale annotations) are classified C08:...-after-F1-truncation",
    ],
    "tiers": {
        "quick": {"shards": 16, "budget_s": 60},
        "thorough": {"shards": 16, "budget_s": 1200},
    },
    "floors": {
        "quick": {"histories": 16, "evaluations": 400, "distinct_nontrivial": 250, "nontrivial_proposals": 250,
                  "proposals_returned": 200, "proposals_returned:standard_transfer": 20, "proposals_returned:transfer": 40,
                  "proposals_returned:send_max": 40, "proposals_returned:shielding": 20,
                  "proposals_returned_with_lock_request": 60, "multi_step_proposals": 5,
                  "constructor_guard_chain_double_spend_probes": 150, "constructor_guard_proto_double_spend_probes": 150,
                  "constructor_guard_step_double_spend_probes": 5, "constructor_guard_forward_reference_probes": 5,
                  "trust_marks_set_or_cleared": 40, "trust_marks_on_part_of_a_shielding_transactions_inputs": 5,
                  "sendmax_followups_of_a_mined_shielding_transaction": 50,
                  "transfer_followups_of_a_mined_shielding_transaction": 50,
                  "proposals_with_shielding_output_shallow_only_by_its_coins": 40,
                  "inputs_checked": 1500, "inputs_checked_transparent": 80, "witness_verifications": 800,
                  "step_balances_checked": 200, "request_above_upper_bound_refused": 20,
                  "proposals_with_ineligible_present:spent_pending": 30, "proposals_with_ineligible_present:locked_foreign": 100,
                  "proposals_with_ineligible_present:locked_own": 10, "proposals_with_ineligible_present:too_shallow": 200,
                  "proposals_with_ineligible_present:other_account": 400,
                  "pending_transactions_stored": 15, "pending_transactions_mined": 5, "pending_transactions_expired_unmined": 4,
                  "advances_to_expiry_boundary": 5, "bystander_locks_before_store": 30, "pending_transactions_spending_coins": 5,
                  "pending_stored_fabricated_orchard_family": 5,
                  "lock_outputs_ok": 40, "unlock_output_calls": 10, "clear_locked_outputs_calls": 5, "rewinds": 4,
                  "diag_sendmax_selection_equals_model": 30, "diag_shielding_selection_equals_model": 15},
        "thorough": {"histories": 150, "evaluations": 8000, "distinct_nontrivial": 2500, "nontrivial_proposals": 5000,
                     "proposals_returned": 4000, "proposals_returned:standard_transfer": 400, "proposals_returned:transfer": 800,
                     "proposals_returned:send_max": 800, "proposals_returned:shielding": 400,
                     "proposals_returned_with_lock_request": 1200, "multi_step_proposals": 100,
                     "constructor_guard_chain_double_spend_probes": 3000, "constructor_guard_proto_double_spend_probes": 3000,
                     "constructor_guard_step_double_spend_probes": 100, "constructor_guard_forward_reference_probes": 100,
                     "inputs_checked": 30000, "inputs_checked_transparent": 1500, "witness_verifications": 15000,
                     "step_balances_checked": 4000, "request_above_upper_bound_refused": 400,
                     "proposals_with_ineligible_present:spent_pending": 600, "proposals_with_ineligible_present:locked_foreign": 2000,
                     "proposals_with_ineligible_present:locked_own": 200, "proposals_with_ineligible_present:too_shallow": 4000,
                     "proposals_with_ineligible_present:other_account": 8000,
                     "pending_transactions_stored": 300, "pending_transactions_mined": 100, "pending_transactions_expired_unmined": 80,
                     "pending_created_with_real_halo2_proofs": 10, "pending_created_real_prover": 20,
                     "advances_to_expiry_boundary": 100, "bystander_locks_before_store": 600, "pending_transactions_spending_coins": 100,
                     "pending_stored_fabricated_orchard_family": 100, "proposals_on_bucketed_anchor": 10,
                     "proposals_with_shielding_output_shallow_only_by_its_coins": 400,
                     "sendmax_followups_of_a_mined_shielding_transaction": 500,
                     "transfer_followups_of_a_mined_shielding_transaction": 500,
                     "lock_outputs_ok": 800, "unlock_output_calls": 200, "clear_locked_outputs_calls": 100, "rewinds": 80,
                     "diag_sendmax_selection_equals_model": 600, "diag_shielding_selection_equals_model": 300},
    },
    "manifest": {
        "technique": "history + executable eligibility model: every input of every step of every proposal returned by the public proposal API during generated receive/spend/scan/rewind/lock/pending-transaction histories is judged against ground truth (owner, spent-ness incl. unexpired pending spends, confirmations, lock owner/expiry, uniqueness, exact step balance) and its witness is verified against the true root at the proposal's anchor",
        "text": "Thousands of proposals per run over wallets holding spent-pending, locked (own/foreign owner), too-shallow and other-account notes and coins; every selected input checked against an independent model and every shielded input's witness verified; requests above the model's upper bound of spendable funds must be refused. Held on everything executed.",
        "note": "Sampled histories. Chains stay inside the first shard of each tree, so the unscanned-shard clause shows up only as 'blocks below the tip unscanned => the wallet refuses'. Most Orchard/Ironwood pending transactions are harness-built (no halo2 proofs) and stored through store_transactions_to_be_sent.",
    },
}
