SPEC = {
    "id": "C17",
    "package": "vh-pure",
    "bin": "c17",
    "level": "exploration",
    "rule": ("One case = one call of a public function of zcash_pool_migration::scheduling (DelayDistribution::draw, "
             "schedule[_prep]_broadcast_heights, schedule, shuffle_indices/in_place, draw/redraw_anchor_boundary, "
             "earliest_broadcast_height, schedule_sync_wakeups) or of zcash_protocol::zip318 (expiry_height, grid rounding, "
             "classify, to_code/from_code; plus zcash_client_backend::data_api::zip318::classify_decrypted_tx on v6 transactions "
             "assembled from generated Orchard/Ironwood/transparent/Sapling bundles with fabricated decrypted outputs) under a ChaCha stream or an adversarial RngCore (constant, alternating, counter, "
             "k constant words then random, low/high-bits-only, scripted words aimed at the cap boundary), each call under an "
             "RNG-word budget (exhaustion = inconclusive). Distinct by (operation, stream kind, and the structural class of "
             "the inputs/outcome: mean and cap/mean bucket, rejection seen, result at cap/zero; saturation, part count; "
             "candidate-set size, drawn age, interval magnitude, activation/funding/tip on a boundary, near u32::MAX; number of "
             "windows / overdue transfers / wake-ups, margin and jitter class; classification result x number of answered "
             "clauses x which confirmatory clauses are answered). Expiry heights and grid roundings are counted as evaluations "
             "and contribute one signature per region. Non-trivial: every case with a verdict except empty schedules/shuffles "
             "of fewer than 2 elements and wake-up instances with fewer than 2 transfers."),
    "exhaustive_scope": ("the evidence lattice of zip318::classify: 9 source-action values x 4 destination-action values x 3^5 "
                         "boolean clauses x 10 destination values (incl. None everywhere) under two constant sets, every point "
                         "and every ordered pair e1 <= e2 with the two confirmatory clauses held fixed; in the thorough tier "
                         "also expiry_height over the whole u32 domain. Everything else is sampled."),
    "assumptions": [
        "classification ordering: clause-wise None <= value with the two confirmatory clauses (anchor_on_grid, fee_is_canonical) "
        "held fixed, as the type's documented contract requires of an evidence source; decisions that flip when a confirmatory "
        "clause arrives late are counted (decisions_that_flip_if_a_confirmatory_clause_arrives_late), not judged",
        "a 'negative observation' is an answered clause that contradicts the documented shape (preparation: 16 source actions, no "
        "destination action, no other bundle, send-to-self, canonical expiry; transfer: 2 source actions, 1 destination action, no "
        "other bundle, canonical denomination, canonical expiry; confirmatory clauses not answered false)",
        "minimum piercing number: smallest hitting set over right endpoints (upper bound) and largest pairwise-disjoint "
        "subfamily (lower bound), both by exhaustive subset enumeration; only instances where they coincide are judged",
        "termination of rejection sampling is decided as bounded progress: 10^6 RNG words per call under ChaCha, 4096 under adversarial streams (all of which are periodic or turn random after at most 200 words)",
        "64-bit usize; std f64::ln only in a diagnostic",
    ],
    "tiers": {
        "quick": {"shards": 8, "budget_s": 80},
        "thorough": {"shards": 16, "budget_s": 900},
    },
    "floors": {
        "quick": {
            "evaluations": 5_000_000, "distinct_nontrivial": 3000,
            "classification_lattice_points": 174_960, "classification_ordered_pairs": 4_900_000,
            "unrecognised_codes_checked": 200_000,
            "expiry_heights_checked": 2_000_000, "expiry_saturated_heights_checked": 1,
            "grid_roundings_checked": 300_000,
            "delay_draws": 200_000, "delay_draws_with_rejection": 20_000, "delay_draws_equal_to_cap": 500,
            "delay_first_word_predictions": 5000,
            "height_schedules": 50_000, "height_schedules_saturating": 2000, "schedule_expiries_checked": 100_000,
            "shuffles": 150_000, "shuffle_reachability_tables": 5,
            "anchor_draws": 200_000, "anchor_redraws": 100_000, "anchor_absent_with_empty_candidate_set": 20_000,
            "anchor_draws_candidate_set_size_1": 5000, "anchor_draws_candidate_set_size_2": 5000,
            "anchor_draws_candidate_set_size_3": 5000, "anchor_draws_candidate_set_size_4": 5000,
            "earliest_broadcast_heights_checked": 30_000,
            "wakeup_instances": 100_000, "wakeup_instances_with_brute_force_minimum": 80_000,
            "wakeup_instances_minimum_at_least_3": 5000, "wakeup_instances_with_overdue": 10_000,
            "wakeup_instances_overdue_absorbing_open_windows": 1000, "wakeups_with_nonzero_jitter": 10_000,
            "calls_stopped_by_rng_budget": 1,
            "evidence_gatherer_calls": 8000, "evidence_gatherer_conforms_preparation_": 50, "evidence_gatherer_conforms_transfer_": 30,
            "evidence_gatherer_unknown": 100, "evidence_gatherer_nonconforming": 5000,
            "rebuilds_done": 150, "rebuilds_scheduled_across_an_expiry_period_boundary": 80,
        },
        "thorough": {
            "evaluations": 4_000_000_000, "distinct_nontrivial": 5000,
            "classification_lattice_points": 174_960, "classification_ordered_pairs": 4_900_000,
            "expiry_heights_checked": 4_294_967_296, "expiry_full_domain_stripes_completed": 16,
            "delay_draws": 10_000_000, "anchor_draws": 10_000_000, "anchor_redraws": 5_000_000,
            "wakeup_instances": 2_000_000, "wakeup_instances_with_brute_force_minimum": 1_500_000,
            "height_schedules": 2_000_000, "shuffles": 5_000_000,
            "evidence_gatherer_calls": 300_000, "evidence_gatherer_conforms_preparation_": 2000, "evidence_gatherer_conforms_transfer_": 1000,
            "rebuilds_done": 10_000, "rebuilds_scheduled_across_an_expiry_period_boundary": 5000,
        },
    },
    "manifest": {
        "technique": ("randomised and adversarial-stream differential testing of the scheduling functions against independent "
                      "closed forms and brute-force enumerations (candidate anchor set, exact minimum piercing number), RNG-word "
                      "budgets for rejection loops, exhaustive enumeration of the classification evidence lattice and of all "
                      "ordered evidence pairs; overflow checks and debug assertions armed"),
        "text": ("Drawn delays, cumulative heights, expiries, shuffles, drawn and redrawn anchors, wake-up schedules and ZIP 318 "
                 "labels were checked against independent oracles on millions of calls (and the expiry of transfers the engine rebuilds after re-opening real commits just below the end of an expiry period) under random, biased and low-entropy "
                 "RNG streams; classification monotonicity and 'no refutation without a negative observation' hold on the whole "
                 "evidence lattice. Held on everything executed; exhaustive on the lattice (and on all 2^32 expiry heights in "
                 "the thorough tier), sampled elsewhere."),
        "note": ("Rejection sampling that does not terminate under a hostile stream within the word budget is inconclusive by "
                 "design. Wake-up minimality is judged on instances with at most 9 transfers. The wallet-side evidence gatherer "
                 "(data_api::zip318::classify_decrypted_tx) is driven without a wallet: transactions are assembled from generated "
                 "bundles and the decrypted outputs are fabricated; it never answers the confirmatory clauses."),
    },
}


def run(tier, seed, fold):
    """The scheduling functions themselves (vh-pure c17) plus the one place outside them that computes an
    expiry: the engine's rebuild of an expired transfer (real commits from vh-wallet's c18 fixtures,
    re-opened just below the end of an expiry period)."""
    import os
    import driver
    driver.standard_run(SPEC, tier, seed, fold)
    bindir = driver.cargo_build("vh-wallet", ["c18"])
    shards = driver.run_shards("C17", os.path.join(bindir, "c18"), 4 if tier == "quick" else 16, seed, tier,
                               60 if tier == "quick" else 300,
                               extra={"c17-rebuild": 1, "fixtures": 3 if tier == "quick" else 12, "rebuilds": 40 if tier == "quick" else 200},
                               tag="rebuild")
    fold.add_shards(shards, "rebuild")
