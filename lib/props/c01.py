SPEC = {
    "id": "C01",
    "package": "vh-wallet",
    "bin": "c01",
    "level": "exploration",
    "rule": ("One case = one generated wallet history: a fabricated chain (1-3 pools, 1-2 accounts, receipts to "
             "external/diversified/internal addresses, spends of earlier notes of any age, foreign traffic, empty "
             "blocks, dust/zero/large values), scanned in random chunks (1..150 blocks) from either end or the middle "
             "of unscanned ranges, with duplicated scans, chain-tip updates, up to 3 rewinds followed by a different "
             "continuation (some orphaned transactions re-mined); half of the histories also hand the wallet transparent coins (put_received_transparent_utxo at scanned heights, values around the dust boundary). After EVERY operation total+uneconomic per "
             "account x pool is compared with the reference ledger; at the end the wallet is compared with a fresh "
             "wallet that scanned the same chain once in order. Signature = (pools, accounts, out-of-order?, "
             "#spend-before-receipt events observed (capped), frontier-extension>100 batches, nullifier pruning "
             "observed, #rewinds, #F1-exposing rewinds, orphan-band/remine/full-scan flags, max batch). Non-trivial = "
             "at least one wallet note was spent (or a rewind happened) and the scan order was not the plain "
             "identity (out of order, duplicated or rewound)."),
    "assumptions": [
        "ground truth comes from the harness's own chain fabricator (it builds every note, nullifier and leaf)",
        "orphaned compact-scanned transactions count until min_observed_height + 40 < tip + 1 (the wallet's documented expiry guess); while such orphans exist only the band [ledger without orphan receipts and with orphan spends, ledger with orphan receipts and without orphan spends] is enforced",
        "sapling-crypto / orchard note encryption and nullifier derivation (dependency crates) are trusted",
    ],
    "tiers": {
        "quick": {"shards": 16, "budget_s": 75},
        "thorough": {"shards": 16, "budget_s": 1200},
    },
    "floors": {
        "quick": {"histories": 20, "balance_checks_exact": 1500, "spend_before_receipt_events": 50, "fresh_wallet_comparisons": 16,
                  "rewinds": 5, "duplicate_scans": 20, "distinct_nontrivial": 16, "transparent_coin_balance_checks": 200},
        "thorough": {"histories": 600, "balance_checks_exact": 40000, "spend_before_receipt_events": 1500, "fresh_wallet_comparisons": 400,
                     "rewinds": 150, "frontier_extension_batches_gt100": 3, "histories_with_nullifier_pruning": 30, "distinct_nontrivial": 200, "transparent_coin_balance_checks": 8000},
    },
    "manifest": {
        "technique": "history + executable ledger model: generated chains/scan orders/rewinds run against the real SQLite wallet, balance compared with ground truth after every operation, fresh-wallet differential at quiescence",
        "text": "Thousands of balance observations over generated histories (out-of-order and duplicated scans, spends scanned before receipts, rewinds with different continuations, re-mined orphans) each compared with an independent ledger built from the harness's ground truth; plus note-set/balance equality with a fresh in-order wallet. Held on everything executed.",
        "note": "Sampled histories, not all; chain fabricated by the harness (shielded notes come from fabricated compact blocks, transparent coins are reported through put_received_transparent_utxo (their spends are exercised in C08)); dependency crypto trusted. Histories whose rewind exposes known finding F1 (shardtree) are still balance-checked but may stop early if a scan fails.",
    },
}
