SPEC = {
    "id": "C13",
    "package": "vh-tx",
    "bin": "c13",
    "level": "exploration",
    "rule": ("A case is one PCZT made by the real pipeline (Builder::build_for_pczt or DeferredPcztBuilder over a random balanced "
             "request with transparent P2PKH/P2SH, Sapling, Orchard and Ironwood inputs/outputs, v5 and v6, target heights NU5..NU6.3, "
             "then Creator) taken through: Updater and IoFinalizer in either order; every applicable Redactor operation on a fork; "
             "2-4 parties that each start from the IO-finalised PCZT (half of them through serialise/parse), do a random share of the "
             "Updater / Signer / Prover work in random order and strip random fields with the Redactor; the Combiner over every "
             "permutation and every bracketing of the parties' copies plus the flat fold; a conflict experiment (Updater with different "
             "values at one place, two randomised signatures for one spend, or one field altered through the serde value tree); "
             "SpendFinalizer; TransactionExtractor where proofs exist (transparent-only cases, and a sample proved with the real Sapling "
             "and Orchard provers). 45% of the cases first get fields only a third-party Constructor/Creator sets (explicit non-final or final "
             "input sequence, per-input required height/time lock, absent or non-zero fallback lock time), injected through the value tree. "
             "Orchard/Ironwood ciphertexts are compacted by the Redactor into memo plaintexts (memos of 0, 1, 511, 512 significant bytes, "
             "no-memo marker, text and arbitrary lead bytes), round-tripped, resolved back and handed to the next role. Pairs of copies that "
             "differ in exactly one field (every Global field; input sequence / required lock times / value / prevout / sighash type; output "
             "value; shielded nullifiers), present-vs-present and absent-vs-present, go through every Combiner order: copies implying "
             "different txids must never combine, a successful combination must imply the inputs' txid. "
             "Growth pairs: the creation-stage PCZT (longer copy) against the same PCZT minus its last input / output / spend / action "
             "(shorter copy), each with its modifiable flag set or cleared through the value tree, for all four bundles, in every order and "
             "grouping: accepted iff the shorter copy is modifiable, same verdict and same result in every order. One shard also round-trips "
             "36 hand-made PCZTs whose Sapling / Orchard / Ironwood bundle is canonically empty except for ONE field (bsk, anchor, value_sum, "
             "flags, note_version, zkproof; v5 and v6) incl. v1->v2->v1 / v2->v1->v2 byte stability and the effects verdict across a cycle. "
             "After every role application the PCZT is serialised/parsed/compared and its implied txid compared "
             "with the one at creation. Distinct = distinct (request shape incl. epoch, version, pools, counts, paddings; builder kind; "
             "real/mock proofs); all cases are non-trivial (each yields hundreds of role/encoding/combination verdicts, counted "
             "separately in the counters)."),
    "exhaustive_scope": "per case: all n! permutations x all Catalan(n-1) bracketings (+ flat fold) of the n<=4 party copies",
    "assumptions": [
        "ciborium::Value (dependency crate) as the generic value tree of the pub serde type pczt::v2::Pczt; the union / diff / v1-representability oracles work on that tree only",
        "v1-representability rule written from the v1 layout: tx version != 6, Ironwood bundle canonically empty, Orchard note version 2, no absent Orchard anchor/cv_net/cmx on a bundle with actions, no memo-plaintext ciphertexts, no absent Sapling anchor on a bundle with spends",
        "tx_modifiable merges bitwise as documented on pczt::common::Global (bits 0,1,7 towards 0; bit 2 towards 1)",
        "a copy may be extended by a merge only if its own modifiable flag (inputs / outputs / shielded) is set, as documented on Global::tx_modifiable and in the bundle merges: with copies of different length the expected verdict is Ok iff every shorter copy is modifiable",
        "the value-tree view is produced by the v2 encoder and cannot see what that encoder elides; such losses are caught by the Debug-rendering comparison, which names the first differing field",
        "absence of a field with a documented default is that default (fallback_lock_time 0, sequence 0xFFFFFFFF, no required lock time): two copies conflict when the txids they imply differ even if the field-wise union finds no two different values",
        "txid: zcash_primitives TxIdDigester/to_txid over into_effects() (digest correctness is C04's subject); extraction with real proofs verifies proofs and signatures with the dependency crates",
        "IoFinalizer, Signer and Prover draw from OsRng inside the library: runs are reproducible in structure, not in signature/proof bytes",
    ],
    "tiers": {
        "quick": {"shards": 9, "budget_s": 52, "extra": {}},
        "thorough": {"shards": 15, "budget_s": 1300, "extra": {}},
    },
    "floors": {
        "quick": {
            "evaluations": 90, "distinct_nontrivial": 90,
            "roundtrips": 2000, "roundtrip_encodings_checked": 5000, "encoded_as_v1": 1200, "encoded_as_v2": 700,
            "v2_forced_by:tx-version-6": 600, "v2_forced_by:orchard-anchor-absent": 10, "v2_forced_by:orchard-cv_net-absent": 10,
            "v2_forced_by:orchard-cmx-absent": 10, "v2_forced_by:sapling-anchor-absent": 8,
            "txid_compared_after_role": 2000, "pczt_txid_agrees": 2000,
            "txid_after:updater": 300, "txid_after:io_finalizer": 80, "txid_after:signer": 150, "txid_after:prover": 35,
            "txid_after:redactor": 1200, "txid_after:combiner": 70, "txid_after:spend_finalizer": 35,
            "redactions_checked": 1200, "redactions_effective": 600,
            "combine_orders_and_groupings": 4000, "combine_union_agreed": 45, "combine_conflicts_refused_in_every_order": 90,
            "combine_experiments_n2": 70, "combine_experiments_n3": 50, "combine_experiments_n4": 12,
            "combine_idempotence_checked": 250, "serde_route_conflicts": 25,
            "conflict_cases:double-signature": 15, "conflict_cases:global.proprietary": 6,
            "signed:transparent": 50, "signed:sapling": 60, "signed:orchard": 90, "signed:ironwood": 12,
            "updates:global": 120, "updates:transparent": 90, "updates:sapling": 70, "updates:orchard": 70, "updates:ironwood": 15,
            "pczts:deferred_builder": 6, "pczts:tx_v5": 45, "pczts:tx_v6": 20,
            "pczts_with:transparent": 50, "pczts_with:sapling": 30, "pczts_with:orchard": 40, "pczts_with:ironwood": 10,
            "extracted": 8, "extracted_with_real_proofs": 3, "handover_through_bytes": 90, "creator_new_probes": 7,
            "foreign_constructor_cases": 25, "foreign_constructor:sequence-non-final": 5, "foreign_constructor:sequence-final-explicit": 4,
            "foreign_constructor:required-height-lock": 3, "foreign_constructor:required-time-lock": 3,
            "foreign_constructor:fallback-absent": 4, "foreign_constructor:fallback-nonzero": 4,
            "field_pair_cases": 600, "field_pair_absent_vs_present": 350,
            "field_pair:global.fallback_lock_time:absent-vs-nonzero": 100, "field_pair:global.fallback_lock_time:absent-vs-zero": 100,
            "field_pair:transparent.inputs[].sequence:absent-vs-non-final": 30, "field_pair:transparent.inputs[].sequence:absent-vs-final": 30,
            "combine_conflicts_by_implied_txid_only": 180, "combine_result_txid_checked": 150,
            "memo_compactions": 250, "memo_compaction_resolved_back": 250, "memo_compaction_next_role_ok": 120,
            "memo_plaintext_len:0": 200, "memo_plaintext_len:1": 60, "memo_plaintext_len:511": 30, "memo_plaintext_len:512": 100,
            "growth_pairs": 500, "growth_verdicts": 4000, "growth_expected_ok": 250, "growth_expected_refusal": 250,
            "growth_results_compared": 2000,
            "growth_pair:transparent.inputs": 60, "growth_pair:transparent.outputs": 90, "growth_pair:sapling.spends": 20,
            "growth_pair:sapling.outputs": 50, "growth_pair:orchard.actions": 150, "growth_pair:ironwood.actions": 24,
            "empty_bundle_field_probes": 36, "empty_bundle_probe:sapling.bsk": 4, "empty_bundle_probe:orchard.bsk": 4,
            "empty_bundle_probe:ironwood.bsk": 4, "empty_bundle_probe:ironwood.zkproof": 2, "empty_bundle_probe:orchard.note_version": 2,
            "probe_effects_verdict_stable": 36, "v1_v2_v1_bytes_stable": 6, "v2_v1_v2_bytes_stable": 4,
        },
        "thorough": {
            "evaluations": 2500, "distinct_nontrivial": 2000,
            "roundtrips": 60000, "txid_compared_after_role": 60000,
            "redactions_checked": 40000, "combine_orders_and_groupings": 120000,
            "combine_union_agreed": 1200, "combine_conflicts_refused_in_every_order": 2500,
            "combine_experiments_n4": 400, "serde_route_conflicts": 600,
            "signed:ironwood": 400, "pczts:deferred_builder": 150, "pczts_with:ironwood": 300,
            "extracted": 250, "extracted_with_real_proofs": 40, "creator_new_probes": 7,
            "foreign_constructor_cases": 800, "foreign_constructor:sequence-non-final": 200, "foreign_constructor:required-height-lock": 120,
            "foreign_constructor:required-time-lock": 120, "foreign_constructor:fallback-absent": 150,
            "field_pair_cases": 12000, "field_pair_absent_vs_present": 6000, "combine_conflicts_by_implied_txid_only": 3000,
            "memo_compactions": 5000, "memo_plaintext_len:511": 600, "memo_plaintext_len:512": 2000,
            "growth_pairs": 15000, "growth_verdicts": 120000, "growth_pair:ironwood.actions": 1200, "growth_pair:sapling.spends": 900,
            "empty_bundle_field_probes": 36, "probe_effects_verdict_stable": 36,
        },
    },
    "manifest": {
        "technique": "real role pipeline over generated PCZTs with an independent value-tree oracle (field-wise union, one-field-diff for redactions, layout-derived v1-representability), exhaustive order/grouping enumeration of Combiner inputs per case, txid recorded around every role application, extraction against really-proved samples",
        "text": "On every PCZT value produced by any role: parse(serialize(p)) compared field by field and by Debug rendering for the default, explicit v1 and explicit v2 encodings, and the chosen encoding version compared with a representability rule; Combiner results over all orders and groupings of 2-4 partial copies compared with the field-wise union, idempotence, and refusal of conflicting copies in every order; the txid implied by the effects compared before/after every Updater / IoFinalizer / Prover / Signer / Redactor / Combiner / SpendFinalizer application, against zcash_pool_migration::pczt_txid, and against the extracted transaction (whose per-bundle effect digests are compared too). Sampled inputs, exhaustive orderings per case.",
        "note": "Known on the unchanged tree (signatures in known_findings): the Combiner drops bsk when only the right-hand copy carries it; the v1 encoding turns an absent Sapling anchor into an all-zero one; an all-zero anchor on an otherwise empty bundle is read back as absent. The Constructor role (adding inputs/outputs to an existing PCZT) is not exercised, so merges of copies with different numbers of inputs/outputs are out of scope.",
    },
}
