SPEC = {
    "id": "C13",
    "package": "vh-tx",
    "bin": "c13",
    "level": "exploration",
    "rule": ("A case is one PCZT made by the real pipeline (Builder::build_for_pczt or DeferredPcztBuilder over a random balanced "
             "request with transparent P2PKH/P2SH, Sapling, Orchard and Ironwood inputs/outputs, v5 and v6, target heights NU5..NU6.3, "
             "then Creator) taken through: Updater and IoFinalizer in either order; every applicable Redactor operation on a fork; "
             "2-4 parties that each start from the IO-finalised PCZT (half of them through serialise/parse), do a random share of the "
             "Updater / Signer / Prover work in random order and strip random fields with the Redactor; the Combiner over every "
             "permutation and every bracketing of the parties' copies plus the flat fold; a conflict experiment (Updater with different "
             "values at one place, two randomised signatures for one spend, or one field altered through the serde value tree); "
             "SpendFinalizer; TransactionExtractor where proofs exist (transparent-only cases, and a sample proved with the real Sapling "
             "and Orchard provers). After every role application the PCZT is serialised/parsed/compared and its implied txid compared "
             "with the one at creation. Distinct = distinct (request shape incl. epoch, version, pools, counts, paddings; builder kind; "
             "real/mock proofs); all cases are non-trivial (each yields hundreds of role/encoding/combination verdicts, counted "
             "separately in the counters)."),
    "exhaustive_scope": "per case: all n! permutations x all Catalan(n-1) bracketings (+ flat fold) of the n<=4 party copies",
    "assumptions": [
        "ciborium::Value (dependency crate) as the generic value tree of the pub serde type pczt::v2::Pczt; the union / diff / v1-representability oracles work on that tree only",
        "v1-representability rule written from the v1 layout: tx version != 6, Ironwood bundle canonically empty, Orchard note version 2, no absent Orchard anchor/cv_net/cmx on a bundle with actions, no memo-plaintext ciphertexts, no absent Sapling anchor on a bundle with spends",
        "tx_modifiable merges bitwise as documented on pczt::common::Global (bits 0,1,7 towards 0; bit 2 towards 1)",
        "txid: zcash_primitives TxIdDigester/to_txid over into_effects() (digest correctness is C04's subject); extraction with real proofs verifies proofs and signatures with the dependency crates",
        "IoFinalizer, Signer and Prover draw from OsRng inside the library: runs are reproducible in structure, not in signature/proof bytes",
    ],
    "tiers": {
        "quick": {"shards": 9, "budget_s": 60, "extra": {}},
        "thorough": {"shards": 15, "budget_s": 1300, "extra": {}},
    },
    "floors": {
        "quick": {
            "evaluations": 250, "distinct_nontrivial": 200,
            "roundtrips": 10000, "roundtrip_encodings_checked": 10000, "encoded_as_v1": 2000, "encoded_as_v2": 2000,
            "v2_forced_by:tx-version-6": 1000, "v2_forced_by:orchard-anchor-absent": 10, "v2_forced_by:orchard-cv_net-absent": 10,
            "v2_forced_by:orchard-cmx-absent": 10, "v2_forced_by:sapling-anchor-absent": 10,
            "txid_compared_after_role": 10000, "pczt_txid_agrees": 10000,
            "txid_after:updater": 800, "txid_after:io_finalizer": 250, "txid_after:signer": 400, "txid_after:prover": 80,
            "txid_after:redactor": 3000, "txid_after:combiner": 150, "txid_after:spend_finalizer": 100,
            "redactions_checked": 3000, "redactions_effective": 1500,
            "combine_orders_and_groupings": 20000, "combine_union_agreed": 100, "combine_conflicts_refused_in_every_order": 200,
            "combine_experiments_n2": 100, "combine_experiments_n3": 100, "combine_experiments_n4": 30,
            "combine_idempotence_checked": 1000, "serde_route_conflicts": 40,
            "conflict_cases:double-signature": 30, "conflict_cases:global.proprietary": 15,
            "signed:transparent": 200, "signed:sapling": 100, "signed:orchard": 150, "signed:ironwood": 40,
            "updates:global": 300, "updates:transparent": 200, "updates:sapling": 150, "updates:orchard": 150, "updates:ironwood": 40,
            "pczts:deferred_builder": 15, "pczts:tx_v5": 100, "pczts:tx_v6": 60,
            "pczts_with:transparent": 150, "pczts_with:sapling": 100, "pczts_with:orchard": 120, "pczts_with:ironwood": 30,
            "extracted": 40, "extracted_with_real_proofs": 5, "handover_through_bytes": 200, "creator_new_probes": 7,
        },
        "thorough": {
            "evaluations": 8000, "distinct_nontrivial": 4000,
            "roundtrips": 300000, "txid_compared_after_role": 300000,
            "redactions_checked": 150000, "combine_orders_and_groupings": 600000,
            "combine_union_agreed": 3000, "combine_conflicts_refused_in_every_order": 6000,
            "combine_experiments_n4": 1500, "serde_route_conflicts": 1500,
            "signed:ironwood": 1200, "pczts:deferred_builder": 500, "pczts_with:ironwood": 1000,
            "extracted": 1200, "extracted_with_real_proofs": 100, "creator_new_probes": 7,
        },
    },
    "manifest": {
        "technique": "real role pipeline over generated PCZTs with an independent value-tree oracle (field-wise union, one-field-diff for redactions, layout-derived v1-representability), exhaustive order/grouping enumeration of Combiner inputs per case, txid recorded around every role application, extraction against really-proved samples",
        "text": "On every PCZT value produced by any role: parse(serialize(p)) compared field by field and by Debug rendering for the default, explicit v1 and explicit v2 encodings, and the chosen encoding version compared with a representability rule; Combiner results over all orders and groupings of 2-4 partial copies compared with the field-wise union, idempotence, and refusal of conflicting copies in every order; the txid implied by the effects compared before/after every Updater / IoFinalizer / Prover / Signer / Redactor / Combiner / SpendFinalizer application, against zcash_pool_migration::pczt_txid, and against the extracted transaction (whose per-bundle effect digests are compared too). Sampled inputs, exhaustive orderings per case.",
        "note": "Known on the unchanged tree (signatures in known_findings): the Combiner drops bsk when only the right-hand copy carries it; the v1 encoding turns an absent Sapling anchor into an all-zero one; an all-zero anchor on an otherwise empty bundle is read back as absent. The Constructor role (adding inputs/outputs to an existing PCZT) is not exercised, so merges of copies with different numbers of inputs/outputs are out of scope.",
    },
}
