SPEC = {
    "id": "C06",
    "package": "vh-wallet",
    "bin": "c06",
    "level": "exploration",
    "rule": ("One case = one generated wallet history (same engine as C01: fabricated chain over 1-3 pools, scans in any "
             "order/chunking incl. duplicates, tip updates, rewinds with a different continuation, anchor-retention "
             "intervals 5..37 with NU6.3 active in at least half the histories). After every wallet operation: roots of "
             "a sample of checkpoints (newest 4, oldest 2, 6 random) of each pool's tree - all of them at the end of "
             "the history - are compared with the true chain root at that height; witnesses of notes the wallet "
             "reports spendable are verified by plain hashing against true leaf and true root at the wallet's anchor; "
             "checkpoint ids added by the operation must exist in every pool; retained boundaries in the scanned range "
             "must keep a checkpoint. Signature = (pools, out-of-order?, retention bucket, #rewinds, #F1-exposing "
             "rewinds, max batch, witness/boundary/not-computable flags); non-trivial = >50 roots compared and the "
             "history scanned out of order or rewound."),
    "assumptions": [
        "true roots come from incrementalmerkletree::Frontier rolled forward leaf by leaf by the harness (dependency crate, independent of shardtree); witness verification is plain hashing with the pool's combine function",
        "cross-pool alignment is checked at creation time (ids added by an operation) and at the wallet's own anchor, because lazy per-tree pruning legitimately makes old id sets differ",
    ],
    "tiers": {
        "quick": {"shards": 16, "budget_s": 60},
        "thorough": {"shards": 16, "budget_s": 1200},
    },
    "floors": {
        "quick": {"histories": 12, "roots_checked": 4000, "witnesses_verified": 100, "cross_pool_alignment_checks": 600,
                  "retained_boundaries_checked": 200, "rewinds": 4, "distinct_nontrivial": 10,
                  "histories_starting_at_shard_boundary": 2, "histories_with_activation_inside_chain": 2, "histories_with_late_starting_pool": 2, "subtree_roots_put": 2,
                  "micro_histories_activation_inside_chain": 4, "micro_histories_late_pool_one_batch": 4, "micro_histories_deep_batch_empty_grid_blocks": 4,
                  "batches_straddling_activation_with_retention": 4, "rewinds_to_empty_tree_of_a_pool": 5},
        "thorough": {"histories": 500, "roots_checked": 200000, "witnesses_verified": 8000, "cross_pool_alignment_checks": 50000,
                     "retained_boundaries_checked": 8000, "retained_boundaries_on_blocks_without_commitments": 2000, "rewinds": 120, "distinct_nontrivial": 150,
                     "histories_starting_at_shard_boundary": 80, "histories_with_activation_inside_chain": 80, "histories_with_late_starting_pool": 80, "subtree_roots_put": 100, "subtree_chunks_beyond_first_in_batch": 50, "deep_rewinds_attempted": 5,
                     "micro_histories_activation_inside_chain": 60, "micro_histories_late_pool_one_batch": 60, "micro_histories_deep_batch_empty_grid_blocks": 60,
                     "batches_straddling_activation_with_retention": 60, "rewinds_to_empty_tree_of_a_pool": 80},
    },
    "manifest": {
        "technique": "history + reference frontier: roots of retained checkpoints and wallet-produced witnesses compared with an independently rolled frontier after every operation of generated scan/rewind histories; structural invariant hooks on checkpoint id sets",
        "text": "Tens of thousands of checkpoint roots and hundreds of witnesses per run, over out-of-order/duplicated scans, rewinds and anchor-retention grids, each compared with the true chain tree; cross-pool checkpoint alignment and retained-boundary presence checked after every operation. Held on everything executed except the listed known finding.",
        "note": "Sampled histories. A quarter of the histories start just below a 2^16 subtree boundary (random prior frontier + prior subtree roots) so that shards complete and true subtree roots are inserted; a quarter activate NU6.3 inside the scanned chain; some let a pool receive its first commitment late and rewind below it; deep rewinds (100-300 blocks) are attempted now and then. Every shard first runs short directed histories: NU6.3 activating strictly inside a scan batch under a dense retention grid over mostly empty blocks, a late-starting pool scanned in one batch, rewound to its empty tree and continued on a different chain, and one batch deeper than the pruning window in which exactly the retention-grid blocks carry no commitments. After a complete scan a retained checkpoint whose root still cannot be computed is a violation. Known finding F1 (dependency shardtree 0.7.0 keeps stale annotations on truncation) is recognised by its trigger predicate and reported as KNOWN-FINDING.",
    },
}


def run(tier, seed, fold):
    import driver
    driver.standard_run(SPEC, tier, seed, fold)
    if tier == "thorough":
        # ThreadSanitizer over the histories (dense ones take the parallel subtree-building path)
        driver.sanitizer_run(SPEC, "tsan", tier, seed, fold, shards=8, budget_s=420,
                             per_shard_env=lambda i: {"RAYON_NUM_THREADS": str([2, 4, 16, 8][i % 4])})
