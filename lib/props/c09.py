SPEC = {
    "id": "C09",
    "package": "vh-pure",
    "bin": "c09",
    "level": "exploration",
    "rule": ("Every public constructor/parser/operator of Zatoshis and ZatBalance is called on (a) the whole boundary "
             "lattice L (0, +-1, +-2, +-(M-2..M+2), M/2, i64/u64 extremes, 2^k+-1 for k in 31,32,53,62, 2M+-1) and on "
             "all pairs L x L (exhaustive), and (b) random tuples; the oracle is exact i128 arithmetic. A case is "
             "distinct by (operand pair) on the lattice and by (sign, range class, magnitude bucket of both operands, "
             "sum length) for random tuples; all are non-trivial (every call has a verdict)."),
    "exhaustive_scope": "boundary lattice L and L x L for every operator; random tuples elsewhere are sampled",
    "assumptions": ["64-bit target (usize == u64)", "i128 arithmetic of rustc as exact-integer reference"],
    "tiers": {
        "quick": {"shards": 4, "budget_s": 40},
        "thorough": {"shards": 16, "budget_s": 240},
    },
    "floors": {
        "quick": {"long_sums": 100, "long_sums_with_exact_total_beyond_u64": 50, "evaluations": 1_000_000, "lattice_pairs": 3000, "distinct_nontrivial": 3000},
        "thorough": {"evaluations": 100_000_000, "lattice_pairs": 3000, "distinct_nontrivial": 3000},
    },
    "manifest": {
        "technique": "boundary-lattice enumeration + random differential testing against exact i128 arithmetic, panics caught per call; also run in a wrap-silently (overflow-checks off) build",
        "text": "Every public operation on Zatoshis/ZatBalance is executed on all pairs of a 56-point boundary lattice and on millions of random tuples and compared with exact integer arithmetic; held on everything executed. Exhaustive on the lattice, sampled elsewhere.",
        "note": "Trusted: rustc i128 arithmetic as the exact reference; 64-bit usize. Not a proof for values outside the lattice and the random sample.",
    },
}


def run(tier, seed, fold):
    import driver
    # 1) monitoring build: overflow checks + debug assertions armed (a wrap becomes a caught panic)
    driver.standard_run(SPEC, tier, seed, fold, tag="checked")
    # 2) plain build: what a release user runs; a wrap can only be observed as a wrong value here
    driver.standard_run(SPEC, tier, seed, fold, tag="plain", profile="plain")
    fold.count("build_profiles_exercised", 2)
    if tier == "thorough":
        # 3) Miri: undefined behaviour / invalid values / overflow in everything the value API reaches
        driver.miri_run("C09", "value", seed, fold, procs=12, ops=800)
