import os

SPEC = {
    "id": "C11",
    "package": "vh-pure",
    "bin": "c11",
    "level": "exploration",
    "events": True,
    "rule": ("A case is one check on one generated tuple: (seed of 32/64 (some other) bytes, ZIP 32 account incl. 0 and "
             "2^31-1, network, key-component subset among the 6 with a shielded item, diversifier index incl. 0, "
             "indices invalid for Sapling, >= 2^31 (invalid for transparent), 2^32 and the top of the 88-bit space, "
             "request among AllAvailableKeys and all 27 Require/Allow/Omit triples). Checks: USK components and "
             "bytes, UFVK/UIVK strings, address(j, request) at every level against an independent derivation + "
             "request model, find_address / decrypt_diversifiers, BIP 44 external/internal/ephemeral keys and "
             "gap-limit address lists, legacy Sapling/transparent encodings, note encryption to the derived address "
             "(Sapling, Orchard, Ironwood domains) decrypted under matching / other-scope / unrelated IVKs. Distinct by "
             "(check, network, subset, request triple, index class (valid for Sapling?, valid for transparent?), "
             "model verdict). All non-trivial: every case is compared with an independently computed expectation."),
    "assumptions": [
        "dependency crates secp256k1 (curve arithmetic), sapling-crypto and orchard (ZIP 32 shielded derivation, "
        "note encryption), sha2/ripemd are correct; BIP 32/44 itself is re-implemented in the harness",
        "the request semantics model follows the documentation of ReceiverRequirement (Require fails when the key or "
        "the receiver at that index is missing, Allow includes when possible, Omit never includes)",
        "key equality (==) after a round trip is not demanded, only equal bytes and equal derived addresses "
        "(UnifiedIncomingViewingKey == compares BIP 32 metadata the encoding does not carry; counted as a diagnostic)",
        "lib/pyref zip316/bech32/base58 (validated against the official vectors) for the UFVK/UIVK/UA/key strings",
        "component subsets stand in for feature-dependent key subsets (features are fixed at compile time: all on)",
    ],
    "tiers": {
        "quick": {"shards": 8, "budget_s": 30, "extra": {"max-events": 4000}},
        "thorough": {"shards": 16, "budget_s": 600},
    },
    "floors": {
        "quick": {"bip32_malformed_paths_checked": 5000, "requirement_intersections_checked": 9, "request_intersections_checked": 500, 
            "evaluations": 8_400, "distinct_nontrivial": 500, "accounts": 350,
            "accounts_net_main": 100, "accounts_net_test": 100, "accounts_net_regtest": 100,
            "usk_bytes_roundtrips": 350, "usk_permuted_item_order_decoded": 350,
            "ufvk_roundtrips": 900, "uivk_roundtrips": 900,
            "subset_t1s1o1": 350, "subset_t0s1o1": 80, "subset_t1s1o0": 80, "subset_t1s0o1": 80,
            "subset_t0s1o0": 80, "subset_t0s0o1": 80,
            "addresses_matching_model": 2_100, "address_requests_refused_as_modelled": 2_800,
            "requests_without_shielded_refused": 480,
            "indices_invalid_for_sapling": 2_450, "indices_invalid_for_transparent": 2_450,
            "find_address_hits": 1_400, "find_address_skipped_invalid_sapling_indices": 280,
            "diversifier_indices_recovered": 2_100, "foreign_addresses_not_recognised": 630,
            "bip44_derivations_external": 420, "bip44_derivations_internal": 420, "bip44_derivations_ephemeral": 420,
            "gap_list_addresses_checked": 3_500,
            "legacy_extsk_roundtrips": 350, "legacy_extfvk_roundtrips": 350, "legacy_payment_address_roundtrips": 310,
            "legacy_transparent_address_roundtrips": 700, "transparent_secret_key_roundtrips": 700,
            "sapling_notes_decrypted_by_matching_scope_only": 280, "sapling_internal_notes_hidden_from_uivk": 280,
            "orchard_notes_decrypted_by_matching_scope_only": 480, "ironwood_notes_decrypted_by_matching_scope_only": 480,
            "py_checked_container_strings": 1_400, "py_checked_encoder_strings": 2_100,
            "py_checked_bech32_key_strings": 840, "py_checked_base58_key_strings": 560,
            "pyref_selftest_vectors": 100,
        },
        "thorough": {
            "evaluations": 200_000, "distinct_nontrivial": 600, "accounts": 8_000,
            "accounts_net_main": 2_500, "accounts_net_test": 2_500, "accounts_net_regtest": 2_500,
            "usk_bytes_roundtrips": 8_000, "ufvk_roundtrips": 20_000, "uivk_roundtrips": 20_000,
            "subset_t1s1o1": 8_000, "subset_t0s1o1": 2_000, "subset_t1s1o0": 2_000, "subset_t1s0o1": 2_000,
            "subset_t0s1o0": 2_000, "subset_t0s0o1": 2_000,
            "addresses_matching_model": 50_000, "address_requests_refused_as_modelled": 65_000,
            "indices_invalid_for_sapling": 50_000, "indices_invalid_for_transparent": 50_000,
            "find_address_hits": 30_000, "find_address_skipped_invalid_sapling_indices": 6_000,
            "diversifier_indices_recovered": 50_000, "foreign_addresses_not_recognised": 15_000,
            "bip44_derivations_external": 10_000, "bip44_derivations_internal": 10_000, "bip44_derivations_ephemeral": 10_000,
            "gap_list_addresses_checked": 80_000,
            "legacy_extsk_roundtrips": 8_000, "legacy_extfvk_roundtrips": 8_000, "transparent_secret_key_roundtrips": 16_000,
            "sapling_notes_decrypted_by_matching_scope_only": 7_000, "sapling_internal_notes_hidden_from_uivk": 7_000,
            "orchard_notes_decrypted_by_matching_scope_only": 12_000, "ironwood_notes_decrypted_by_matching_scope_only": 12_000,
            "py_checked_container_strings": 40_000, "py_checked_encoder_strings": 70_000,
            "pyref_selftest_vectors": 100,
        },
    },
    "manifest": {
        "technique": ("differential testing of the real key/address API against independent derivations (BIP 32/44 "
                      "re-implemented on secp256k1; ZIP 32 shielded keys through the dependency crates directly; a "
                      "model of the receiver-request semantics), round-trip invariants of every key encoding, trial "
                      "decryption of notes sent to derived addresses under matching, other-scope and unrelated viewing "
                      "keys, and a Python ZIP 316 reference re-parsing every UFVK/UIVK/UA/key string from an event log"),
        "text": ("For >10^3 random (seed, account, network) accounts and >10^4 (index, request, subset) tuples the unified "
                 "spending/viewing keys, their encodings, the addresses derived at every level, index recovery, BIP 44 "
                 "derivations at the three scopes, gap-limit address lists, legacy encodings and note decryption in the "
                 "Sapling, Orchard and Ironwood domains are executed and compared with independently computed expectations."),
        "note": ("Sampled. Trusted: secp256k1, sapling-crypto, orchard, zcash_note_encryption (dependencies, not part of "
                 "/repo); the harness's own BIP 32 and request model; pyref modules. Feature subsets are emulated by "
                 "component subsets (one build, all features on). Only one USK era (Orchard) exists in this tree."),
    },
}


def post(shards, fold, tier, seed):
    import driver
    from pyref import base58, bech32, c10_oracle, zip316
    try:
        n = bech32.selftest() + base58.selftest() + zip316.selftest("/repo")
    except Exception as e:  # noqa: BLE001 - an oracle bug, not a finding
        fold.broken.append("python reference self-test failed (oracle bug, not a finding): %r" % (e,))
        return
    fold.count("pyref_selftest_vectors", n)
    res = c10_oracle.run_pool([s.events_path for s in shards if s.events_path and os.path.exists(s.events_path)],
                              "C11", workers=min(16, driver.NCPU))
    for k, v in res["counters"].items():
        fold.count(k, v)
    for sig, detail, replay in res["violations"]:
        fold.violation(sig, [{"detail": detail, "replay": replay}])
