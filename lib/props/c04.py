import json
import os

# Denominator of the field-coverage figure: effecting / authorising field names per version, from the
# specification layout (mirrors wire::mutable_field_names of the Rust harness; cross-checked below).
_T = ["lock_time", "vin.prevout_hash", "vin.prevout_n", "vin.script_sig", "vin.sequence", "vout.value", "vout.script"]
_JS = ["js.vpub_old", "js.vpub_new", "js.anchor", "js.nullifiers", "js.commitments", "js.ephemeral_key", "js.random_seed",
       "js.macs", "js.proof", "js.ciphertexts", "joinsplit_pubkey", "joinsplit_sig"]
_SAP = ["sapling.value_balance", "sapling.spend.cv", "sapling.spend.nf", "sapling.spend.rk", "sapling.spend.proof",
        "sapling.spend.auth_sig", "sapling.output.cv", "sapling.output.cmu", "sapling.output.epk", "sapling.output.enc",
        "sapling.output.out", "sapling.output.proof", "sapling.binding_sig"]


def _orch(p):
    return [p + x for x in (".action.cv", ".action.nf", ".action.rk", ".action.cmx", ".action.epk", ".action.enc", ".action.out",
                            ".flags", ".value_balance", ".anchor", ".proof", ".spend_auth_sig", ".binding_sig")]


FIELDS = {
    "v1": _T,
    "v2": _T + _JS,
    "v2hi": _T + _JS,
    "v3": _T + ["expiry_height"] + _JS,
    "v4": _T + ["expiry_height"] + _JS + _SAP + ["sapling.spend.anchor"],
    "v5": _T + ["expiry_height", "consensus_branch_id"] + _SAP + ["sapling.anchor"] + _orch("orchard"),
    "v6": _T + ["expiry_height", "consensus_branch_id"] + _SAP + ["sapling.anchor"] + _orch("orchard") + _orch("ironwood"),
}

SPEC = {
    "id": "C04",
    "package": "vh-pure",
    "bin": "c04",
    "level": "exploration",
    "events": True,
    "rule": ("Transactions of every (version, branch) pair (v5/v6 over-weighted), composed from arb_tx material into small aimed "
             "shapes (mixed, transparent-only, coinbase, no transparent inputs, Sapling spends-only/outputs-only, empty, SINGLE "
             "with input index >= number of outputs) plus normalised arb_tx values themselves; random coins (value, scriptPubKey) "
             "from a harness-defined TransparentAuthorizingContext. Observed per transaction: txid, auth commitment, shielded "
             "signature hash and transparent signature hashes for up to 5 inputs x 6 hash types. Every effecting/authorising field "
             "name present is mutated once (bit flip / donor point / other in-range amount / valid flag / other branch id / script "
             "replacement), plus both coin components of one input, plus up to 4 structural edits (element or bundle dropped / added); "
             "each mutant is re-parsed by the real reader and all digests are recomputed. Signature: (kind, version, bundle bitmap, "
             "field or structure or coin component, coinbase/no-inputs flag) resp. (version, branch, bitmap, #in, #out, flags) for "
             "the observation itself. Non-trivial: a transaction with at least one bundle; every accepted mutant."),
    "assumptions": [
        "Python hashlib BLAKE2b/SHA-256 as hash references",
        "lib/pyref/zip244.py validated against the ZIP 244 (10) and ZIP 143/243 (20) vectors shipped in zcash_primitives/src/transaction/tests/data.rs",
        "v6 digests: no independent reference exists; only the effecting/authorising mutation matrix is claimed (anchors authorising, Ironwood bundle effecting)",
        "v3/v4 signature hashes: mutation matrix with the ZIP 143/243 coverage rules; agreement with the Python ZIP 143/243 implementation is recorded as a diagnostic only",
        "Orchard/Ironwood bundle commitments are computed by the orchard dependency crate",
    ],
    "tiers": {
        "quick": {"shards": 12, "budget_s": 45, "extra": {"n-events": 320, "max-cases": 4000}},
        "thorough": {"shards": 16, "budget_s": 600, "extra": {"n-events": 2600, "max-cases": 60000}},
    },
    "floors": {
        "quick": {"parses_through_short_read_reader": 5000, 
            # time-budgeted on a shared machine: floors are ~1/3 of what a quiet 16-core run observes
            "evaluations": 600_000, "distinct_nontrivial": 1500,
            "tx_v5": 1200, "tx_v6": 800, "tx_v4": 700, "tx_v3": 250, "tx_v1": 80, "tx_v2": 80, "tx_v2hi": 80,
            "field_mutations": 50_000, "authorising_field_mutations": 10_000, "coin_mutations": 4000, "structure_mutations": 8000,
            "sighash_must_change_checks": 300_000, "sighash_exclusion_checks": 120_000, "hash_type_distinctness_checks": 3000,
            "coinbase_cases": 250, "single_index_beyond_outputs_cases": 900, "v5plus_without_transparent_inputs": 500,
            "branch_personalisation_checks": 800, "arb_tx_cases": 24,
            "py_v5_tx_checked": 800, "py_v5_sighashes_checked": 6000, "py_pre_v5_txid_checked": 300, "py_v5_coinbase_checked": 40,
            "py_v5_single_out_of_range_checked": 400, "py_zip244_vectors_validated": 10,
            "field_coverage_pct_min": 100,
        },
        "thorough": {
            "evaluations": 10_000_000, "distinct_nontrivial": 2200,
            "tx_v5": 15_000, "tx_v6": 10_000, "tx_v4": 9000, "tx_v3": 3000, "tx_v1": 1000, "tx_v2": 1000, "tx_v2hi": 1000,
            "field_mutations": 800_000, "authorising_field_mutations": 150_000, "coin_mutations": 60_000, "structure_mutations": 120_000,
            "sighash_must_change_checks": 5_000_000, "sighash_exclusion_checks": 2_000_000, "hash_type_distinctness_checks": 50_000,
            "coinbase_cases": 4000, "single_index_beyond_outputs_cases": 15_000, "v5plus_without_transparent_inputs": 8000,
            "branch_personalisation_checks": 12_000, "arb_tx_cases": 300,
            "py_v5_tx_checked": 8000, "py_v5_sighashes_checked": 80_000, "py_pre_v5_txid_checked": 3000, "py_v5_coinbase_checked": 400,
            "py_v5_single_out_of_range_checked": 4000, "py_zip244_vectors_validated": 10, "field_coverage_pct_min": 100,
        },
    },
    "manifest": {
        "technique": "independent ZIP 244 / sha256d re-computation (Python) of every observed digest + in-process metamorphic field matrix (effecting vs authorising vs excluded) on re-parsed mutants, coins supplied by a harness-defined TransparentAuthorizingContext",
        "text": ("txid, auth commitment and all signature hashes (shielded; transparent inputs x ALL/NONE/SINGLE x ANYONECANPAY) of "
                 "thousands of generated v5 transactions are recomputed from the bytes by an independent ZIP 244 implementation "
                 "(validated on the shipped vectors); v1-v4 txids against sha256d; every field of every version (incl. v6: anchors "
                 "authorising, Ironwood effecting) is mutated and the expected change/no-change matrix over txid, auth commitment "
                 "and each hash type is enforced, as is commitment to coin value, coin script, hash type and (v3/v4) branch id."),
        "note": "Held on everything executed; sampled. No independent v6 digest reference (mutation matrix only).",
    },
}

HT = {1: "ALL", 2: "NONE", 3: "SINGLE", 0x81: "ALL|ANYONECANPAY", 0x82: "NONE|ANYONECANPAY", 0x83: "SINGLE|ANYONECANPAY"}


def _bundles(tx):
    s = ""
    s += "T" if (tx.vin or tx.vout) else "-"
    s += "S" if (tx.spends or tx.outputs) else "-"
    s += "O" if tx.orchard else "-"
    return s


def _check_events(path):
    import sys
    sys.path.insert(0, os.path.dirname(os.path.dirname(os.path.abspath(__file__))))
    from pyref import txlayout, zip244
    out = {"counts": {}, "viol": {}, "broken": [], "notes": []}

    def cnt(k, n=1):
        out["counts"][k] = out["counts"].get(k, 0) + n

    def viol(sig, detail, ev, extra=None):
        e = out["viol"].setdefault(sig, {"count": 0, "examples": []})
        e["count"] += 1
        if len(e["examples"]) < 3:
            rp = {"tx_hex": ev["hex"][:60000], "branch": ev["branch"], "coins": ev["coins"]}
            if extra:
                rp.update(extra)
            e["examples"].append({"detail": detail, "replay": rp})
        cnt("py_violations")

    if not path or not os.path.exists(path):
        out["broken"].append("event log missing: %s" % path)
        return out
    for line in open(path):
        ev = json.loads(line)
        raw = bytes.fromhex(ev["hex"])
        try:
            tx = txlayout.parse_tx(raw)
        except txlayout.LayoutError as e:
            out["broken"].append("python layout rejects a logged transaction (%s): %s" % (ev["ver"], e))
            continue
        if tx.consumed != len(raw):
            out["broken"].append("python layout length mismatch on a logged %s transaction" % ev["ver"])
            continue
        coins = [(v, bytes.fromhex(s)) for v, s in ev["coins"]]
        if tx.version <= 4:
            cnt("py_pre_v5_txid_checked")
            if txlayout.sha256d(raw).hex() != ev["txid"]:
                viol("C04:%s:txid-not-sha256d:py" % ev["ver"], "txid() != sha256d(serialisation)", ev)
            if tx.version in (3, 4) and ev["shielded"] is not None:
                # diagnostic only: ZIP 143/243 reference (no claim in the property statement)
                bad = 0
                if zip244.sighash_v34(tx, ev["branch_id"], 1, None).hex() != ev["shielded"]:
                    bad += 1
                for i, ht, h in ev["t"]:
                    v, s = coins[i]
                    if zip244.sighash_v34(tx, ev["branch_id"], ht, i, s, v).hex() != h:
                        bad += 1
                cnt("py_v34_sighashes_compared_diagnostic", 1 + len(ev["t"]))
                if bad:
                    cnt("py_v34_sighash_reference_mismatch_diagnostic", bad)
                    out["notes"].append("diagnostic: %d v%d signature hashes differ from the Python ZIP 143/243 reference" % (bad, tx.version))
            continue
        if tx.version == 6:
            cnt("py_v6_seen_no_reference")
            continue
        cnt("py_v5_tx_checked")
        shape = _bundles(tx)
        if zip244.txid(tx).hex() != ev["txid"]:
            viol("C04:v5:txid-differs-from-zip244:bundles=%s" % shape, "Transaction::txid() differs from the ZIP 244 reference", ev,
                 {"reference_txid": zip244.txid(tx).hex(), "observed": ev["txid"]})
        if zip244.auth_digest(tx).hex() != ev["auth"]:
            viol("C04:v5:auth-commitment-differs-from-zip244:bundles=%s" % shape, "auth_commitment() differs from the ZIP 244 reference", ev,
                 {"reference": zip244.auth_digest(tx).hex(), "observed": ev["auth"]})
        special = tx.is_coinbase() or not tx.vin
        kind = "coinbase" if tx.is_coinbase() else ("no-transparent-inputs" if not tx.vin else "with-inputs")
        if tx.is_coinbase():
            cnt("py_v5_coinbase_checked")
        ref = zip244.signature_digest(tx, coins).hex()
        cnt("py_v5_sighashes_checked")
        if ref != ev["shielded"]:
            viol("C04:v5:sighash-differs-from-zip244:shielded:%s:bundles=%s" % (kind, shape), "shielded signature hash differs from the ZIP 244 reference", ev,
                 {"reference": ref, "observed": ev["shielded"]})
        for i, ht, h in ev["t"]:
            ref = zip244.signature_digest(tx, coins, ht, i).hex()
            cnt("py_v5_sighashes_checked")
            oob = (ht & 0x1F) == 3 and i >= len(tx.vout)
            if oob and not special:
                cnt("py_v5_single_out_of_range_checked")
            if ref != h:
                viol("C04:v5:sighash-differs-from-zip244:%s:%s%s" % (HT[ht], kind, ":index>=outputs" if oob else ""),
                     "signature hash of transparent input %d with hash type %s differs from the ZIP 244 reference" % (i, HT[ht]), ev,
                     {"input": i, "hash_type": ht, "reference": ref, "observed": h})
    return out


def post(shards, fold, tier, seed):
    import multiprocessing as mp
    import sys
    sys.path.insert(0, os.path.dirname(os.path.dirname(os.path.abspath(__file__))))
    import driver
    from pyref import zip244
    # a disagreement with the shipped vectors is a bug in the oracle: fail the check, not the property
    try:
        st = zip244.selftest(driver.REPO)
        fold.count("py_zip244_vectors_validated", st["zip244_vectors"])
        fold.count("py_zip143_243_vectors_validated", st["zip143_243_vectors"])
    except Exception as e:  # noqa
        fold.broken.append("zip244.py selftest against the shipped vectors failed: %r" % (e,))
        return
    paths = [s.events_path for s in shards if s.events_path]
    with mp.get_context("fork").Pool(min(len(paths), 12) or 1) as pool:
        results = pool.map(_check_events, paths)
    for r in results:
        for k, v in r["counts"].items():
            fold.count(k, v)
        for sig, e in r["viol"].items():
            fold.violation(sig, e["examples"], e["count"])
        for b in r["broken"]:
            if b not in fold.broken:
                fold.broken.append(b)
        for n in r["notes"]:
            if n not in fold.notes and len(fold.notes) < 50:
                fold.notes.append(n)
    # field coverage per version: fm:<ver>:<field> counters -> covered/total
    seen = {}
    for k in list(fold.counters):
        if k.startswith("fm:"):
            _, v, name = k.split(":", 2)
            seen.setdefault(v, set()).add(name)
            del fold.counters[k]
    worst = 100
    for v, names in sorted(FIELDS.items()):
        total = set(names)
        got = seen.get(v, set())
        unknown = got - total
        if unknown:
            fold.broken.append("field names mutated by the harness but unknown to the layout catalogue for %s: %s" % (v, sorted(unknown)))
        cov = len(got & total)
        fold.counters["fields_covered_%s" % v] = cov
        fold.counters["fields_total_%s" % v] = len(total)
        pct = (100 * cov) // len(total)
        worst = min(worst, pct)
        missing = sorted(total - got)
        if missing:
            fold.notes.append("fields never mutated for %s: %s" % (v, ", ".join(missing)))
    fold.counters["field_coverage_pct_min"] = worst
