import os

SPEC = {
    "id": "C10",
    "package": "vh-pure",
    "bin": "c10",
    "level": "exploration",
    "events": True,
    "rule": ("Cases: (a) address values of every kind x network (repo strategy arb_address, boundary payloads, "
             "unified addresses / UFVKs / UIVKs hand-built from arbitrary known + unknown items incl. rule-breaking "
             "item sets) encoded and parsed back; (p) strings *encoded by the Python reference*, well-formed and "
             "malformed in exactly one way (120+ classes: padding, order, duplicates, P2PKH+P2SH, transparent-only, "
             "item lengths, compactSize, checksum variant, prefix, 5-bit padding, case, whitespace, length bounds) "
             "with the reference verdict; (c) random edits of valid strings; (e) arbitrary Unicode / long strings; "
             "(d) F4Jumble on lengths dense at both ends of 48..4194368, at the structural boundaries and "
             "log-uniform in between; (f) zcash_keys typed addresses derived from random seeds. A case is distinct by "
             "(section, kind, network, item shape = typecode/length compactSize classes, origin) for values, by "
             "(class, api, verdict) for Python cases, by (api, edit kind, verdict) for edits, by length for F4Jumble. "
             "Every case is non-trivial: each has a verdict from an oracle that shares no code with /repo."),
    "assumptions": [
        "python3 hashlib (blake2b with personalisation, sha256) is correct",
        "lib/pyref {bech32,base58,f4jumble,zip316}.py reproduce the BIP 173/350, Base58Check, ZIP 316 vectors shipped in /repo (checked at the start of every run; failure = broken check)",
        "an unknown typecode counts as a possibly-shielded item (as in the repository's own arb_shielded_typecode); containers accepted on that reading alone are counted, not flagged",
        "'trimmed' means Unicode White_Space removed at both ends (Rust str::trim)",
        "Unknown{typecode} values whose typecode is 0..3 or > 0x2000000 are not 'unknown receivers' in the sense of the statement (diagnostic counter only)",
    ],
    "tiers": {
        "quick": {"shards": 8, "budget_s": 30},
        "thorough": {"shards": 16, "budget_s": 600},
    },
    "floors": {
        "quick": {
            "evaluations": 150_000, "distinct_nontrivial": 3_000,
            "value_roundtrips_sprout": 1000, "value_roundtrips_sapling": 1000, "value_roundtrips_p2pkh": 1000,
            "value_roundtrips_p2sh": 1000, "value_roundtrips_tex": 1000, "value_roundtrips_unified": 3000,
            "value_roundtrips_net_main": 3000, "value_roundtrips_net_test": 3000, "value_roundtrips_net_regtest": 3000,
            "container_roundtrips_ufvk": 1500, "container_roundtrips_uivk": 1500, "unknown_items_preserved": 3000,
            "try_from_items_refused_duplicate": 500, "try_from_items_refused_p2pkh+p2sh": 200,
            "try_from_items_refused_transparent-only": 500,
            "py_cases": 10_000, "py_cases_accepted_as_expected": 700, "py_cases_rejected_as_expected": 9_000,
            "py_case_classes_generated": 115,
            "py_class_family_padding": 8, "py_class_family_ordering": 8, "py_class_family_duplicates": 8,
            "py_class_family_p2pkh_p2sh": 8, "py_class_family_transparent_only": 8, "py_class_family_item_length": 8,
            "py_class_family_compactsize": 8, "py_class_family_checksum_variant": 8, "py_class_family_wrong_prefix": 8,
            "mutants_rejected": 50_000, "mutants_accepted": 3_000, "fuzz_strings": 30_000, "long_strings": 100,
            "accepted_strings_reencoded": 10_000,
            "f4_lengths_checked": 3_000, "f4_min_length_checked": 1, "f4_max_length_checked": 1,
            "f4_invalid_lengths_rejected": 100, "max_f4_length": 4194368, "f4_class_1M__max": 40,
            "f4_class_48__127_l_L_64_": 200, "f4_class_128__191": 100, "large_containers_tried": 3,
            "typed_roundtrips_unified": 400, "typed_roundtrips_sapling": 200, "typed_roundtrips_tex": 200,
            "typed_unknown_items_preserved": 400,
            "py_checked_encoder_strings": 8_000, "py_checked_container_strings": 3_000,
            "py_checked_parser_verdicts": 20_000, "py_checked_f4jumble_outputs": 800,
            "py_checked_f4jumble_outputs_1M_or_longer": 8, "pyref_selftest_vectors": 100,
        },
        "thorough": {
            "evaluations": 3_000_000, "distinct_nontrivial": 10_000,
            "value_roundtrips_unified": 100_000, "container_roundtrips_ufvk": 50_000, "container_roundtrips_uivk": 50_000,
            "py_cases": 100_000, "py_cases_accepted_as_expected": 7_000, "py_cases_rejected_as_expected": 90_000,
            "py_case_classes_generated": 117, "mutants_rejected": 1_000_000, "fuzz_strings": 500_000,
            "f4_lengths_checked": 100_000, "f4_min_length_checked": 1, "f4_max_length_checked": 1, "max_f4_length": 4194368,
            "f4_class_1M__max": 1_000, "large_containers_tried": 3,
            "typed_roundtrips_unified": 20_000,
            "py_checked_encoder_strings": 100_000, "py_checked_container_strings": 50_000,
            "py_checked_parser_verdicts": 300_000, "py_checked_f4jumble_outputs": 10_000,
            "py_checked_f4jumble_outputs_1M_or_longer": 100, "pyref_selftest_vectors": 100,
        },
    },
    "manifest": {
        "technique": ("differential testing of the real address/unified-container parsers and encoders and of F4Jumble "
                      "against independent Python re-implementations of Bech32/Bech32m, Base58Check, F4Jumble and ZIP 316 "
                      "(two-way: Rust-encoded strings decoded by Python over an event log; Python-encoded well-formed and "
                      "malformed strings fed to Rust), round-trip / canonical-form / network-guard invariants at the API "
                      "boundary, random string edits and Unicode fuzzing with panics caught per call"),
        "text": ("Every address kind on every network, hand-built unified addresses/UFVKs/UIVKs with arbitrary known and "
                 "unknown items, >10^4 Python-encoded strings in 120+ well-formed/malformed classes, >10^5 edited and "
                 "random strings and thousands of F4Jumble lengths (both ends of the valid range included) are executed "
                 "against the real code; accept/reject verdicts, parsed items, canonical re-encoding and F4Jumble outputs "
                 "are compared with reference implementations written from the specifications."),
        "note": ("Sampled, not exhaustive. Trusted: python hashlib; the reference modules (validated against the official "
                 "vectors at the start of each run). Unknown typecodes count as possibly-shielded. No Miri shard (no "
                 "vh-miri package in this workspace). Strings longer than 16 KiB made only of Base58 characters are "
                 "avoided: the parser's Base58 fallback is quadratic (1 MiB takes ~10 min)."),
    },
}


def run(tier, seed, fold):
    import driver
    from pyref import base58, bech32, c10_cases, c10_oracle, f4jumble, zip316

    # 1. the reference oracles must reproduce the official vectors; otherwise the check is broken
    try:
        n = (bech32.selftest() + base58.selftest() + f4jumble.selftest("/repo", long_vectors=True)
             + zip316.selftest("/repo"))
    except Exception as e:  # noqa: BLE001 - any failure here is an oracle bug, not a finding
        fold.broken.append("python reference self-test failed (oracle bug, not a finding): %r" % (e,))
        return
    fold.count("pyref_selftest_vectors", n)

    # 2. python-encoded cases (seeded)
    d = os.path.join(driver.RUNS, "C10")
    os.makedirs(d, exist_ok=True)
    cases = os.path.join(d, "cases-%s-seed%d.jsonl" % (tier, seed))
    st = c10_cases.generate(seed, tier, cases)
    fold.count("py_cases_generated", st["cases"])
    fold.count("py_case_classes_generated", st["classes"])

    # 3. the shards
    shards = driver.standard_run(SPEC, tier, seed, fold, run_kw={"per_shard_extra": lambda i: {"cases": cases}})

    # 4. python oracle over the event logs
    res = c10_oracle.run_pool([s.events_path for s in shards if s.events_path and os.path.exists(s.events_path)],
                              "C10", workers=min(16, driver.NCPU))
    for k, v in res["counters"].items():
        fold.count(k, v)
    for sig, detail, replay in res["violations"]:
        fold.violation(sig, [{"detail": detail, "replay": replay}])
    if tier == "thorough":
        # Miri over address parsing / encoding and F4Jumble (small lengths)
        driver.miri_run("C10", "address", seed, fold, procs=12, ops=150)
