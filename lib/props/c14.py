SPEC = {
    "id": "C14",
    "package": "vh-tx",
    "bin": "c14",
    "level": "exploration",
    "events": True,
    "rule": ("A case is one transaction request (0-4 inputs/outputs per pool among transparent P2PKH / m-of-n P2SH multisig / null-data, "
             "Sapling, Orchard, Ironwood; boundary values; memos; recipients and senders from three accounts whose keys the "
             "harness owns; P2SH coins from eleven multisig fixtures (ZIP 48 sortedmulti 2-of-3 and plain multi() 1..3-of-2..4 with ascending, descending and shuffled key order), signed by exactly m or more keys in random signing order; a target height from a menu straddling every upgrade from Heartwood to NU6.3; optional explicit "
             "version V3-V6; per-pool anchors on/off; Orchard/Ironwood padding policy; standard, parameterised and fixed fee "
             "rule) funded against the builder's own get_fee so that inputs - outputs - fee is -1, 0, +1 or far off, and run "
             "through one of: build with mock Sapling provers, mock_build, build_for_pczt (+Creator, IoFinalizer, Signer, "
             "SpendFinalizer), DeferredPcztBuilder, build with the real Sapling and Orchard provers. Distinct = distinct "
             "(path, epoch, version, anchors, paddings, per-pool input/output kinds and counts, fee-rule class, sign of the "
             "imbalance); non-trivial = the request reached build (was not refused while adding inputs/outputs)."),
    "assumptions": [
        "sapling-crypto / orchard / zcash_note_encryption (dependency crates) are the reference for note encryption, trial decryption, nullifier derivation and proof/binding-signature verification",
        "secp256k1 (libsecp256k1 binding) is the reference for ECDSA verification; sha2 + ripemd for HASH160",
        "every transparent input (direct builds, spend-finalised PCZTs and transactions extracted from transparent-only PCZTs) is additionally run through the zcash_script 0.4.3 interpreter (scriptSig + scriptPubKey of the coin, all verification flags) with the library sighash as callback",
        "signatures are verified under zcash_primitives' v4/v5/v6 signature hash; for v4 and v5 transactions built directly, that digest is additionally recomputed from the wire bytes and the coins by lib/pyref/zip244.py (ZIP 244 / ZIP 243 written from the ZIP texts, self-tested against the vectors shipped in the repository); v6 digests have no independent reference here (C04's subject)",
        "fee for the final shape: ZIP 317 formula re-implemented in the oracle with the rule's parameters; a P2PKH input counts ZIP 317's standard 150 bytes and an m-of-n P2SH multisig input its documented upper bound (36 + CompactSize + 1 + 74 m + push of the (3 + 34 n)-byte redeem script + 4), outputs their serialised size, actions/spends/outputs are counted in the wire form of the built transaction (or in the PCZT's effects)",
        "Merkle paths are produced by a naive depth-32 tree in the harness from incrementalmerkletree's Hashable implementations",
        "real-prover sample: Sapling parameters bundled in zcash_proofs, Orchard proving keys built in-process",
    ],
    "tiers": {
        "quick": {"shards": 9, "budget_s": 55, "extra": {}},
        "thorough": {"shards": 15, "budget_s": 1300, "extra": {}},
    },
    "floors": {
        "quick": {
            "evaluations": 800, "distinct_nontrivial": 650, "builds_ok": 400, "builds_ok:build": 100,
            "builds_ok:mock_build": 30, "builds_ok:build_for_pczt": 200, "builds_ok:deferred_pczt": 10, "builds_ok:build-proved": 4,
            "unbalanced_refused": 200, "refused_at_fee_minus_1": 30, "refused_at_fee_plus_1": 30, "version_refused": 5,
            "refused:propose_version:TargetIncompatible(None)": 10, "outputs_decrypted_by_recipient": 350, "padding_outputs_seen": 300, "pczt_padding_spends_checked_zero": 150,
            "p2pkh_signatures_verified": 300, "p2sh_multisig_inputs_verified": 30, "pczt_spends_finalised": 100, "ok_with_2plus_transparent_inputs": 60,
            "ok_with_sapling": 150, "ok_with_sapling_padding_outputs": 60, "ok_with_orchard": 80, "ok_with_orchard_padding_actions": 30,
            "ok_with_ironwood": 30, "ok_with_ironwood_padding_actions": 5, "ok_with_nonstandard_fee_rule": 150, "ok_above_grace_or_custom": 200,
            "epoch:Canopy": 20, "epoch:Nu5": 100, "epoch:Nu6": 45, "epoch:Nu6_2": 100,
            "epoch:Nu6_3": 100, "tx_reparsed_same_txid": 150, "handmade_probes": 25, "py_sighash_digests_checked": 150,
            "py_sighash_v5": 50, "py_sighash_v4": 30,
            "handmade_probes_emitted": 10, "probe_orchard_change_only_emitted:deferred_pczt": 3, "probe_orchard_change_only_emitted:build_for_pczt": 3,
            "interpreter_accepted_p2pkh": 300, "interpreter_accepted_p2sh": 50, "interpreter_accepted_p2sh_unsorted_keys": 40,
            "interpreter_accepted_p2sh_unsorted_keys:pczt": 15, "interpreter_accepted_p2sh_surplus_signers": 10,
            "pczt_extracted_transparent_only": 15, "pczt_extracted_inputs_interpreted": 20,
        },
        "thorough": {
            "evaluations": 30000, "distinct_nontrivial": 8000,
            "builds_ok": 10000, "builds_ok:build": 2500, "builds_ok:mock_build": 600, "builds_ok:build_for_pczt": 4000,
            "builds_ok:deferred_pczt": 200, "builds_ok:build-proved": 150,
            "unbalanced_refused": 4000, "refused_at_fee_minus_1": 600, "refused_at_fee_plus_1": 600,
            "version_refused": 100,
            "outputs_decrypted_by_recipient": 10000, "padding_outputs_seen": 6000,
            "pczt_padding_spends_checked_zero": 3000,
            "p2pkh_signatures_verified": 10000, "p2sh_multisig_inputs_verified": 600, "pczt_spends_finalised": 2000,
            "ok_with_sapling": 3000, "ok_with_orchard": 1500, "ok_with_ironwood": 600,
            "ok_with_orchard_padding_actions": 600, "ok_with_ironwood_padding_actions": 100,
            "ok_with_nonstandard_fee_rule": 3000,
            "proved_sapling_bundles_verified": 40, "proved_orchard_bundles_verified": 30, "proved_ironwood_bundles_verified": 10,
            "handmade_probes": 25, "handmade_probes_emitted": 10, "probe_orchard_change_only_emitted:deferred_pczt": 3,
            "interpreter_accepted_p2sh": 1500, "interpreter_accepted_p2sh_unsorted_keys": 1000, "interpreter_accepted_p2sh_unsorted_keys:pczt": 400,
            "interpreter_accepted_p2sh_surplus_signers": 300, "pczt_extracted_transparent_only": 400, "py_sighash_digests_checked": 1500,
        },
    },
    "manifest": {
        "technique": "generated requests against the real Builder through five build paths; independent oracle: trial decryption with the recipients' keys, nullifier/outpoint comparison, ZIP 317 on the wire-form shape, ECDSA verification with libsecp256k1, whole-bundle verification for a really-proved sample",
        "text": "Every transaction or PCZT the builder emitted contained exactly the requested spends and outputs (each output decrypted by its recipient to the requested value and memo; everything else zero-valued where checkable, value-neutral otherwise), paid the fee the supplied rule prescribes for the shape counted from its wire form, carried a verifying signature on every transparent input, and nothing was emitted for requests that were off balance by 1 zatoshi or more or whose version is invalid for the height. Sampled, not exhaustive.",
        "note": "Trusted: dependency crates for note encryption / proof verification / ECDSA. The real provers are exercised on a small sample only (cost); Orchard-family volume comes from the PCZT paths, where contents are judged on the PCZT's effects. Error amounts and OVK recoverability are recorded as diagnostics (not part of the statement).",
    },
}


def post(shards, fold, tier, seed):
    """Python reference for the transparent signature digests (ZIP 244 for v5, ZIP 243 for v4)."""
    import json
    import os
    import sys
    sys.path.insert(0, os.path.join(os.path.dirname(os.path.dirname(os.path.abspath(__file__)))))
    import driver
    from pyref import txlayout, zip244
    try:
        st = zip244.selftest(driver.REPO)
        fold.count("py_zip244_vectors_validated", st.get("zip244_vectors", 0))
    except Exception as e:  # a broken oracle is a broken check, not a finding
        fold.broken.append("zip244.py selftest against the shipped vectors failed: %r" % (e,))
        return
    for s in shards:
        if not s.events_path or not os.path.exists(s.events_path):
            continue
        for line in open(s.events_path):
            ev = json.loads(line)
            if ev.get("kind") != "sighash":
                continue
            raw = bytes.fromhex(ev["raw"])
            try:
                tx = txlayout.parse_tx(raw)
            except Exception as e:
                fold.violation("C14:%s:built-tx-rejected-by-layout-reference" % ev["path"],
                               [{"detail": "txlayout.parse_tx: %r" % (e,), "replay": {"raw": ev["raw"]}}])
                continue
            coins = [(v, bytes.fromhex(sc)) for v, sc in ev["coins"]]
            for i in ev["inputs"]:
                idx, ht = i["index"], i["hash_type"]
                try:
                    if tx.version == 5:
                        ref = zip244.signature_digest(tx, coins, ht, idx).hex()
                        fold.count("py_sighash_v5")
                    elif tx.version == 4:
                        ref = zip244.sighash_v34(tx, ev["branch_id"], ht, idx, bytes.fromhex(i["script_code"]), coins[idx][0]).hex()
                        fold.count("py_sighash_v4")
                    else:
                        fold.count("py_sighash_skipped_v%d" % tx.version)
                        continue
                except Exception as e:
                    fold.inconc("py-reference-error:%s" % type(e).__name__)
                    continue
                fold.count("py_sighash_digests_checked")
                if ref != i["digest"]:
                    fold.violation("C14:%s:signature-digest-differs-from-zip-reference:v%d" % (ev["path"], tx.version),
                                   [{"detail": "input %d hash type %d: library digest %s, reference %s" % (idx, ht, i["digest"], ref),
                                     "replay": {"raw": ev["raw"], "coins": ev["coins"], "input": i}}])
