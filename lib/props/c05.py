SPEC = {
    "id": "C05",
    "package": "vh-wallet",
    "bin": "c05",
    "level": "exploration",
    "rule": ("Cases are (i) fabricated compact blocks with 0-6 transactions x up to ~45 outputs mixing wallet (1-3 accounts, "
             "external/internal scope, 1-3 pools) and foreign outputs, spends of tracked wallet notes and foreign "
             "nullifiers, each observed three ways - scan_block (inline), scan_cached_blocks (batched runners) -> "
             "database rows, ground truth - with batches flushed at output counts around the runner threshold "
             "(1,60,99,100,101,180,260); (ii) 31 corruption operators (continuity: height+-1, prev-hash bit flip, tree "
             "size metadata +-1/max/absent/zero; malformed: every bytes field at a wrong length, non-canonical field "
             "elements, tx index >= 2^16, height > u32, hash lengths, garbage header) applied to the next valid block: "
             "Err, no panic, and an unchanged full-database dump are demanded. Shards run with RAYON_NUM_THREADS in "
             "{1,2,3,8,16} and seeded delays injected through the guarded hooks in the batch runner; distinct schedules "
             "are counted. Signature = (tx count, output bucket, wallet outputs, pools, observer) for valid blocks and "
             "(corruption operator) for negatives; non-trivial = the block holds at least one wallet and one foreign "
             "output, or is a corruption."),
    "assumptions": [
        "ground truth from the harness's own block fabricator; tracked nullifiers are those of notes in blocks the wallet has scanned (Nullifiers::unspent) plus notes found earlier in the same block",
        "absent / zero tree-size metadata and an unparsable header may legally be accepted (sizes are then derived from the prior block; the header is documented as ignored when unparsable): only no-panic is demanded for them",
        "thread schedules are sampled (pool sizes x seeded delays), not enumerated",
    ],
    "tiers": {
        "quick": {"shards": 15, "budget_s": 45},
        "thorough": {"shards": 15, "budget_s": 900},
    },
    "floors": {
        "quick": {"inline_blocks_checked": 150, "batched_blocks_checked": 300, "inline_vs_batched_comparisons": 150,
                  "wallet_outputs_in_truth": 1500, "foreign_outputs_in_truth": 2500, "tracked_spends_in_truth": 300,
                  "corruptions_rejected_batched": 250, "distinct_schedules_observed": 30, "distinct_nontrivial": 80,
                  "prior_state_corruptions": 20, "prior_state_frontier_emptied_ironwood": 4, "prior_state_frontier_emptied_orchard": 4, "prior_state_frontier_emptied_sapling": 4,
                  "prior_state_true_state_accepted": 20, "corruptions_mid_batch": 150, "corruption_mid_batch_IronwoodSizePlus1": 4,
                  "corruption_HeaderGarbageHashEmpty": 5, "corruption_HeaderGarbagePrevHashShort": 5},
        "thorough": {"inline_blocks_checked": 7000, "batched_blocks_checked": 10000, "inline_vs_batched_comparisons": 6000,
                     "wallet_outputs_in_truth": 60000, "corruptions_rejected_batched": 9000, "distinct_schedules_observed": 300, "distinct_nontrivial": 400,
                     "prior_state_corruptions": 1000, "prior_state_frontier_emptied_ironwood": 150, "prior_state_true_state_accepted": 1000,
                     "corruptions_mid_batch": 8000, "corruption_mid_batch_IronwoodSizePlus1": 150, "corruption_HeaderGarbageHashEmpty": 150},
    },
    "manifest": {
        "technique": "three-observer differential (inline scan / batched scan -> database / fabricated ground truth) + corruption operators with a whole-database dump oracle, under varied rayon pool sizes and hook-injected delays with schedule logging",
        "text": "Every fabricated block is scanned inline and batched and both are compared with ground truth (received set with account/value/scope/position/nullifier, spent set, commitments in order, final tree sizes); every corruption must give Err with the database unchanged (corruptions of the block, and of the prior chain state a fresh wallet is told to scan it from: one pool's frontier emptied); results must not depend on thread count or injected delays. Held on everything executed.",
        "note": "Sampled blocks and schedules; TSan pass over the same workload is part of the thorough tier when the sanitizer build is available. Dependency note-encryption crates trusted.",
    },
}

THREADS = [1, 2, 3, 8, 16]


def run(tier, seed, fold):
    import driver
    driver.standard_run(SPEC, tier, seed, fold, run_kw={
        "per_shard_env": lambda i: {"RAYON_NUM_THREADS": str(THREADS[i % len(THREADS)])},
        "per_shard_extra": lambda i: {"delays": 0 if i % 3 == 0 else 1},
    })
    if tier == "thorough":
        # ThreadSanitizer over the same workload (std rebuilt with -Zbuild-std, SQLite compiled with
        # -fsanitize=thread): pool sizes 2, 4, 16, delays on
        driver.sanitizer_run(SPEC, "tsan", tier, seed, fold, shards=9, budget_s=420, extra={"delays": 1},
                             per_shard_env=lambda i: {"RAYON_NUM_THREADS": str([2, 4, 16][i % 3])})
