SPEC = {
    "id": "C02",
    "package": "vh-wallet",
    "bin": "c02",
    "level": "fault_enumeration",
    "rule": ("One case = (database state S, write operation op). S is reached by a generated wallet history (fabricated "
             "chain over 1-3 pools, 2 accounts, a prefix scanned in random batches, locks taken where the operation needs "
             "them). op ranges over put_blocks (next blocks / out-of-order / overlapping re-scan), update_chain_tip, "
             "truncate_to_height, truncate_to_chain_state, rewind_to_chain_state, create_account, import_account_ufvk, "
             "delete_account, lock_outputs (incl. a batch whose 3rd output is foreign-locked), unlock_output, "
             "clear_locked_outputs, set_transaction_status, put_received_transparent_utxo, "
             "reserve_next_n_ephemeral_addresses, get_next_available_address, put_sapling_subtree_roots, "
             "prune_scan_queue_below. A dry run counts write sites W (TEMP BEFORE INSERT/UPDATE/DELETE triggers on every "
             "table calling a UDF) and VM steps V and records op(S). Then the k-th write site is failed with RAISE(ABORT) "
             "and the k-th progress-handler call is answered with an interrupt, for all k when W (V) is at most the cap, "
             "else first/last third of the cap plus a seeded sample (the counters report how many). Oracle: the "
             "operation reports an error, the full dump of all tables equals dump(S), the commit hook did not fire, and "
             "the retried operation reaches op(S) modulo fresh identifiers; an operation that absorbs the fault must end "
             "in S or op(S). File-backed scenarios add real crashes (abort() in a child process at a VM step / inside "
             "the commit hook, rollback-journal and WAL) and one-transaction dumps from a second connection every p VM "
             "steps of the writer, and writer commits interleaved at every step of transactional reads. Signature = "
             "(operation, set of tables with write sites, log2 W); non-trivial = the operation changes >= 2 tables."),
    "assumptions": [
        "SQLite's own atomic commit / recovery is the trusted base; OS or disk power-loss behaviour (lost fsync, torn sectors) cannot be produced here - process death is real (abort), storage faults are not",
        "no interrupt is injected in the window of BEGIN after its AutoCommit opcode (an interrupted BEGIN that took effect is a SQLite/rusqlite artefact reachable only through sqlite3_interrupt, which the wallet never uses)",
        "fresh identifiers (accounts.uuid, transactions.created) are normalised when comparing the retried operation with op(S)",
    ],
    "tiers": {
        "quick": {"shards": 16, "budget_s": 75},
        "thorough": {"shards": 16, "budget_s": 1500},
    },
    "floors": {
        "quick": {"scenarios": 8, "write_site_faults_injected": 800, "vm_step_faults_injected": 800, "retries_checked": 1500,
                  "op_put_blocks": 4, "crash_points_executed": 5, "snapshot_probes": 100, "file_backed_scenarios": 6, "distinct_nontrivial": 25,
                  "oracle_reader_interleavings": 100, "oracle_reader_saw_before": 60, "oracle_reader_saw_after": 4,
                  "oracle_reader_scenarios_live_anchor_invalidated_by_truncation": 3},
        "thorough": {"scenarios": 50, "write_site_faults_injected": 60000, "vm_step_faults_injected": 40000, "retries_checked": 80000,
                     "op_put_blocks": 150, "op_truncate_to_height": 40, "op_create_account": 40, "op_lock_outputs": 40,
                     "crash_points_executed": 500, "snapshot_probes": 5000, "reader_writer_interleavings": 100, "distinct_nontrivial": 120,
                     "oracle_reader_interleavings": 5000, "oracle_reader_saw_before": 3000, "oracle_reader_saw_after": 100,
                     "oracle_reader_scenarios_live_anchor_invalidated_by_truncation": 30},
    },
    "manifest": {
        "technique": "fault injection inside SQLite (trigger+UDF write-site faults, progress-handler interrupts, commit hook, real abort() crashes in child processes, second-connection snapshot probes) with a whole-database dump oracle",
        "text": "Every enumerated write site and sampled VM step of every covered wallet write operation is made to fail on states reached by generated histories; the database must be exactly as before, nothing committed, and the retry must reach the uninterrupted result. Crashes and concurrent snapshot reads must only ever see the state before or after. Held on everything executed.",
        "note": "All fault sites are enumerated for operations with W up to the cap, sampled above it (counts in evidence). store_decrypted_tx / store_transactions_to_be_sent / pool-migration store writes are exercised in C08 / C18 histories, not fault-enumerated here. Power-loss durability is out of reach; SQLite is trusted.",
    },
}


def run(tier, seed, fold):
    import os
    import driver
    tmp = os.path.join(driver.WORK, "tmp")
    os.makedirs(tmp, exist_ok=True)
    driver.standard_run(SPEC, tier, seed, fold, run_kw={"env": {"TMPDIR": tmp}})
    if tier == "thorough":
        # the same enumeration under AddressSanitizer + LeakSanitizer with an instrumented bundled
        # SQLite: error / rollback paths through the rusqlite FFI surface
        driver.sanitizer_run(SPEC, "asan", tier, seed, fold, shards=12, budget_s=420)
