# Provisional registration of part (a) of C15 (SpanningTree dominance rule, exhaustive) so that it can
# be run on its own as `./check C15A`. The complete C15 (this binary + the wallet-level part (b)) is
# registered by the maintainer in lib/props/c15.py; the SPEC below is written so that its pieces
# (tiers/floors/rule text) can be lifted into that file unchanged.
SPEC = {
    "id": "C15",
    "package": "vh-pure",
    "bin": "c15a",
    "level": "exploration",
    "rule": ("Part (a): every sequence of SpanningTree insertions (first one as a Leaf) of length 1..L over the height domain "
             "[0,N) with every non-empty range, each of the 7 priorities and the force-rescan flag (per insertion, or one flag "
             "per sequence as the wallet uses it) is executed by a depth-first walk sharded by the first insertion; after every "
             "insertion into_vec() is compared with a pointwise dominance model. Quick: (N=6,L=3, flag per insertion), (N=4,L=4, "
             "flag per sequence), (N=3,L=4, flag per insertion); thorough: (7,3,per insertion), (5,4,per insertion), (4,5,per "
             "sequence), (3,5,per insertion). Plus seeded sequences of length 6..8 over [0,8) that include empty ranges. "
             "evaluations = number of (sequence prefix) checks; distinct = number of distinct resulting priority maps "
             "(height -> priority or outside the span) per domain, measured with a bitset; every sequence is non-trivial "
             "(each has a verdict on the whole partition)."),
    "exhaustive_scope": ("all insertion sequences of the lengths and domains listed in the rule for the tier (every non-empty "
                         "range x 7 priorities x force flag); the seeded longer sequences are sampled"),
    "assumptions": [
        "the model is the property statement applied pointwise: equal -> keep; inserted Verify/Scanned override; Scanned sticky "
        "unless forced; otherwise the higher priority in the documented order Ignored < Scanned < Historic < OpenAdjacent < "
        "FoundNote < ChainTip < Verify; heights between the span and the inserted range become Historic",
        "an empty inserted range contributes no heights but still extends the span to its position (gap filled with Historic), "
        "which is what 'gaps become historic' says literally and what update_chain_tip's comments rely on",
        "the tree is started as SpanningTree::Leaf(first range), as the wallet does",
    ],
    "tiers": {
        "quick": {"shards": 16, "budget_s": 80},
        "thorough": {"shards": 16, "budget_s": 1500},
    },
    "floors": {
        "quick": {
            "evaluations": 100_000_000, "distinct_nontrivial": 20_000,
            "sequences_checked_exhaustively": 100_000_000, "exhaustive_jobs_completed_by_shards": 64,
            "sequences_checked_exhaustively_incl_empty_ranges": 2_000_000,
            "max_dominance_cells_exercised_of_98": 84,
            "relation_left-disjoint": 1000, "relation_left-overlap": 1000, "relation_contains-span": 1000, "relation_equal": 1000,
            "relation_inside-span": 1000, "relation_right-overlap": 1000, "relation_right-disjoint": 1000,
            "relation_empty-range": 1000, "gap_heights_made_historic": 100_000,
            "random_sequences": 1_000_000, "random_sequences_with_an_empty_range": 100_000,
        },
        "thorough": {
            "evaluations": 5_000_000_000, "distinct_nontrivial": 50_000,
            "sequences_checked_exhaustively": 5_000_000_000, "exhaustive_jobs_completed_by_shards": 96,
            "sequences_checked_exhaustively_incl_empty_ranges": 50_000_000,
            "max_dominance_cells_exercised_of_98": 84,
            "random_sequences": 50_000_000, "random_sequences_with_an_empty_range": 5_000_000,
        },
    },
    "manifest": {
        "technique": "bounded exhaustive enumeration of insertion sequences against an executable pointwise model, plus seeded longer sequences",
        "text": ("Part (a): after every insertion of every enumerated sequence the spanning tree flattens to a sorted, gap-free, "
                 "non-overlapping, merged partition whose priorities equal the dominance rule applied pointwise. Exhaustive for "
                 "the stated bounds."),
        "note": "Bounded: says nothing about longer sequences or larger domains beyond the seeded sample.",
    },
}


def post(shards, fold, tier, seed):
    # the enumeration is complete only if every shard completed every job
    want = SPEC["tiers"][tier]["shards"] * (4 if tier == "quick" else 6)
    if fold.counters.get("exhaustive_jobs_completed_by_shards", 0) < want:
        fold.exhaustive = False
    planned = fold.counters.get("sequences_planned_exhaustively", 0)
    done = fold.counters.get("sequences_checked_exhaustively", 0)
    if fold.exhaustive and planned != done:
        fold.broken.append("exhaustive enumeration count mismatch: planned %d, executed %d" % (planned, done))
