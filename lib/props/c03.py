import json
import os

SPEC = {
    "id": "C03",
    "package": "vh-pure",
    "bin": "c03",
    "level": "exploration",
    "events": True,
    "rule": ("Positives: transactions of every (version, consensus branch) pair admitted by TxVersion::valid_in_branch "
             "(v1, v2, non-overwintered v>=3, v3, v4 x 9 branches, v5 x 5 branches, v6/NU6.3), drawn from the repository's own "
             "arb_tx(branch) strategies and composed from their pieces into aimed shapes (all bundles empty, transparent-only, "
             "coinbase, Sapling spends-only / outputs-only, JoinSplits (PHGR13 and Groth16), Orchard, Ironwood, CompactSize "
             "boundaries 252/253/254/300 on every vector, 65535/65536 transparent outputs, 64 KiB scripts, amount boundaries), "
             "encoded by an independent writer, parsed by the real reader behind a counting reader with a random suffix and "
             "compared field by field through every bundle's accessors; block headers with solution sizes 0..65536 and exactly "
             "MAX_COMPACT_SIZE. Negatives: mutants of those encodings aimed by the field table (truncation at field boundaries "
             "+-1, one bit flip per field name, every CompactSize re-encoded non-canonically, counts set to huge values and +-1, "
             "every amount out of range / at the boundary, field elements and points out of range, reserved flag bits, header "
             "corruption, random splices, foreign branch id); zcash_encoding 0.5 CompactSize/Vector/Array/Optional on a boundary "
             "lattice. Signature: (version, branch, bundle-presence bitmap, count buckets of the 7 vectors) for positives, "
             "(version, operator, field name, accepted/rejected) for negatives. Non-trivial: >= 2 bundles present, or a rejected "
             "mutant whose mutation lies past the header, or a zcash_encoding lattice case."),
    "assumptions": [
        "sha2 (dependency crate) and Python hashlib as SHA-256 references",
        "field-wise equality is taken through the public accessors and the to_bytes/to_repr conversions of the sapling-crypto, orchard, redjubjub and reddsa dependency crates",
        "zcash_primitives links the published zcash_encoding 0.4; the local components/zcash_encoding 0.5 is exercised directly",
        "the Orchard proof-size constant 2720+2272n is taken from the orchard dependency crate",
        "Miri (thorough tier) interprets only zcash_encoding and transparent-only/empty v5 transaction shells; shielded parsing is covered by the debug-assertion/overflow-check build only",
    ],
    "tiers": {
        "quick": {"shards": 12, "budget_s": 45, "extra": {"tx-events": 220, "hdr-events": 40}},
        "thorough": {"shards": 16, "budget_s": 900, "extra": {"tx-events": 1500, "hdr-events": 200}},
    },
    "floors": {
        "quick": {
            # time-budgeted on a shared machine: floors are ~1/3 of what a quiet 16-core run observes
            "evaluations": 150_000, "distinct_nontrivial": 1000,
            "arb_tx_values": 36, "mutants_rejected": 70_000, "mutants_accepted": 10_000,
            "op_truncate": 15_000, "op_bitflip": 12_000, "op_cs-noncanonical": 12_000, "op_count-huge": 10_000,
            "op_count-plus1": 5000, "op_count-minus1": 3000, "op_amount-out-of-range": 6000, "op_all-ones": 2000,
            "op_flags-reserved": 400, "op_header-value": 3000, "op_splice": 1500, "op_other-branch": 800, "op_branch-swap": 1000,
            "boundary_amounts_accepted": 1500, "suffix_cases": 700, "chunked_reader_parses": 15_000, "chunked_reader_short_reads": 1_000_000,
            "shape_all_bundles_empty": 80, "shape_sapling_spends_only": 60, "shape_sapling_outputs_only": 60,
            "shape_compactsize_253_boundary": 60, "shape_compactsize_64k_boundary": 6, "shape_script_64k": 6,
            "shape_with_joinsplits": 100, "shape_with_orchard": 120, "shape_with_ironwood": 20, "shape_coinbase": 80,
            "pos_v1_sprout": 40, "pos_v2_sprout": 40, "pos_v2hi_sprout": 40, "pos_v3_overwinter": 40,
            "pos_v4_sapling": 40, "pos_v4_blossom": 40, "pos_v4_heartwood": 40, "pos_v4_canopy": 40, "pos_v4_nu5": 40,
            "pos_v4_nu6": 40, "pos_v4_nu6_1": 40, "pos_v4_nu6_2": 40, "pos_v4_nu6_3": 40,
            "pos_v5_nu5": 40, "pos_v5_nu6": 40, "pos_v5_nu6_1": 40, "pos_v5_nu6_2": 40, "pos_v5_nu6_3": 40, "pos_v6_nu6_3": 40,
            "header_cases": 300, "header_op_cs-noncanonical": 300, "header_op_count-huge": 1000,
            "compactsize_max_vector_accepted": 1, "oversized_compactsize_with_data_rejected": 1,
            "enc5_compactsize_values": 12, "enc5_combinator_rounds": 12,
            "py_tx_checked": 800, "py_pre_v5_txid_sha256d_checked": 400, "py_v5_v6_layout_checked": 200, "py_headers_checked": 300,
        },
        "thorough": {
            # time-budgeted on a shared machine: ~1/3 of a quiet run, ~1/2 of a loaded one
            "evaluations": 2_500_000, "distinct_nontrivial": 4000,
            "arb_tx_values": 700, "mutants_rejected": 1_200_000, "mutants_accepted": 250_000,
            "op_truncate": 300_000, "op_bitflip": 220_000, "op_cs-noncanonical": 220_000, "op_count-huge": 180_000,
            "op_amount-out-of-range": 100_000, "op_branch-swap": 20_000, "op_flags-reserved": 8000,
            "shape_compactsize_253_boundary": 1200, "shape_compactsize_64k_boundary": 50, "shape_script_64k": 50,
            "shape_with_joinsplits": 2000, "shape_with_orchard": 2500, "shape_with_ironwood": 350, "shape_coinbase": 1400,
            "shape_all_bundles_empty": 1400, "shape_sapling_spends_only": 1100, "shape_sapling_outputs_only": 1100,
            "pos_v6_nu6_3": 900, "pos_v5_nu5": 900, "pos_v5_nu6_3": 900, "pos_v4_sapling": 900, "pos_v4_nu6_3": 900,
            "pos_v3_overwinter": 900, "pos_v1_sprout": 900, "pos_v2_sprout": 900, "pos_v2hi_sprout": 900,
            "chunked_reader_parses": 200_000, "chunked_reader_short_reads": 20_000_000,
            "header_cases": 4000, "compactsize_max_vector_accepted": 1, "oversized_compactsize_with_data_rejected": 1,
            "enc5_compactsize_values": 16, "enc5_combinator_rounds": 16,
            "py_tx_checked": 15000, "py_pre_v5_txid_sha256d_checked": 8000, "py_v5_v6_layout_checked": 4000, "py_headers_checked": 2500,
            "miri_sections_run": 2, "miri_processes_clean_encoding": 8, "miri_processes_clean_tx": 8,
        },
    },
    "manifest": {
        "technique": "differential round-trip monitoring against an independent wire-format model (Rust encoder/parser + Python layout/sha256d oracle), mutation operators aimed by a field table, counting reader and allocation monitor around the real parsers",
        "text": ("Every generated transaction (all version/branch pairs incl. v6/NU6.3 and Sprout JoinSplits) and block header is "
                 "encoded by a specification-derived writer, parsed by the real code through a byte-counting reader with random "
                 "trailing data, compared field by field via the bundle accessors, re-serialised, re-parsed and rebuilt through "
                 "from_parts/freeze; >1M aimed mutants per quick run check never-panic, no over-read, rejection of non-canonical "
                 "CompactSize and out-of-range amounts, and accept => write/read fixed point; a Python layout parser re-checks "
                 "lengths, field semantics, sha256d txids and block hashes from the event log."),
        "note": "Held on everything executed; sampled, not exhaustive. Trusted: dependency crates' point/field encodings, SHA-256 implementations.",
    },
}

MAX_VIOL_PER_SIG = 3


def _check_events(path):
    """Runs in a worker process: python reference over one shard's event log."""
    import sys
    sys.path.insert(0, os.path.dirname(os.path.dirname(os.path.abspath(__file__))))
    from pyref import txlayout, blockhdr
    out = {"counts": {}, "viol": {}, "broken": []}

    def cnt(k, n=1):
        out["counts"][k] = out["counts"].get(k, 0) + n

    def viol(sig, detail, ev):
        e = out["viol"].setdefault(sig, {"count": 0, "examples": []})
        e["count"] += 1
        if len(e["examples"]) < MAX_VIOL_PER_SIG:
            hexs = ev.get("hex", "")
            e["examples"].append({"detail": detail, "replay": {"event": {k: v for k, v in ev.items() if k != "hex"}, "input_hex": hexs[:40000]}})
        cnt("py_violations")

    if not path or not os.path.exists(path):
        out["broken"].append("event log missing: %s" % path)
        return out
    for line in open(path):
        ev = json.loads(line)
        if ev["k"] == "tx":
            raw = bytes.fromhex(ev["hex"])
            ver = ev["ver"]
            cnt("py_tx_checked")
            try:
                tx = txlayout.parse_tx(raw)
            except txlayout.LayoutError as e:
                viol("C03:py:accepted-encoding-violates-layout:%s" % ver, "the real reader accepted (and the writer produced) bytes that the specification layout rejects: %s" % e, ev)
                continue
            if tx.consumed != len(raw):
                viol("C03:py:layout-length-mismatch:%s" % ver, "specification layout consumes %d bytes, implementation wrote/consumed %d" % (tx.consumed, len(raw)), ev)
                continue
            if txlayout.table_digest(tx) != ev["ft"]:
                out["broken"].append("field tables of the Rust and Python layout walkers disagree on a %s transaction (harness inconsistency)" % ver)
            if txlayout.fingerprint(tx) != ev["fp"]:
                viol("C03:py:field-semantics-mismatch:%s" % ver, "the field values presented by the accessors of the parsed transaction differ from what the specification layout assigns to these bytes", ev)
            if [len(tx.vin), len(tx.vout), len(tx.spends), len(tx.outputs), len(tx.js),
                    len(tx.orchard.actions) if tx.orchard else 0, len(tx.ironwood.actions) if tx.ironwood else 0] != ev["n"] \
                    or tx.lock_time != ev["lock_time"] or tx.expiry != ev["expiry"]:
                viol("C03:py:field-semantics-mismatch:%s:counts-or-header" % ver, "counts / lock_time / expiry differ from the specification layout", ev)
            if tx.version <= 4:
                cnt("py_pre_v5_txid_sha256d_checked")
                if txlayout.sha256d(raw).hex() != ev["txid"]:
                    viol("C03:txid-not-sha256d:%s:py" % ver, "txid != sha256d(serialisation)", ev)
            else:
                cnt("py_v5_v6_layout_checked")
        elif ev["k"] == "hdr":
            raw = bytes.fromhex(ev["hex"])
            cnt("py_headers_checked")
            try:
                h = blockhdr.parse_header(raw)
            except blockhdr.HeaderError as e:
                viol("C03:py:header-violates-layout", str(e), ev)
                continue
            if h["consumed"] != len(raw) or h["version"] != ev["version"] or h["time"] != ev["time"] or h["bits"] != ev["bits"] or len(h["solution"]) != ev["sol_len"]:
                viol("C03:py:header-field-mismatch", "header fields differ from the specification layout", ev)
            if blockhdr.block_hash(raw).hex() != ev["hash"]:
                viol("C03:header-hash-not-sha256d:py", "BlockHeader::hash() != sha256d(header bytes)", ev)
    return out


def run(tier, seed, fold):
    import driver
    shards = driver.standard_run(SPEC, tier, seed, fold)
    post(shards, fold, tier, seed)
    if tier == "thorough":
        # Sanitizer add-on: Miri (UB / invalid values / overflow in everything reached, dependencies included) over
        # zcash_encoding 0.5 and over Transaction::read/write of transparent-only / empty v5 shells and their mutants
        # (shielded parsing is too slow under an interpreter); workloads live in harness/vh-miri (sections encoding, tx).
        driver.miri_run("C03", "encoding", seed, fold, procs=8, ops=400)
        driver.miri_run("C03", "tx", seed, fold, procs=8, ops=90)


def post(shards, fold, tier, seed):
    import multiprocessing as mp
    import sys
    sys.path.insert(0, os.path.dirname(os.path.dirname(os.path.abspath(__file__))))
    from pyref import txlayout, blockhdr
    txlayout.selftest()
    blockhdr.selftest()
    paths = [s.events_path for s in shards if s.events_path]
    with mp.get_context("fork").Pool(min(len(paths), 12) or 1) as pool:
        results = pool.map(_check_events, paths)
    for r in results:
        for k, v in r["counts"].items():
            fold.count(k, v)
        for sig, e in r["viol"].items():
            fold.violation(sig, e["examples"], e["count"])
        for b in r["broken"]:
            if b not in fold.broken:
                fold.broken.append(b)
