SPEC = {
    "id": "C16",
    "package": "vh-pure",
    "bin": "c16",
    "level": "exploration",
    "rule": ("One case = one call of plan_denominations / CanonicalOneTwoFive::plan (balance, spendable-note count, cap, "
             "fee buffer, preparation fee, preparation-cost oracle) or one engine::plan_migration[_with] preview over a "
             "MockBackend wallet. Cases come from (a) a boundary lattice: every balance d+-delta for each member d of the {1,2,5}*10^k series up to MAX_MONEY "
             "(19 canonical denominations plus the on-series values outside [0.01,10000] ZEC) and delta in {0,1,2,buffer,fee,buffer+fee,2*buffer(+fee),min note,...}+-1, all two-part exact "
             "fits, the k-part exact fits across the 14/15 and 28/29 fee steps, 0, 1, MAX_MONEY; x caps {1,2,14,15,16,29,50,64} "
             "x note counts {0,1,2} x 10 (buffer, fee) pairs incl. 0 and MAX_MONEY x 13 oracle behaviours (exhaustive), "
             "(b) random balances/fees/caps/oracles, (c) generated wallets with the real preparation planner as the oracle. "
             "A case is distinct by (oracle behaviour, entry point, single-note bit, exact-funding bit, canonical split "
             "length, plan length, cap reached, fee/buffer class, balance decade, first denomination decade) and is "
             "non-trivial when the balance's canonical split is non-empty; engine previews are distinct by (outcome, "
             "wallet shape, plan length, split length, preparation layers, cap reached)."),
    "exhaustive_scope": ("the boundary lattice of balances x caps x note counts x fee pairs x oracle behaviours described "
                         "in the rule; balances and configurations outside it are sampled"),
    "assumptions": [
        "the model of the canonical split is written from the strategy's documentation (greedy largest {1,2,5}*10^k with "
        "one preparation fee reserved per 14 prepared notes; no reserve for a single note holding exactly one denomination "
        "plus its buffer) and cross-checked against the ZIP 318 worked examples and, fee-free, against decimal-digit expansion",
        "u128 arithmetic of rustc as exact-integer reference; 64-bit usize",
        "engine previews use the canonical ZIP 317 fees (16 x 5000 per preparation transaction, 3 x 5000 buffer) on a regtest network with NU6.3 active",
    ],
    "tiers": {
        "quick": {"shards": 8, "budget_s": 40},
        "thorough": {"shards": 16, "budget_s": 420},
    },
    "floors": {
        "quick": {
            "evaluations": 8_000_000, "distinct_nontrivial": 50_000, "lattice_points": 10_000_000,
            "plans_where_reconcile_dropped_parts": 10_000, "single_note_exact_funding_cases": 1000,
            "plans_reaching_cap": 10_000, "plans_crossing_fee_step": 5000, "residual_bound_checked": 10_000,
            "fee_free_digit_expansion_checked": 10_000, "max_money_scale_fee_or_buffer": 1000,
            "oracle_answers_with_product_above_u64": 1000,
            "plans_oracle_0": 10_000, "plans_oracle_1": 10_000, "plans_oracle_2": 10_000, "plans_oracle_3": 10_000,
            "plans_oracle_4": 10_000, "plans_oracle_5": 10_000, "plans_oracle_6": 10_000, "plans_oracle_7": 10_000,
            "plans_oracle_8": 10_000, "plans_oracle_9": 10_000, "plans_oracle_10": 500, "plans_oracle_11": 10_000,
            "engine_previews_ok": 500, "engine_previews_truncated_by_wallet_shape": 5, "engine_unfundable_split": 1,
            "engine_nothing_to_migrate": 1, "engine_previews_with_direct_funding": 20,
            "engine_wallets_where_preparation_costs_as_assumed": 200, "residual_bound_checked_other_oracles": 10_000,
            "stored_parts_validations": 100_000,
            "build_profiles_exercised": 2,
        },
        "thorough": {
            "evaluations": 50_000_000, "distinct_nontrivial": 100_000, "lattice_points": 10_000_000,
            "plans_where_reconcile_dropped_parts": 100_000, "single_note_exact_funding_cases": 10_000,
            "plans_reaching_cap": 100_000, "plans_crossing_fee_step": 50_000, "residual_bound_checked": 100_000,
            "oracle_answers_with_product_above_u64": 10_000,
            "plans_oracle_10": 20_000, "engine_previews_ok": 20_000, "engine_previews_truncated_by_wallet_shape": 100,
            "engine_unfundable_split": 10, "engine_nothing_to_migrate": 10, "engine_previews_with_direct_funding": 500,
            "build_profiles_exercised": 2,
        },
    },
    "manifest": {
        "technique": ("boundary-lattice enumeration + random differential testing of the denomination planner against an "
                      "independent u128 model of the ZIP 318 split, under honest and hostile preparation-cost oracles; "
                      "conservation and fee-vs-oracle identities checked per plan; engine previews over generated mock "
                      "wallets; run in a checks-on build (a wrap becomes a caught panic) and in a wrap-silently build"),
        "text": ("Every plan produced for the boundary lattice, for millions of random inputs and for thousands of generated "
                 "wallets is canonical, ordered, capped, a prefix of the independently computed canonical split, conserves "
                 "value exactly, reserves exactly the oracle's fee, obeys the residual bound and ignores the RNG; held on "
                 "everything executed. Exhaustive on the lattice, sampled elsewhere."),
        "note": ("Trusted: the model's reading of the strategy documentation; rustc u128. Which prefix a hostile oracle "
                 "leaves is not prescribed by the property and only logged (model_divergence_reconcile_length)."),
    },
}


def run(tier, seed, fold):
    import driver
    # 1) monitoring build: overflow checks + debug assertions armed (a wrap becomes a caught panic)
    driver.standard_run(SPEC, tier, seed, fold, tag="checked")
    # 2) plain build: what a release user runs; a wrap can only be observed as a wrong value here
    driver.standard_run(SPEC, tier, seed, fold, tag="plain", profile="plain")
    fold.count("build_profiles_exercised", 2)
    if tier == "thorough":
        # 3) Miri over the planner with refusing / absurd / over-charging oracles
        driver.miri_run("C16", "planner", seed, fold, procs=12, ops=300)
