SPEC = {
    "id": "C18",
    "package": "vh-wallet",
    "bin": "c18",
    "level": "exploration",
    "rule": ("A case is one event of a generated trace over the migration engine's public API: an advance_migration call "
             "(random scanned/estimated targets, store answers scripted from a simulated chain with adversarial flips) or "
             "one consumer/environment event (proof stored, broadcast recorded / rejected / submitted-but-unrecorded, "
             "inclusion, reorg + truncate_to_height, foreign spend, rebuild, cancel/supersede, signature, crash-restart "
             "from the store), plus round trips of arb_migration_state() draws. Traces start from real CommitMock "
             "commits (pre-signed PCZTs, planner DAGs) and from synthetic internally-consistent mid-flight states. "
             "Distinctness: (step kind, status, multiset of per-transaction (lifecycle rank, kind, dead, due, reported, "
             "deps-mined), estimate-ahead) for advance calls, (event, status before/after, rank vector) otherwise. "
             "Non-trivial: the migration is non-terminal with at least one unmined transaction (advance), every applied "
             "event and every arbitrary-state round trip."),
    "assumptions": [
        "the consumer follows the documented drive contract (mark_broadcast only for the transaction a Broadcast step "
        "named, proofs stored only for Signed rows, truncate_to_height called with the height the wallet achieved); "
        "duplicate / stale mutator calls outside that contract are not generated",
        "terminal statuses: Failed/Superseded/Cancelled absorbing; Complete is chain-derived and may be left only by a "
        "rollback that un-mines a transaction (the crate's documented distinction, DESIGN.md C18)",
        "wallet-driven truncation is compared with MigrationState::truncate_to_height only for migrations the store's "
        "walk visits by design (pending and Complete rows); heights are translated by a constant because the test "
        "wallet's chain lives at other heights than the simulation",
        "proving is emulated (MockProver returns the PCZT unchanged through the real prove_transfer/prove_preparation); "
        "rebuilds use the real rebuild_expired_transfer on real commits and a row-level emulation on synthetic states",
    ],
    "tiers": {
        "quick": {"shards": 16, "budget_s": 60, "extra": {"traces": 150, "arb": 100, "real-commits": 2}},
        "thorough": {"shards": 16, "budget_s": 1100, "extra": {"traces": 9000, "arb": 3000, "real-commits": 5}},
    },
    "floors": {
        "quick": {
            "evaluations": 40000, "distinct_nontrivial": 15000, "traces": 1800, "traces_real": 250,
            "advance_calls": 25000, "broadcast_offers_checked": 3000, "broadcast_offered_exactly_when_due": 2000,
            "broadcast_offered_at_last_valid_height": 80, "priority_checks_with_proved_rows": 8000,
            "withheld_doomed_window": 1000, "withheld_open_failure_report": 80, "withheld_partially_mined_dependencies": 10,
            "withheld_not_yet_satisfiable": 8, "stuck_checks_all_unmined_dead": 1500, "all_dead_step_replan": 800,
            "rollbacks_applied": 2000, "rollback_unmined_transactions": 1000, "rollback_kept_mined_transactions": 4000,
            "rollback_mined_exactly_at_height_kept": 200, "complete_reverted_by_rollback": 40,
            "events_on_policy_terminal_migration": 4000, "event_mark_cancelled": 80, "event_mark_superseded": 500,
            "reached_complete": 150, "persist_roundtrips_memory": 40000, "persist_roundtrips_sqlite": 25000,
            "persist_terminal_history_reads": 4000, "wallet_driven_truncations": 400, "update_transaction_checks": 700,
            "guard_probes_over_live_migration": 3000, "guard_probes_over_terminal_migration": 1200,
            "guard_probe_status_in_progress": 2000, "second_pending_row_refused_by_database": 120,
            "failure_reports_adjudicated": 500, "sweep_promoted_unrecorded_broadcast": 250, "overdue_shifts": 2500,
            "marks_recorded": 900, "store_answers_adversarial": 600, "real_rebuilds": 150, "emulated_rebuilds": 900,
            "crash_restarts_from_sqlite": 200, "arbitrary_state_roundtrips": 1500, "repeat_calls_while_broadcast_outstanding": 1400,
            "other_account_migration_intact": 1800,
        },
        "thorough": {
            "evaluations": 2000000, "distinct_nontrivial": 100000, "traces": 100000, "traces_real": 15000,
            "advance_calls": 1500000, "broadcast_offers_checked": 150000, "priority_checks_with_proved_rows": 300000,
            "withheld_doomed_window": 20000, "withheld_partially_mined_dependencies": 500,
            "stuck_checks_all_unmined_dead": 80000, "rollbacks_applied": 100000, "rollback_unmined_transactions": 30000,
            "rollback_mined_exactly_at_height_kept": 8000, "complete_reverted_by_rollback": 1000,
            "events_on_policy_terminal_migration": 100000, "reached_complete": 10000,
            "persist_roundtrips_sqlite": 1000000, "wallet_driven_truncations": 15000,
            "guard_probes_over_live_migration": 300000, "arbitrary_state_roundtrips": 40000,
        },
    },
    "manifest": {
        "technique": "online trace-specification monitor over the engine's public API (model-based: simulated chain, scripted store, randomized consumer) with a save/load cycle through the memory and SQLite stores at every step",
        "text": ("Thousands of generated migration histories (real pre-signed commits and synthetic mid-flight states; proofs, "
                 "broadcasts, rejections, inclusion, reorgs, foreign spends, rebuilds, cancellation, schedule shifts, lagging and "
                 "overshooting tip estimates, adversarial store answers) are driven through advance_migration and the state "
                 "mutators while an independent specification checks after every event: broadcast preconditions, the "
                 "broadcast-first priority, per-transaction rank monotonicity with exact rollback semantics, absorbing terminal "
                 "statuses, never-silently-stuck, and equality after a save/load through both stores (plus one pending "
                 "migration per account and the commit guard). Held on everything explored."),
        "note": ("Sampled exploration, not a proof. Trusted: the harness's own chain simulation and snapshot; rustc equality of "
                 "MigrationState. Proving is emulated; SQLite wallet truncation is compared under a constant height translation."),
    },
}
