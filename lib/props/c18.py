SPEC = {
    "id": "C18",
    "package": "vh-wallet",
    "bin": "c18",
    "level": "exploration",
    "rule": ("A case is one event of a generated trace over the migration engine's public API: an advance_migration call "
             "(random scanned/estimated targets, store answers scripted from a simulated chain with adversarial flips) or "
             "one consumer/environment event (proof stored, broadcast recorded / rejected / submitted-but-unrecorded, "
             "inclusion, reorg + truncate_to_height, foreign spend, rebuild, cancel/supersede, signature, crash-restart "
             "from the store), plus round trips of arb_migration_state() draws. Traces start from real CommitMock "
             "commits (pre-signed PCZTs, planner DAGs) and from synthetic internally-consistent mid-flight states. "
             "Distinctness: (step kind, status, multiset of per-transaction (lifecycle rank, kind, dead, due, reported, "
             "deps-mined), estimate-ahead) for advance calls, (event, status before/after, rank vector) otherwise. "
             "Non-trivial: the migration is non-terminal with at least one unmined transaction (advance), every applied "
             "event and every arbitrary-state round trip."),
    "assumptions": [
        "the consumer follows the documented drive contract (mark_broadcast only for the transaction a Broadcast step "
        "named, proofs stored only for Signed rows, truncate_to_height called with the height the wallet achieved); "
        "duplicate / stale mutator calls outside that contract are not generated",
        "terminal statuses: Failed/Superseded/Cancelled absorbing; Complete is chain-derived and may be left only by a "
        "rollback that un-mines a transaction (the crate's documented distinction, DESIGN.md C18)",
        "wallet-driven truncation is compared with MigrationState::truncate_to_height only for migrations the store's "
        "walk visits by design (pending and Complete rows); heights are translated by a constant because the test "
        "wallet's chain lives at other heights than the simulation",
        "proving is emulated (MockProver returns the PCZT unchanged through the real prove_transfer/prove_preparation); "
        "rebuilds use the real rebuild_expired_transfer on real commits and a row-level emulation on synthetic states",
    ],
    "tiers": {
        "quick": {"shards": 16, "budget_s": 75, "extra": {"traces": 110, "arb": 100, "real-commits": 2}},
        "thorough": {"shards": 16, "budget_s": 1200, "extra": {"traces": 6000, "arb": 3000, "real-commits": 5}},
    },
    "floors": {
        "quick": {
            "evaluations": 20700, "distinct_nontrivial": 9900, "traces": 1000, "traces_real": 130,
            "advance_calls": 13400, "broadcast_offers_checked": 1600, "broadcast_offered_exactly_when_due": 1200,
            "broadcast_offered_at_last_valid_height": 50, "priority_checks_with_proved_rows": 4400,
            "withheld_doomed_window": 560, "withheld_open_failure_report": 60,
            "withheld_partially_mined_dependencies": 8, "withheld_not_yet_satisfiable": 5,
            "stuck_checks_all_unmined_dead": 840, "all_dead_step_replan": 430, "rollbacks_applied": 970,
            "rollback_unmined_transactions": 530, "rollback_kept_mined_transactions": 1800,
            "rollback_mined_exactly_at_height_kept": 100, "complete_reverted_by_rollback": 10,
            "events_on_policy_terminal_migration": 3000, "event_mark_cancelled": 540, "event_mark_superseded": 700,
            "reached_complete": 77, "persist_roundtrips_memory": 21000, "persist_roundtrips_sqlite": 14300,
            "persist_terminal_history_reads": 2800, "wallet_driven_truncations": 250,
            "retained_history_reads": 5000, "store_level_cancels": 12, "traces_started_with_retained_history": 200,
            "wallet_truncations_with_an_earlier_complete_migration": 100, "wallet_truncations_refused_with_history": 50,
            "advance_calls_with_caller_ahead_of_store": 1500, "failure_reports_discharged_with_caller_ahead_of_store": 25, "failure_reports_kept": 100,
            "update_transaction_checks": 400, "guard_probes_over_live_migration": 1700,
            "guard_probes_over_terminal_migration": 670, "guard_probe_status_in_progress": 1300,
            "second_pending_row_refused_by_database": 77, "failure_reports_adjudicated": 290,
            "sweep_promoted_unrecorded_broadcast": 170, "overdue_shifts": 1600, "marks_recorded": 540,
            "store_answers_adversarial": 370, "real_rebuilds": 130, "emulated_rebuilds": 540,
            "crash_restarts_from_sqlite": 140, "arbitrary_state_roundtrips": 550,
            "repeat_calls_while_broadcast_outstanding": 840, "other_account_migration_intact": 1000,
            "write_faults_injected_mid_transaction": 40, "event_mark_mined": 100,
            "probe_idempotent_save_of_complete": 1,
        },
        "thorough": {
            "evaluations": 1570000, "distinct_nontrivial": 340000, "traces": 43000, "traces_real": 9500,
            "advance_calls": 1030000, "broadcast_offers_checked": 120000,
            "broadcast_offered_exactly_when_due": 95000, "broadcast_offered_at_last_valid_height": 5100,
            "priority_checks_with_proved_rows": 340000, "withheld_doomed_window": 46000,
            "withheld_open_failure_report": 3800, "withheld_partially_mined_dependencies": 1100,
            "withheld_not_yet_satisfiable": 800, "stuck_checks_all_unmined_dead": 69000,
            "all_dead_step_replan": 37000, "rollbacks_applied": 78000, "rollback_unmined_transactions": 39000,
            "rollback_kept_mined_transactions": 150000, "rollback_mined_exactly_at_height_kept": 9600,
            "complete_reverted_by_rollback": 1400, "events_on_policy_terminal_migration": 240000,
            "event_mark_cancelled": 42000, "event_mark_superseded": 61000, "reached_complete": 7000,
            "persist_roundtrips_memory": 1600000, "persist_roundtrips_sqlite": 1120000,
            "persist_terminal_history_reads": 220000, "wallet_driven_truncations": 21000,
            "retained_history_reads": 200000, "store_level_cancels": 500, "traces_started_with_retained_history": 10000,
            "wallet_truncations_with_an_earlier_complete_migration": 5000, "wallet_truncations_refused_with_history": 2000,
            "advance_calls_with_caller_ahead_of_store": 100000, "failure_reports_discharged_with_caller_ahead_of_store": 1500, "failure_reports_kept": 6000,
            "update_transaction_checks": 39000, "guard_probes_over_live_migration": 130000,
            "guard_probes_over_terminal_migration": 54000, "guard_probe_status_in_progress": 100000,
            "second_pending_row_refused_by_database": 6200, "failure_reports_adjudicated": 22000,
            "sweep_promoted_unrecorded_broadcast": 13000, "overdue_shifts": 120000, "marks_recorded": 42000,
            "store_answers_adversarial": 27000, "real_rebuilds": 9000, "emulated_rebuilds": 42000,
            "crash_restarts_from_sqlite": 11000, "arbitrary_state_roundtrips": 21000,
            "repeat_calls_while_broadcast_outstanding": 63000, "other_account_migration_intact": 43000,
            "write_faults_injected_mid_transaction": 4200, "event_mark_mined": 8700,
            "probe_idempotent_save_of_complete": 1,
        },
    },
    "manifest": {
        "technique": "online trace-specification monitor over the engine's public API (model-based: simulated chain, scripted store, randomized consumer) with a save/load cycle through the memory and SQLite stores at every step",
        "text": ("Thousands of generated migration histories (real pre-signed commits and synthetic mid-flight states; proofs, "
                 "broadcasts, rejections, inclusion, reorgs, foreign spends, rebuilds, cancellation, schedule shifts, lagging and "
                 "overshooting tip estimates, adversarial store answers) are driven through advance_migration and the state "
                 "mutators while an independent specification checks after every event: broadcast preconditions, the "
                 "broadcast-first priority, per-transaction rank monotonicity with exact rollback semantics, absorbing terminal "
                 "statuses, never-silently-stuck, and equality after a save/load through both stores (plus one pending "
                 "migration per account and the commit guard). Held on everything explored."),
        "note": ("Sampled exploration, not a proof. Trusted: the harness's own chain simulation and snapshot; rustc equality of "
                 "MigrationState. Proving is emulated; SQLite wallet truncation is compared under a constant height translation."),
    },
}
