import os

SPEC = {
    "id": "C15",
    "package": "vh-wallet",
    "bin": "c15b",
    "level": "exploration",
    "rule": ("Two engines. (a) SpanningTree: every sequence of insertions (every non-empty range x 7 priorities x force "
             "flag) up to the stated length over a small height domain is executed and into_vec() compared pointwise "
             "with the dominance model of the statement, plus seeded longer sequences [exhaustive within the bound]. "
             "(b) Wallet queue: generated wallet histories; two thirds are driven by a client that always scans a random "
             "chunk from either end of the FIRST range the wallet suggests, with new blocks, tip updates and rewinds "
             "injected; one third scan arbitrary chunks inside the wallet's known extent. After every operation the "
             "scan_queue rows must be a sorted, gap-free, non-overlapping, adjacent-merged partition; a scan must mark "
             "exactly its range Scanned; the suggestion-driven client must reach 'nothing suggested, every block "
             "birthday..tip scanned, block_fully_scanned == tip' within 2*blocks + 40*(tip updates + rewinds) + 20 "
             "steps. Signature (b) = (pools, out-of-order?, max batch, #rewinds, mode, accounts, set of priorities seen "
             "in the queue); non-trivial = more than 5 queue observations."),
    "exhaustive_scope": "part (a) only: all insertion sequences up to the length/domain bound reported in counters; part (b) is sampled",
    "assumptions": [
        "termination is decided as bounded progress (step bound above); histories stopped by known finding F1 (scan fails after an F1-exposing truncation) are counted, not judged",
        "scans are issued inside the extent the wallet has been told about (update_chain_tip precedes scanning above its known tip), as the property quantifies over suggested ranges",
    ],
    "tiers": {
        "quick": {"shards": 16, "budget_s": 45},
        "thorough": {"shards": 16, "budget_s": 900},
    },
    "floors": {
        "quick": {"histories": 25, "queue_partition_checks": 400, "scan_exactness_checks": 300, "syncs_completed": 8, "rewinds": 5, "distinct_nontrivial": 20,
                  "deep_state_rewind_checks": 5, "heights_compared_across_deep_state_rewinds": 60, "chain_tips_told_at_stability_edge": 8,
                  "chain_tips_told_exactly_at_stability_edge_with_subtree_roots_known": 4},
        "thorough": {"histories": 1000, "queue_partition_checks": 30000, "scan_exactness_checks": 25000, "syncs_completed": 500, "rewinds": 300, "distinct_nontrivial": 200,
                     "deep_state_rewind_checks": 300, "heights_compared_across_deep_state_rewinds": 5000, "chain_tips_told_at_stability_edge": 500},
    },
    "manifest": {
        "technique": "exhaustive small-domain enumeration against a pointwise dominance model (SpanningTree) + trace monitor on the SQLite scan queue with a bounded-progress oracle for a suggestion-following client",
        "text": "Part (a) enumerates all insertion sequences within a stated bound and compares with the statement's dominance rule; part (b) checks the queue's partition invariants and scan exactness after every operation of generated histories (including rewind_to_chain_state deeper than the pruning window, which must not lower the priority of an unscanned range, and chain tips told at the edge of the 100-block stability rule) and decides termination of a suggestion-following client as bounded progress. Held on everything executed.",
        "note": "(a) exhaustive only within the bound; (b) sampled histories; liveness restated as a step bound; histories hitting known finding F1 stop early and are counted separately.",
    },
}

C15A_SRC = os.path.join(os.path.dirname(os.path.dirname(os.path.dirname(os.path.abspath(__file__)))), "harness", "vh-pure", "src", "bin", "c15a.rs")


def run(tier, seed, fold):
    import driver
    from props import c15a
    driver.standard_run(SPEC, tier, seed, fold, tag="wallet-queue")
    a = dict(c15a.SPEC)
    shards = driver.standard_run(a, tier, seed, fold, tag="spanning-tree")
    c15a.post(shards, fold, tier, seed)
    # part (a)'s floors apply too
    for k, v in c15a.SPEC["floors"][tier].items():
        if k in ("evaluations", "distinct_nontrivial"):
            continue
        have = fold.counters.get(k, 0)
        if have < v:
            fold.broken.append("coverage floor (part a) not met: %s=%d < %d" % (k, have, v))
    fold.count("engines_run", 2)
    if tier == "thorough":
        driver.miri_run("C15", "spanning", seed, fold, procs=12, ops=400)
