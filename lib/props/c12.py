import concurrent.futures as cf
import json
import os
import sys

SPEC = {
    "id": "C12",
    "package": "vh-pure",
    "bin": "c12",
    "level": "exploration",
    "events": True,
    "rule": ("(1) valid requests - the crate's arb_zip321_request / _sequential on Main, Test and Regtest plus boundary requests (indices "
             "0,1,9,10,99,...,9999 and random, 1..20 payments, labels/messages/extra values over ASCII delimiters, controls, Latin, BMP, "
             "astral, combining/bidi/zero-width characters and escape look-alikes such as '%41' or '100%', memos of 0..512 bytes incl. all "
             "lead-byte classes and trailing zeros, amounts 0, 1, 10^k, k*10^8, 10^8+-1, MAX_MONEY-2..MAX_MONEY, random; every recipient "
             "kind) are built through Payment::new / from_indexed, rendered, parsed back and compared field by field; the rendered URI and "
             "the request go to the Python reference, which must find the URI inside the ZIP 321 grammar, breaking no rule, and denoting "
             "exactly that request (exact decimal<->zatoshi conversion with integers). (2) grammar-mutated URIs from a URI model "
             "(amount spellings, index spellings, duplicates, req- parameters, memo forms, zero amounts, missing addresses, percent-escape "
             "and alphabet forms, parameter-name forms, parameters without '=', address forms, separators/scheme/fragment surgery, many "
             "payments, bare forms): from_uri must not panic; an accepted URI must break none of the rules of the property (judged by the "
             "reference on a lenient split of the raw text), its amounts must have exactly the predicted zatoshi value, its payments must "
             "obey the rule list, and its re-rendering must parse to the same request. (3) Payment::new / TransactionRequest::new / "
             "from_indexed / total and MemoBytes / Memo / base64 conversions against the rule list resp. exact bytes. (4) arbitrary strings "
             "(random bytes, token soup, edited valid URIs). Distinct by (source, operator, outcome) resp. request shape; non-trivial = "
             "everything except rejected fuzz strings."),
    "assumptions": [
        "address validity and kind (transparent-only / can receive a memo) are taken from zcash_address (subject of C10) and handed to the "
        "reference inside each event",
        "lib/pyref/zip321.py is validated before each run against the ZIP 321 examples quoted in the crate's tests (21 URIs), decimal "
        "conversion and base64url vectors",
        "divergence from the full ABNF that breaks none of the rules listed in the property (e.g. 'zcash:' alone, an empty query, "
        "malformed percent escapes kept literally, refusing parameters without '=') is reported under diag_* counters, not as a violation",
        "other_params order is not significant when requests are compared",
    ],
    "tiers": {
        "quick": {"shards": 12, "budget_s": 35},
        "thorough": {"shards": 16, "budget_s": 600},
    },
    "floors": {
        "quick": {
            "evaluations": 250_000, "distinct_nontrivial": 2500, "selftest_spec_examples": 21, "spec_examples_run": 21,
            "roundtrips": 30_000, "roundtrips_arb-indexed": 5000, "roundtrips_arb-sequential": 5000, "roundtrips_boundary": 10_000, "roundtrips_boundary-sequential": 5000,
            "ref_judged_rendered": 30_000, "ref_rendered_exact": 30_000, "ref_amounts_checked_exact": 150_000,
            "mutated_uris": 60_000, "from_uri_calls": 150_000, "from_uri_ok": 15_000, "ref_judged_accepted": 15_000, "ref_accepted_agree": 15_000,
            "rerender_checks": 15_000, "total_checks": 40_000, "fuzz_strings": 100_000, "fuzz_accepted": 1000,
            "from_uri_err_ParseError": 50_000, "from_uri_err_DuplicateParameter": 2000, "from_uri_err_RecipientMissing": 2000,
            "from_uri_err_TransparentMemo": 200, "from_uri_err_ZeroValuedTransparentOutput": 1000,
            "op_amount-form": 4000, "op_index-form": 2500, "op_index-form-one-param": 1000, "op_duplicate-param-same-value": 1000,
            "op_duplicate-param-other-value": 1000, "op_lead-and-address-param": 1000, "op_same-name-other-index": 1000, "op_req-param": 2500,
            "op_memo-form": 2500, "op_zero-amount": 2500, "op_missing-address": 800, "op_param-for-index-without-address": 1000,
            "op_value-form": 2500, "op_name-form": 2500, "op_param-without-value": 1000, "op_address-form": 1000, "op_many-payments": 1000,
            "op_bare-forms": 1000, "op_trailing-ampersand": 1000, "op_scheme-form": 1000, "op_fragment": 1000,
            "accepted_after_amount-form": 1000, "accepted_after_index-form": 300, "accepted_after_zero-amount": 1000,
            "accepted_after_memo-form": 200, "accepted_after_value-form": 1000, "accepted_after_name-form": 1000,
            "accepted_after_many-payments": 1000, "accepted_after_same-name-other-index": 1000, "accepted_after_none": 1000,
            "ref_refused_and_rule_broken:bad-amount": 2000, "ref_refused_and_rule_broken:bad-index": 2000,
            "ref_refused_and_rule_broken:duplicate-param": 2000, "ref_refused_and_rule_broken:unknown-required": 2000,
            "ref_refused_and_rule_broken:missing-recipient": 2000, "ref_refused_and_rule_broken:memo-to-recipient-without-memo": 300,
            "ref_refused_and_rule_broken:zero-valued-transparent-output": 1000, "ref_refused_and_rule_broken:invalid-recipient": 2000,
            "ref_refused_and_rule_broken:bad-memo": 1000,
            "payment_new_calls": 15_000, "ref_judged_constructor": 15_000, "payment_new_err_TransparentMemo": 3000,
            "payment_new_err_ZeroValuedTransparentOutput": 800, "request_new_9999_ok": 1, "request_new_10000_refused": 1,
            "from_indexed_calls": 60, "memo_cases": 15_000, "memo_parse_refused": 3000,
            "address_pool_transparent_only": 500, "address_pool_memo_capable": 500, "address_pool_neither": 5,
        },
        "thorough": {
            "evaluations": 3_000_000, "distinct_nontrivial": 3000, "selftest_spec_examples": 21, "spec_examples_run": 21,
            "roundtrips": 300_000, "ref_rendered_exact": 300_000, "ref_amounts_checked_exact": 1_500_000, "mutated_uris": 600_000,
            "from_uri_ok": 150_000, "ref_accepted_agree": 150_000, "fuzz_strings": 1_500_000, "memo_cases": 300_000,
            "op_amount-form": 40_000, "op_index-form": 25_000, "op_req-param": 25_000, "op_memo-form": 25_000, "op_value-form": 25_000,
            "ref_refused_and_rule_broken:bad-amount": 20_000, "ref_refused_and_rule_broken:duplicate-param": 20_000,
            "request_new_9999_ok": 1, "request_new_10000_refused": 1,
        },
    },
    "manifest": {
        "technique": "round-trip and differential testing of zip321 against an independent Python recogniser of the ZIP 321 grammar and rule "
                     "list with exact integer amount conversion; grammar-aware URI mutation; fuzzing; panics caught per call",
        "text": "Every generated valid request rendered to a URI inside the grammar that denotes exactly that request and parsed back equal; "
                "no accepted mutated or arbitrary URI broke a rule of the property or yielded an inexact amount; constructors and memo "
                "conversions behaved as the rule list says.",
        "note": "Sampled. Trusted: zcash_address for address validity/kind; the Python reference (validated on the ZIP's examples).",
    },
}

_LIB = os.path.dirname(os.path.dirname(os.path.abspath(__file__)))


def _ref():
    p = os.path.join(_LIB, "pyref")
    if p not in sys.path:
        sys.path.insert(0, p)
    import zip321
    return zip321


def _cmp_structure(R, pays, req, strict_ok, kinds):
    """First differing field between the reference's reading of the URI and the crate's request, or None."""
    if sorted(pays.keys()) != sorted(int(k) for k in req.keys()):
        return "indices"
    strings = R.predicted_strings(pays) if strict_ok else None
    for idx, s in pays.items():
        q = req[str(idx)]
        if kinds.get(s["address"], {}).get("canonical", s["address"]) != q["address"]:
            return "address"
        if s["amount"] != q["amount"]:
            return "amount"
        want_memo = None if s["memo"] is None else R.memo_canonical_512(s["memo"]).hex()
        if want_memo != q["memo"]:
            return "memo"
        if strings is not None:
            d = strings[idx]
            if d["label"] != q["label"]:
                return "label"
            if d["message"] != q["message"]:
                return "message"
            if sorted(d["other"]) != sorted((n, v) for n, v in q["other"]):
                return "other-params"
    return None


_RESULT_RULE = {"err:TransparentMemo": "memo-to-recipient-without-memo", "err:ZeroValuedTransparentOutput": "zero-valued-transparent-output"}


def judge_file(path):
    R = _ref()
    out = {"viol": {}, "counters": {}, "inconclusive": {}, "sigs": []}

    def cnt(k, n=1):
        out["counters"][k] = out["counters"].get(k, 0) + n

    def viol(sig, detail, replay):
        e = out["viol"].setdefault(sig, {"count": 0, "examples": []})
        e["count"] += 1
        if len(e["examples"]) < 3:
            e["examples"].append({"detail": detail[:1500], "replay": replay})

    def inconc(k):
        out["inconclusive"][k] = out["inconclusive"].get(k, 0) + 1

    with open(path) as f:
        for line in f:
            e = json.loads(line)
            t = e["t"]
            if t == "ctor":
                cnt("ref_judged_constructor")
                want = R.payment_new_expected(e["kind"], e["amount"], e["memo"])
                got = e["result"]
                both = e["memo"] and not e["kind"]["memo"] and e["kind"]["t_only"] and e["amount"] == 0
                if got == "ok" and want != "ok":
                    viol("C12:Payment::new:accepted-forbidden:" + want, "Payment::new accepted %s" % json.dumps(e), e)
                elif got != "ok" and want == "ok":
                    viol("C12:Payment::new:refused-allowed:" + got, "Payment::new refused %s" % json.dumps(e), e)
                elif got != "ok" and not both and _RESULT_RULE.get(got) != want:
                    viol("C12:Payment::new:wrong-reason", "%s, rule list says %s" % (got, want), e)
                continue
            uri = e["uri"]
            kinds = e["kinds"]
            broken, pays, undecided = R.rules(uri, kinds)
            s_ok, s_why = R.strict(uri)
            cnt("ref_judged")
            if undecided:
                inconc("address-not-classified-by-shard")
                continue
            replay = {"uri": uri, "origin": e.get("origin", e.get("src")), "op": e.get("op"), "reference_rules_broken": broken,
                      "reference_grammar": s_why or "ok"}
            if t == "rt":
                cnt("ref_judged_rendered")
                if broken:
                    viol("C12:to_uri:rendered-uri-breaks-rule:" + broken[0].split(":")[0], "rendered URI breaks %s: %s" % (broken, uri[:400]), replay)
                    continue
                if not s_ok:
                    viol("C12:to_uri:rendered-uri-outside-grammar:" + s_why, "rendered URI is not derivable from the ZIP 321 grammar (%s): %s" % (s_why, uri[:400]), replay)
                    continue
                d = _cmp_structure(R, pays, e["req"], True, kinds)
                if d:
                    viol("C12:to_uri:rendered-uri-denotes-different-request:" + d,
                         "the rendered URI, read per ZIP 321, differs from the request in %s: %s" % (d, uri[:400]), dict(replay, req=e["req"]))
                else:
                    cnt("ref_rendered_exact")
                    for idx, s in pays.items():
                        if s["amount"] is not None:
                            cnt("ref_amounts_checked_exact")
                continue
            # a URI offered to from_uri
            accepted = e["rust"] == "ok"
            if accepted:
                cnt("ref_judged_accepted")
                if broken:
                    viol("C12:from_uri:accepted-invalid:" + broken[0].split(":")[0],
                         "accepted (%s/%s) although it breaks %s: %s" % (e.get("origin"), e.get("op"), broken, uri[:400]), dict(replay, req=e["req"]))
                    continue
                d = _cmp_structure(R, pays, e["req"], s_ok, kinds)
                if d:
                    viol("C12:from_uri:wrong-value:" + d, "parsed request differs from the URI's meaning in %s: %s" % (d, uri[:400]), dict(replay, req=e["req"]))
                else:
                    cnt("ref_accepted_agree")
                    for idx, s in pays.items():
                        if s["amount"] is not None:
                            cnt("ref_amounts_checked_exact")
                if not s_ok:
                    cnt("diag_accepted_outside_grammar:" + s_why)
            else:
                cnt("ref_judged_refused")
                if broken:
                    cnt("ref_refused_and_rule_broken:" + broken[0].split(":")[0])
                elif not s_ok:
                    cnt("ref_refused_and_outside_grammar:" + s_why)
                else:
                    # inside the grammar, no rule broken, yet refused: allowed by the property (it only
                    # constrains what is accepted), reported so that the reader sees where the crate is stricter
                    cnt("diag_refused_though_valid:%s:%s" % (e.get("op"), e["rust"]))
    return out


def run(tier, seed, fold):
    import driver
    R = _ref()
    problems, stats = R.selftest(driver.REPO)
    for p in problems:
        fold.broken.append("zip321.py self-test: " + p)
    fold.count("selftest_spec_examples", stats.get("spec_examples", 0))
    if problems:
        return
    d = os.path.join(driver.RUNS, "C12-aux")
    os.makedirs(d, exist_ok=True)
    cases = os.path.join(d, "cases.json")
    json.dump(R.spec_examples(driver.REPO), open(cases, "w"))
    bindir = driver.cargo_build(SPEC["package"], [SPEC["bin"]])
    t = SPEC["tiers"][tier]
    extra = dict(t.get("extra") or {})
    extra["cases"] = cases
    shards = driver.run_shards("C12", os.path.join(bindir, SPEC["bin"]), t["shards"], seed, tier, t["budget_s"], extra=extra, events=True)
    fold.add_shards(shards)
    post(shards, fold, tier, seed)
    if tier == "thorough":
        # Miri: undefined behaviour / invalid values in everything the parser reaches
        driver.miri_run("C12", "zip321", seed, fold, procs=12, ops=250)


def post(shards, fold, tier, seed):
    paths = [s.events_path for s in shards if s.events_path and os.path.exists(s.events_path)]
    if not paths:
        return
    with cf.ProcessPoolExecutor(max_workers=min(len(paths), os.cpu_count() or 8)) as ex:
        for res in ex.map(judge_file, paths):
            for k, v in res["counters"].items():
                fold.count(k, v)
            for sig, v in res["viol"].items():
                fold.violation(sig, v["examples"], v["count"])
            for k, v in res["inconclusive"].items():
                fold.inconc(k, v)
