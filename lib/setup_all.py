"""setup_cmd: build the harness binaries of every registered check once from files on disk (offline)."""
import os, sys
import driver

EXTRA_BINS = {"C15": [("vh-pure", "c15a")]}
PLAIN = {"C09", "C16"}


def main():
    driver.ensure_lockfile()
    ready = open(os.path.join(driver.VERIF, "lib", "ready.txt")).read().split()
    by_pkg = {}
    plain = {}
    for pid in ready:
        spec = driver.load_spec(pid).SPEC
        by_pkg.setdefault(spec["package"], set()).add(spec["bin"])
        for pkg, b in EXTRA_BINS.get(pid, []):
            by_pkg.setdefault(pkg, set()).add(b)
        if pid in PLAIN:
            plain.setdefault(spec["package"], set()).add(spec["bin"])
    rc = 0
    for pkg, bins in sorted(by_pkg.items()):
        try:
            driver.cargo_build(pkg, sorted(bins))
        except driver.BuildError as e:
            print(e)
            rc = 1
    for pkg, bins in sorted(plain.items()):
        try:
            driver.cargo_build(pkg, sorted(bins), profile="plain")
        except driver.BuildError as e:
            print(e)
            rc = 1
    # reference oracles validate themselves against the vectors shipped in /repo
    try:
        import pyref.selftest as st
        if not st.main():
            rc = 1
    except ImportError:
        pass
    return rc
