"""setup_cmd: build every harness package once from files on disk (offline)."""
import os, sys
import driver


def main():
    driver.ensure_lockfile()
    pkgs = ["vh-pure", "vh-tx", "vh-wallet"]
    rc = 0
    for p in pkgs:
        try:
            driver.cargo_build(p)
        except driver.BuildError as e:
            print(e)
            rc = 1
    # reference oracles validate themselves against the vectors shipped in /repo
    try:
        import pyref.selftest as st
        if not st.main():
            rc = 1
    except ImportError:
        pass
    return rc
