//! C14 — built transactions contain what was requested and pay exactly the fee.
//!
//! Random requests (0–4 inputs/outputs per pool, boundary values, memos, recipients whose keys the
//! harness owns, target heights on both sides of every upgrade, padding policies, standard and
//! non-standard fee rules) are funded against the builder's own `get_fee` answer so that
//! inputs − outputs − fee ∈ {−1, 0, +1, far}. The request is then given to
//!
//!   * `Builder::build` with the Sapling mock provers / `mock_build`   (transparent + Sapling),
//!   * `Builder::build_for_pczt` → Creator (→ IoFinalizer → Signer → SpendFinalizer)  (all pools),
//!   * `DeferredPcztBuilder::build_for_pczt`                            (Orchard/Ironwood, V6),
//!   * `Builder::build` with the real Sapling and Orchard provers        (a sample, all pools),
//!
//! and whatever comes out is judged by `oracle.rs` from the request alone.

mod kit;
mod oracle;

use std::sync::OnceLock;

use kit::*;
use oracle::*;
use rand::Rng;
use rand_chacha::ChaCha20Rng;
use sapling::prover::mock::{MockOutputProver, MockSpendProver};
use vh_common::{Args, Reporter, Tier, guard, json, panic_class};
use zcash_primitives::transaction::{
    Transaction,
    builder::{BuildResult, DeferredPcztBuilder, Error as BuildError, PcztResult},
};
use zcash_proofs::prover::LocalTxProver;
use zcash_protocol::{consensus::BlockHeight, value::Zatoshis};

#[derive(Clone, Copy, Debug, PartialEq, Eq)]
enum Path {
    /// `build` with mock Sapling provers (any fee rule)
    Build,
    /// `mock_build` (standard ZIP 317 rule only)
    MockBuild,
    /// `build_for_pczt` + PCZT roles
    Pczt,
    /// `DeferredPcztBuilder`
    Deferred,
    /// `build` with real provers
    Proved,
}

struct Ctx {
    r: Reporter,
    w: World,
    prover: OnceLock<LocalTxProver>,
}

enum Emitted {
    Tx(Box<BuildResult>),
    Pczt(Box<PcztResult<zcash_protocol::local_consensus::LocalNetwork>>),
}

fn viol(c: &mut Ctx, path: Path, class: &str, detail: String, req: &Request) {
    c.r.violation(
        &format!("C14:{}:{class}", path_name(path)),
        detail,
        json!({"path": path_name(path), "request": req.to_json()}),
    );
}

/// Class signature of a panic: known sites get a readable name.
fn panic_sig(p: &str) -> String {
    if p.contains("cannot be present when serializing") || p.contains("when serializing to the V") {
        "panic:freeze-unwrap:bundle-not-representable-in-version @ zcash_primitives/src/transaction/builder.rs".into()
    } else {
        format!("panic:{}", panic_class(p))
    }
}

fn path_name(p: Path) -> &'static str {
    match p {
        Path::Build => "build",
        Path::MockBuild => "mock_build",
        Path::Pczt => "build_for_pczt",
        Path::Deferred => "deferred_pczt",
        Path::Proved => "build-proved",
    }
}

/// One request through one path.
fn run_case(c: &mut Ctx, rng: &mut ChaCha20Rng, path: Path, mut req: Request) {
    if path == Path::MockBuild {
        req.fee = FeeSpec::Std;
    }
    if matches!(path, Path::Build | Path::MockBuild) {
        // `build` proves Orchard-family bundles for real (proving key ≈ 15 s + seconds per action);
        // these two paths are the proof-free volume, so no all-dummy bundle may be demanded here.
        // (`bundle_required` is exercised by the PCZT and real-prover paths.)
        req.orchard_pad.required = false;
        req.ironwood_pad.required = false;
    }
    if path == Path::Deferred {
        return run_deferred(c, rng, req);
    }
    // pass 1: learn the builder's own fee for this shape
    let mut mrng = rng.clone();
    let m0 = materialise(&c.w, &req, &mut mrng);
    let rule = req.fee.rule();
    let fee = match guard(|| make_builder(&c.w, &req, &m0).map(|(b, _)| b.get_fee(&rule))) {
        Err(p) => {
            c.r.case(&req.shape(), true);
            return viol(c, path, &panic_sig(&p), format!("add/get_fee panicked: {p}"), &req);
        }
        Ok(Err(refusal)) => {
            c.r.case(&("refused", req.shape()), false);
            c.r.count(&format!("refused:{}:{}", refusal.step, refusal.err), 1);
            c.r.count("requests_refused_while_adding", 1);
            return;
        }
        Ok(Ok(Err(fe))) => {
            c.r.case(&("fee-error", req.shape()), false);
            c.r.count(&format!("get_fee_error:{}", format!("{fe:?}").chars().take(40).collect::<String>()), 1);
            return;
        }
        Ok(Ok(Ok(f))) => u64::from(f),
    };
    let achievable = req.balance_to(fee);
    if !achievable {
        c.r.count("delta_not_achievable", 1);
    }
    // pass 2: the real thing
    let mut mrng = rng.clone();
    let m = materialise(&c.w, &req, &mut mrng);
    let shape = req.shape();
    let seed: u64 = rng.r#gen();
    let res = guard(|| -> Result<Result<Emitted, String>, AddRefusal> {
        let (b, keys) = make_builder(&c.w, &req, &m)?;
        let brng = vh_common::rng(seed, 77);
        Ok(match path {
            Path::Build => b
                .build(&keys.tset, &keys.s_extsks, &keys.o_saks, brng, &MockSpendProver, &MockOutputProver, &rule)
                .map(|t| Emitted::Tx(Box::new(t)))
                .map_err(|e| err_class(&e)),
            Path::MockBuild => b
                .mock_build(&keys.tset, &keys.s_extsks, &keys.o_saks, brng)
                .map(|t| Emitted::Tx(Box::new(t)))
                .map_err(|e| err_class(&e)),
            Path::Proved => {
                let p = c.prover.get_or_init(LocalTxProver::bundled);
                b.build(&keys.tset, &keys.s_extsks, &keys.o_saks, brng, p, p, &rule)
                    .map(|t| Emitted::Tx(Box::new(t)))
                    .map_err(|e| err_class(&e))
            }
            Path::Pczt => b
                .build_for_pczt(brng, &rule)
                .map(|t| Emitted::Pczt(Box::new(t)))
                .map_err(|e| err_class(&e)),
            Path::Deferred => unreachable!(),
        })
    });
    c.r.case(&(path_name(path), &shape), true);
    c.r.count(&format!("cases:{}", path_name(path)), 1);
    c.r.count(&format!("epoch:{:?}", req.epoch()), 1);
    match res {
        Err(p) => viol(c, path, &panic_sig(&p), format!("build panicked: {p}"), &req),
        Ok(Err(refusal)) => {
            c.r.count(&format!("refused:{}:{}", refusal.step, refusal.err), 1);
            c.r.count("requests_refused_while_adding", 1);
        }
        Ok(Ok(Err(e))) => judge_error(c, path, &req, fee, &e),
        Ok(Ok(Ok(em))) => judge_emitted(c, path, &req, &m, fee, em),
    }
}

/// (class, amount) of a build error
fn err_class<FE: std::fmt::Debug>(e: &BuildError<FE>) -> String {
    match e {
        BuildError::InsufficientFunds(a) => format!("InsufficientFunds={}", i64::from(*a)),
        BuildError::ChangeRequired(a) => format!("ChangeRequired={}", i64::from(*a)),
        other => be(other),
    }
}

fn judge_error(c: &mut Ctx, path: Path, req: &Request, _fee: u64, e: &str) {
    let (class, amount) = match e.split_once('=') {
        Some((c, a)) => (c.to_string(), a.parse::<i64>().ok()),
        None => (e.to_string(), None),
    };
    c.r.count(&format!("build_err:{class}"), 1);
    c.r.count("builds_refused", 1);
    match (class.as_str(), req.delta) {
        ("InsufficientFunds", d) if d < 0 => {
            c.r.count("unbalanced_refused", 1);
            if d == -1 {
                c.r.count("refused_at_fee_minus_1", 1);
            }
            if amount == Some(-d) {
                c.r.count("error_amount_exact", 1);
            } else {
                c.r.count("error_amount_differs", 1);
                c.r.note(format!("InsufficientFunds({amount:?}) for a shortfall of {}", -d));
            }
        }
        ("ChangeRequired", d) if d > 0 => {
            c.r.count("unbalanced_refused", 1);
            if d == 1 {
                c.r.count("refused_at_fee_plus_1", 1);
            }
            if amount == Some(d) {
                c.r.count("error_amount_exact", 1);
            } else {
                c.r.count("error_amount_differs", 1);
                c.r.note(format!("ChangeRequired({amount:?}) for a surplus of {d}"));
            }
        }
        ("InsufficientFunds" | "ChangeRequired", d) => {
            // The builder disagrees with its own get_fee about the balance. Not an emission, so not
            // a refutation of the statement; recorded (a floor on builds_ok keeps this from hiding).
            c.r.count("balance_error_inconsistent_with_get_fee", 1);
            c.r.note(format!("{e} although inputs - outputs - get_fee() = {d} [{}]", path_name(path)));
        }
        (cl, _) if cl.starts_with("TargetIncompatible") => {
            c.r.count("version_refused", 1);
        }
        _ => {}
    }
}

fn judge_emitted(c: &mut Ctx, path: Path, req: &Request, m: &Materialised, fee: u64, em: Emitted) {
    c.r.count("builds_ok", 1);
    c.r.count(&format!("builds_ok:{}", path_name(path)), 1);
    if req.delta != 0 {
        let class = if req.delta.abs() == 1 {
            "emitted-unbalanced:off-by-one"
        } else {
            "emitted-unbalanced"
        };
        viol(
            c,
            path,
            class,
            format!(
                "a transaction was emitted although inputs - outputs - fee = {} (builder's get_fee = {fee})",
                req.delta
            ),
            req,
        );
    }
    let mut obs = Observed::default();
    let mut so = SigObs::new();
    let mut findings: Vec<Finding> = vec![];
    match em {
        Emitted::Tx(res) => {
            let tx: &Transaction = res.transaction();
            // Judge the wire form (what would be broadcast), not only the in-memory value.
            let mut bytes = vec![];
            let wire = match tx.write(&mut bytes) {
                Ok(()) => match Transaction::read(&bytes[..], tx.consensus_branch_id()) {
                    Ok(t2) => {
                        if t2.txid() == tx.txid() {
                            c.r.count("tx_reparsed_same_txid", 1);
                        } else {
                            findings.push(("reparsed-txid-differs".into(), "write/read changes the txid".into()));
                        }
                        Some(t2)
                    }
                    Err(e) => {
                        findings.push(("built-tx-does-not-parse".into(), format!("{e}")));
                        None
                    }
                },
                Err(e) => {
                    findings.push(("built-tx-does-not-serialise".into(), format!("{e}")));
                    None
                }
            };
            let tx: &Transaction = wire.as_ref().unwrap_or(tx);
            findings.extend(check_contents(&c.w, req, m, &**tx, &mut obs));
            findings.extend(check_signatures_tx(&c.w, req, m, tx, &mut so));
            // event for the Python ZIP 244 / ZIP 243 reference: the digests the signatures were
            // verified under must be the specification's digests for those coins
            if c.r.has_events() && !so.digests.is_empty() && c.r.counter("sighash_events_logged") < 400 {
                let vin: Vec<([u8; 32], u32)> = tx
                    .transparent_bundle()
                    .map(|b| b.vin.iter().map(|i| (*i.prevout().hash(), i.prevout().n())).collect())
                    .unwrap_or_default();
                if let Some(spent) = coins_in_vin_order(req, m, &vin) {
                    let mut raw = vec![];
                    if tx.write(&mut raw).is_ok() {
                        c.r.count("sighash_events_logged", 1);
                        c.r.event(&json!({
                            "kind": "sighash",
                            "path": path_name(path),
                            "raw": hex::encode(&raw),
                            "branch_id": u32::from(tx.consensus_branch_id()),
                            "coins": spent.iter().map(|(_, c)| json!([u64::from(c.value()), hex::encode(&c.script_pubkey().0.0)])).collect::<Vec<_>>(),
                            "inputs": so.digests.iter().map(|(i, ht, d, sc)| json!({"index": i, "hash_type": ht, "digest": hex::encode(d), "script_code": hex::encode(sc)})).collect::<Vec<_>>(),
                        }));
                    }
                }
            }
            // the library's own accounting must agree with ours
            let lib_fee = tx.fee_paid(|op| {
                Ok::<_, zcash_protocol::value::BalanceError>(
                    req.t_in
                        .iter()
                        .find(|t| t.outpoint == (*op.hash(), op.n()))
                        .map(|t| Zatoshis::from_u64(t.value).unwrap()),
                )
            });
            match lib_fee {
                Ok(Some(f)) if u64::from(f) as i128 == obs.fee_paid => c.r.count("fee_paid_agrees_with_oracle_sum", 1),
                other => {
                    if findings.is_empty() {
                        findings.push((
                            "fee_paid-disagrees-with-summed-balances".into(),
                            format!("TransactionData::fee_paid = {other:?}, summed pool balances = {}", obs.fee_paid),
                        ));
                    }
                }
            }
            if path == Path::Proved {
                verify_proved(c, req, m, tx, &mut findings);
            }
        }
        Emitted::Pczt(res) => {
            let PcztResult { pczt_parts, .. } = *res;
            findings.extend(judge_pczt(c, req, m, pczt_parts, &mut obs, &mut so));
        }
    }
    for (mut class, detail) in findings {
        if path == Path::Deferred && class == "fee-paid-differs-from-rule" {
            let idle_i = req.i_spend.is_empty() && req.i_out.is_empty() && obs.shape.i_actions == 0;
            let idle_o = req.o_spend.is_empty() && req.o_out.is_empty() && obs.shape.o_actions == 0;
            if (idle_i && req.ironwood_pad.required) || (idle_o && req.orchard_pad.required) {
                class = "fee-paid-differs-from-rule:required-empty-bundle-charged-but-not-built".into();
            }
        }
        viol(c, path, &class, detail, req);
    }
    // coverage
    c.r.count("outputs_decrypted_by_recipient", obs.outputs_decrypted);
    c.r.count("ovk_recovered", obs.ovk_recovered);
    if obs.ovk_not_recovered > 0 {
        c.r.count("ovk_not_recovered", obs.ovk_not_recovered);
        for n in &obs.ovk_notes {
            c.r.note(format!("an output added with an OVK could not be recovered with it (diagnostic; not part of the statement): {n} {:?}", req.epoch()));
        }
    }
    c.r.count("padding_outputs_seen", obs.padding_outputs);
    c.r.count("padding_outputs_decrypted_zero", obs.padding_decrypted_zero);
    c.r.count("p2pkh_signatures_verified", so.p2pkh_verified);
    c.r.count("p2sh_multisig_inputs_verified", so.p2sh_verified);
    c.r.count("interpreter_accepted_p2pkh", so.interp_p2pkh);
    c.r.count("interpreter_accepted_p2sh", so.interp_p2sh);
    c.r.count("interpreter_accepted_p2sh_unsorted_keys", so.interp_p2sh_unsorted);
    c.r.count("interpreter_accepted_p2sh_surplus_signers", so.interp_p2sh_surplus);
    c.r.count(&format!("interpreter_accepted:{}", path_name(path)), so.interp_p2pkh + so.interp_p2sh);
    if matches!(path, Path::Pczt) {
        c.r.count("interpreter_accepted_p2sh_unsorted_keys:pczt", so.interp_p2sh_unsorted);
    }
    if obs.order_differs {
        c.r.count("transparent_order_differs", 1);
    }
    let s = &obs.shape;
    if s.o_actions > 0 {
        c.r.count("ok_with_orchard", 1);
        if s.o_actions > req.o_spend.len().max(req.o_out.len()) {
            c.r.count("ok_with_orchard_padding_actions", 1);
        }
    }
    if s.i_actions > 0 {
        c.r.count("ok_with_ironwood", 1);
        if s.i_actions > req.i_spend.len().max(req.i_out.len()) {
            c.r.count("ok_with_ironwood_padding_actions", 1);
        }
    }
    if s.s_spends + s.s_outputs > 0 {
        c.r.count("ok_with_sapling", 1);
        if s.s_outputs > req.s_out.len() {
            c.r.count("ok_with_sapling_padding_outputs", 1);
        }
    }
    if !s.t_in_sizes.is_empty() {
        c.r.count("ok_with_transparent_inputs", 1);
        if s.t_in_sizes.len() >= 2 {
            c.r.count("ok_with_2plus_transparent_inputs", 1);
        }
    }
    if !matches!(req.fee, FeeSpec::Std) {
        c.r.count("ok_with_nonstandard_fee_rule", 1);
    }
    if obs.fee_paid > 10_000 || matches!(req.fee, FeeSpec::Custom { .. }) {
        c.r.count("ok_above_grace_or_custom", 1);
    }
    c.r.count(&format!("ok_version:{:?}", req.version), 1);
    c.r.sample(
        &format!("ok:{}", path_name(path)),
        json!({"request": req.to_json(), "shape": format!("{:?}", obs.shape), "fee_paid": obs.fee_paid.to_string()}),
    );
}

/// PCZT path: contents from the effects, padding values from the PCZT itself, signatures after
/// IoFinalizer → Signer → SpendFinalizer.
fn judge_pczt(
    c: &mut Ctx,
    req: &Request,
    m: &Materialised,
    parts: zcash_primitives::transaction::builder::PcztParts<zcash_protocol::local_consensus::LocalNetwork>,
    obs: &mut Observed,
    so: &mut SigObs,
) -> Vec<Finding> {
    use pczt::roles::{
        creator::Creator, io_finalizer::IoFinalizer, signer::Signer, spend_finalizer::SpendFinalizer, verifier::Verifier,
    };
    let mut f = vec![];
    let version = parts.version;
    let Some(p) = Creator::build_from_parts(parts) else {
        c.r.count("pczt_creator_declined_version", 1);
        return f;
    };
    let effects = match p.clone().into_effects() {
        Ok(e) => e,
        Err(e) => {
            // v4 transactions cannot be expressed as PCZT effects
            c.r.count(&format!("pczt_no_effects:{:?}:{}", version, format!("{e:?}").chars().take(30).collect::<String>()), 1);
            if matches!(version, zcash_primitives::transaction::TxVersion::V5 | zcash_primitives::transaction::TxVersion::V6) {
                f.push(("pczt-effects-unavailable".into(), format!("{e:?}")));
            }
            return f;
        }
    };
    c.r.count("pczt_effects_checked", 1);
    f.extend(check_contents(&c.w, req, m, &effects, obs));

    // padding: every spend that was not requested is zero-valued in the PCZT
    let requested_o: Vec<[u8; 32]> = m.o_notes.iter().map(|n| n.nf).collect();
    let requested_i: Vec<[u8; 32]> = m.i_notes.iter().map(|n| n.nf).collect();
    let mut pad_findings: Vec<Finding> = vec![];
    let mut pads = 0u64;
    let chk = |b: &orchard::pczt::Bundle, reqd: &Vec<[u8; 32]>, pool: &str, out: &mut Vec<Finding>, pads: &mut u64| {
        for (j, a) in b.actions().iter().enumerate() {
            if !reqd.contains(&a.spend().nullifier().to_bytes()) {
                *pads += 1;
                match a.spend().value() {
                    Some(v) if v.inner() == 0 => {}
                    other => out.push((
                        format!("{pool}-padding-spend-not-zero-valued"),
                        format!("action {j}: unrequested spend has value {other:?}"),
                    )),
                }
            }
        }
    };
    let _ = Verifier::new(p.clone())
        .with_orchard::<(), _>(|b| {
            chk(b, &requested_o, "orchard", &mut pad_findings, &mut pads);
            Ok(())
        })
        .and_then(|v| {
            v.with_ironwood::<(), _>(|b| {
                chk(b, &requested_i, "ironwood", &mut pad_findings, &mut pads);
                Ok(())
            })
        });
    c.r.count("pczt_padding_spends_checked_zero", pads);
    f.extend(pad_findings);

    // signatures
    if req.t_in.is_empty() {
        return f;
    }
    let p = match IoFinalizer::new(p).finalize_io() {
        Ok(p) => p,
        Err(e) => {
            c.r.count(&format!("pczt_io_finalizer_err:{}", format!("{e:?}").chars().take(24).collect::<String>()), 1);
            return f;
        }
    };
    let mut signer = match Signer::new(p) {
        Ok(s) => s,
        Err(e) => {
            c.r.count(&format!("pczt_signer_err:{}", format!("{e:?}").chars().take(24).collect::<String>()), 1);
            return f;
        }
    };
    let vin: Vec<([u8; 32], u32)> = effects
        .transparent_bundle()
        .map(|b| b.vin.iter().map(|i| (*i.prevout().hash(), i.prevout().n())).collect())
        .unwrap_or_default();
    for (i, op) in vin.iter().enumerate() {
        let Some(t) = req.t_in.iter().find(|t| t.outpoint == *op) else { continue };
        match t.kind {
            TInKind::P2pkh { acct, key } | TInKind::WrongKey { acct, key } => {
                if let Err(e) = signer.sign_transparent(i, &c.w.accounts[acct].tkeys[key].sk) {
                    c.r.count(&format!("pczt_sign_transparent_err:{}", format!("{e:?}").chars().take(24).collect::<String>()), 1);
                }
            }
            TInKind::P2sh { ms, ref signers } => {
                for s in signers {
                    let sk = &c.w.multisigs[ms].sks[*s];
                    if let Err(e) = signer.sign_transparent(i, sk) {
                        c.r.count(&format!("pczt_sign_transparent_err:{}", format!("{e:?}").chars().take(24).collect::<String>()), 1);
                    }
                }
            }
        }
    }
    let p = signer.finish();
    let p = match SpendFinalizer::new(p).finalize_spends() {
        Ok(p) => p,
        Err(e) => {
            c.r.count(&format!("pczt_spend_finalizer_err:{}", format!("{e:?}").chars().take(30).collect::<String>()), 1);
            return f;
        }
    };
    // A transparent-only PCZT needs no proofs: extract it and judge every input of the extracted
    // transaction as well (the Transaction Extractor does not evaluate transparent scripts).
    let shielded = !p.sapling().spends().is_empty()
        || !p.sapling().outputs().is_empty()
        || !p.orchard().actions().is_empty()
        || !p.ironwood().actions().is_empty();
    if !shielded {
        match guard(|| pczt::roles::tx_extractor::TransactionExtractor::new(p.clone()).extract()) {
            Ok(Ok(tx)) => {
                c.r.count("pczt_extracted_transparent_only", 1);
                let mut so2 = SigObs::new();
                let fx = check_signatures_tx(&c.w, req, m, &tx, &mut so2);
                c.r.count("pczt_extracted_inputs_interpreted", so2.interp_p2pkh + so2.interp_p2sh);
                for (class, detail) in fx {
                    f.push((format!("extracted:{class}"), detail));
                }
            }
            Ok(Err(e)) => c.r.count(&format!("pczt_extract_err:{}", format!("{e:?}").chars().take(30).collect::<String>()), 1),
            Err(pn) => f.push((panic_sig(&pn), format!("TransactionExtractor panicked: {pn}"))),
        }
    }
    let mut sigs: Option<Vec<Vec<u8>>> = None;
    let _ = Verifier::new(p).with_transparent::<(), _>(|b| {
        use zcash_script::script::Evaluable;
        sigs = b.inputs().iter().map(|i| i.script_sig().as_ref().map(|s| s.to_bytes())).collect();
        Ok(())
    });
    match sigs {
        Some(s) => {
            c.r.count("pczt_spends_finalised", 1);
            f.extend(check_signatures_effects(&c.w, req, m, &effects, &s, so));
        }
        None => {
            c.r.count("pczt_script_sig_missing", 1);
            // the finalised PCZT's transparent bundle does not parse any more: same dependency
            // defect as on the direct path (see oracle.rs), reported under the same class
            if req.t_in.iter().any(|t| matches!(&t.kind, TInKind::P2sh { ms, .. } if (128..=255).contains(&c.w.multisigs[*ms].redeem_bytes.len()))) {
                f.push((
                    "scriptsig-corrupt:pushdata1-length-written-as-script-number".into(),
                    "after SpendFinalizer the PCZT's transparent bundle no longer parses: the scriptSig of the 4-key multisig input pushes its 139-byte redeem script as `4c 8b 00 ..`".into(),
                ));
            }
        }
    }
    f
}

fn run_deferred(c: &mut Ctx, rng: &mut ChaCha20Rng, mut req: Request) {
    // Only Orchard / Ironwood, no witnesses; the request's other pools are dropped.
    req.t_in.clear();
    req.t_out.clear();
    req.s_spend.clear();
    req.s_out.clear();
    req.version = None;
    req.sapling_anchor = false;
    let cands: Vec<Tunable> = (0..req.o_spend.len())
        .map(Tunable::OSpend)
        .chain((0..req.i_spend.len()).map(Tunable::ISpend))
        .chain((0..req.o_out.len()).map(Tunable::OOut))
        .chain((0..req.i_out.len()).map(Tunable::IOut))
        .collect();
    req.tunable = cands.first().copied().unwrap_or(Tunable::None);
    let rule = req.fee.rule();
    type FE = String;
    let w = &c.w;
    let mk = |req: &Request| -> Result<DeferredPcztBuilder<zcash_protocol::local_consensus::LocalNetwork>, String> {
        let mut b = DeferredPcztBuilder::new::<FE>(
            net(),
            BlockHeight::from_u32(req.height),
            req.orchard_pad.to(),
            req.ironwood_pad.to(),
        )
        .map_err(|e| be(&e))?;
        if let Some(e) = req.expiry {
            b = b.with_expiry_height(BlockHeight::from_u32(e));
        }
        for s in &req.o_spend {
            b.add_orchard_spend::<FE>(w.accounts[s.acct].o_fvk.clone(), orchard_note(w, s))
                .map_err(|e| be(&e))?;
        }
        for o in &req.o_out {
            let a = &w.accounts[o.acct];
            let ovk = o.ovk.map(|(x, s)| w.accounts[x].o_ovk(s));
            let v = Zatoshis::from_u64(o.value).unwrap();
            if o.change {
                b.add_orchard_change_output::<FE>(a.o_fvk.clone(), ovk, a.o_addr(o.scope, o.div), v, memo_bytes(&o.memo))
                    .map_err(|e| be(&e))?;
            } else {
                b.add_orchard_output::<FE>(ovk, a.o_addr(o.scope, o.div), v, memo_bytes(&o.memo))
                    .map_err(|e| be(&e))?;
            }
        }
        for s in &req.i_spend {
            b.add_ironwood_spend::<FE>(w.accounts[s.acct].o_fvk.clone(), orchard_note(w, s))
                .map_err(|e| be(&e))?;
        }
        for o in &req.i_out {
            let a = &w.accounts[o.acct];
            let ovk = o.ovk.map(|(x, s)| w.accounts[x].o_ovk(s));
            b.add_ironwood_output::<FE>(ovk, a.o_addr(o.scope, o.div), Zatoshis::from_u64(o.value).unwrap(), memo_bytes(&o.memo))
                .map_err(|e| be(&e))?;
        }
        Ok(b)
    };
    let path = Path::Deferred;
    let fee = match guard(|| mk(&req).map(|b| b.get_fee(&rule))) {
        Err(p) => {
            c.r.case(&req.shape(), true);
            return viol(c, path, &panic_sig(&p), format!("panicked: {p}"), &req);
        }
        Ok(Err(e)) => {
            c.r.case(&("refused", req.shape()), false);
            c.r.count(&format!("refused:deferred:{e}"), 1);
            if req.epoch() < Epoch::Nu6_3 && e == "AnchorDeferralUnsupported" {
                c.r.count("deferred_refused_before_v6", 1);
            }
            return;
        }
        Ok(Ok(Err(e))) => {
            c.r.case(&("fee-error", req.shape()), false);
            c.r.count(&format!("get_fee_error:{}", format!("{e:?}").chars().take(40).collect::<String>()), 1);
            return;
        }
        Ok(Ok(Ok(f))) => u64::from(f),
    };
    if req.epoch() < Epoch::Nu6_3 {
        c.r.case(&req.shape(), true);
        return viol(c, path, "deferred-accepted-before-v6", "anchors deferred under a format that commits to them".into(), &req);
    }
    if !req.balance_to(fee) {
        c.r.count("delta_not_achievable", 1);
    }
    let seed: u64 = rng.r#gen();
    let res = guard(|| mk(&req).map(|b| b.build_for_pczt(vh_common::rng(seed, 78), &rule).map_err(|e| err_class(&e))));
    c.r.case(&(path_name(path), req.shape()), true);
    c.r.count("cases:deferred_pczt", 1);
    // the notes exist (for nullifier comparison) but no anchors / witnesses are requested
    let mut mrng = rng.clone();
    let m = materialise(&c.w, &req, &mut mrng);
    match res {
        Err(p) => viol(c, path, &panic_sig(&p), format!("panicked: {p}"), &req),
        Ok(Err(e)) => c.r.count(&format!("refused:deferred:{e}"), 1),
        Ok(Ok(Err(e))) => judge_error(c, path, &req, fee, &e),
        Ok(Ok(Ok(res))) => {
            // anchors (and witnesses) are deferred: nothing to compare them with
            let req2 = req.clone();
            let mut m2 = m;
            m2.anchors_deferred = true;
            judge_emitted(c, path, &req2, &m2, fee, Emitted::Pczt(Box::new(res)));
        }
    }
}

// ---------------------------------------------------------------------------------------------
// real provers: the transaction must verify as a whole
// ---------------------------------------------------------------------------------------------

static ORCHARD_VKS: OnceLock<std::sync::Mutex<Vec<(String, orchard::circuit::VerifyingKey)>>> = OnceLock::new();

fn verify_proved(c: &mut Ctx, req: &Request, mat: &Materialised, tx: &Transaction, findings: &mut Vec<Finding>) {
    use zcash_primitives::transaction::{sighash::SignableInput, sighash::signature_hash, txid::TxIdDigester};
    // shielded sighash: no transparent context needed when there are no transparent inputs
    // (for transactions with transparent inputs the coins are needed; rebuild with them)
    let td = tx.clone().into_data();
    let vin: Vec<([u8; 32], u32)> = td
        .transparent_bundle()
        .map(|b| b.vin.iter().map(|i| (*i.prevout().hash(), i.prevout().n())).collect())
        .unwrap_or_default();
    let Some(spent) = coins_in_vin_order(req, mat, &vin) else {
        return;
    };
    if !vin.is_empty() {
        c.r.count("proved_with_transparent_inputs", 1);
    }
    let coins: Vec<zcash_transparent::bundle::TxOut> = spent.into_iter().map(|c| c.1).collect();
    let td = to_sig_auth(td, coins);
    let digests = td.digest(TxIdDigester);
    let sighash = *signature_hash(&td, &SignableInput::Shielded, &digests).as_ref();
    if let Some(b) = td.sapling_bundle() {
        let p = c.prover.get_or_init(LocalTxProver::bundled);
        let (svk, ovk) = p.verifying_keys();
        let mut v = sapling::BatchValidator::new();
        let ok = v.check_bundle(b.clone(), sighash) && v.validate(&svk, &ovk, rand::rngs::OsRng);
        if ok {
            c.r.count("proved_sapling_bundles_verified", 1);
        } else {
            findings.push(("proved-sapling-bundle-does-not-verify".into(), "proofs / signatures / binding signature".into()));
        }
    }
    for (name, b) in [("orchard", td.orchard_bundle()), ("ironwood", td.ironwood_bundle())] {
        let Some(b) = b else { continue };
        let cv = b.bundle_version().circuit_version();
        let key = format!("{cv:?}");
        let vks = ORCHARD_VKS.get_or_init(|| std::sync::Mutex::new(vec![]));
        let mut g = vks.lock().unwrap();
        if !g.iter().any(|(k, _)| *k == key) {
            g.push((key.clone(), orchard::circuit::VerifyingKey::build(cv)));
        }
        let vk = &g.iter().find(|(k, _)| *k == key).unwrap().1;
        let mut bv = orchard::bundle::BatchValidator::new(vk);
        let ok = bv.add_bundle(b, sighash).is_ok() && bv.validate(rand::rngs::OsRng);
        if ok {
            c.r.count(&format!("proved_{name}_bundles_verified"), 1);
        } else {
            findings.push((format!("proved-{name}-bundle-does-not-verify"), "proof / signatures / binding signature".into()));
        }
    }
}

// ---------------------------------------------------------------------------------------------

fn base_request(height: u32) -> Request {
    Request {
        height,
        version: None,
        version_first: false,
        expiry: None,
        sapling_anchor: false,
        orchard_anchor: false,
        ironwood_anchor: false,
        orchard_pad: Pad::DEFAULT,
        ironwood_pad: Pad::DEFAULT,
        t_in: vec![],
        t_out: vec![],
        s_spend: vec![],
        s_out: vec![],
        o_spend: vec![],
        o_out: vec![],
        i_spend: vec![],
        i_out: vec![],
        fee: FeeSpec::Std,
        delta: 0,
        tunable: Tunable::TIn(0),
    }
}

fn probes(rng: &mut ChaCha20Rng) -> Vec<(Path, Request)> {
    use zcash_transparent::address::TransparentAddress;
    let mut v = vec![];
    let t_in = |rng: &mut ChaCha20Rng, n: usize| -> Vec<TIn> {
        (0..n)
            .map(|k| TIn {
                kind: TInKind::P2pkh { acct: k % 3, key: k % 4 },
                outpoint: (rng.r#gen(), k as u32),
                value: 1_000_000,
            })
            .collect()
    };
    let t_out = |n: usize| -> Vec<TOut> {
        (0..n)
            .map(|k| TOut::Pay {
                addr: TransparentAddress::PublicKeyHash([k as u8 + 1; 20]),
                value: 10_000,
            })
            .collect()
    };
    let req = Pad { required: true, min: None };
    // explicit V5 after NU6.3 while the padding policy demands an (all-dummy) Ironwood bundle
    for (ver, first) in [(Ver::V5, true), (Ver::V5, false), (Ver::V4, false)] {
        let mut r = base_request(H_NU6_3 + 1);
        r.version = Some(ver);
        r.version_first = first;
        r.ironwood_anchor = true;
        r.ironwood_pad = req;
        r.t_in = t_in(rng, 2);
        r.t_out = t_out(2);
        v.push((Path::Pczt, r));
    }
    // deferred-anchor builder with an all-dummy Ironwood bundle demanded
    {
        let mut r = base_request(H_NU6_3 + 2);
        r.orchard_anchor = true;
        r.ironwood_anchor = true;
        r.ironwood_pad = req;
        let (rho, rseed) = gen_rho_rseed(rng);
        r.o_spend = vec![OSpend { acct: 0, scope: zip32::Scope::External, div: 0, value: 50_000, rho, rseed, v3: false, bad_path: false }];
        r.tunable = Tunable::OSpend(0);
        v.push((Path::Deferred, r));
    }
    // a pool that only receives value: Orchard wallet-owned change outputs and nothing else, the
    // spends living in the other pool (and the mirror images). Through the deferred-anchor builder
    // and through the ordinary builder's PCZT path.
    {
        let spend = |rng: &mut ChaCha20Rng, v3: bool, acct: usize, value: u64| {
            let (rho, rseed) = gen_rho_rseed(rng);
            OSpend { acct, scope: zip32::Scope::External, div: 0, value, rho, rseed, v3, bad_path: false }
        };
        let out = |acct: usize, scope: zip32::Scope, value: u64, change: bool, memo: &[u8]| ShOut {
            ovk: Some((acct, zip32::Scope::Internal)),
            acct,
            scope,
            div: 0,
            value,
            memo: memo.to_vec(),
            change,
        };
        use zip32::Scope::{External, Internal};
        let shapes: Vec<(Vec<OSpend>, Vec<ShOut>, Vec<OSpend>, Vec<ShOut>)> = vec![
            // Ironwood spend, remainder to an Orchard change output only
            (vec![], vec![out(0, Internal, 80_000, true, b"change")], vec![spend(rng, true, 0, 200_000)], vec![]),
            // two Ironwood spends, two Orchard change outputs (different accounts)
            (
                vec![],
                vec![out(0, Internal, 30_000, true, b""), out(1, Internal, 40_000, true, &[0xf6])],
                vec![spend(rng, true, 0, 100_000), spend(rng, true, 1, 100_000)],
                vec![],
            ),
            // Orchard change only, the other pool with spend + output
            (vec![], vec![out(2, Internal, 25_000, true, b"c")], vec![spend(rng, true, 2, 300_000)], vec![out(1, External, 60_000, false, b"pay")]),
            // Orchard spend, remainder to an Ironwood output only
            (vec![spend(rng, false, 0, 200_000)], vec![], vec![], vec![out(0, Internal, 90_000, false, b"to ironwood")]),
            // Orchard spend + change, Ironwood output only
            (vec![spend(rng, false, 1, 250_000)], vec![out(1, Internal, 50_000, true, b"")], vec![], vec![out(2, External, 70_000, false, b"x")]),
            // Orchard change next to an Orchard spend (control)
            (vec![spend(rng, false, 0, 150_000)], vec![out(0, Internal, 60_000, true, b"")], vec![], vec![]),
        ];
        for (k, (os, oo, is, io)) in shapes.into_iter().enumerate() {
            for path in [Path::Deferred, Path::Pczt] {
                let mut r = base_request(H_NU6_3 + (k as u32 % 3));
                r.orchard_anchor = true;
                r.ironwood_anchor = true;
                r.o_spend = os.clone();
                r.o_out = oo.clone();
                r.i_spend = is.clone();
                r.i_out = io.clone();
                r.tunable = if !os.is_empty() { Tunable::OSpend(0) } else { Tunable::ISpend(0) };
                if k % 2 == 1 {
                    r.orchard_pad = Pad { required: false, min: Some(1) };
                }
                v.push((path, r));
            }
        }
    }
    // explicit V4 after NU5 while the padding policy demands an (all-dummy) Orchard bundle
    for h in [H_NU5, H_NU6_2, H_NU6_3] {
        let mut r = base_request(h);
        r.version = Some(Ver::V4);
        r.orchard_anchor = true;
        r.orchard_pad = req;
        r.t_in = t_in(rng, 2);
        r.t_out = t_out(2);
        v.push((Path::Pczt, r));
    }
    v
}

fn main() {
    vh_common::install_panic_hook();
    let args = Args::parse();
    let r = Reporter::new("C14", &args);
    let mut rng = vh_common::rng(args.shard_seed(), 14);
    let mut wrng = vh_common::rng(args.shard_seed(), 1400);
    let mut c = Ctx {
        r,
        w: World::new(&mut wrng),
        prover: OnceLock::new(),
    };
    let thorough = args.tier == Tier::Thorough;
    let max_cases = args.get_u64("cases", if thorough { 4_000 } else { 400 });
    let proved_cases = args.get_u64("proved", if thorough { 24 } else { 1 });
    let proved_share = if thorough { 0.45 } else { 0.55 };

    // Phase 0: a few hand-made requests at interaction points the random generator reaches rarely
    // (explicit version that lacks a pool whose all-dummy bundle is demanded by the padding policy).
    if args.shard == 0 {
        for (path, req) in probes(&mut rng) {
            c.r.count("handmade_probes", 1);
            let change_only = req.o_spend.is_empty() && !req.o_out.is_empty() && req.o_out.iter().all(|o| o.change);
            let before = c.r.counter("builds_ok");
            run_case(&mut c, &mut rng, path, req);
            if c.r.counter("builds_ok") > before {
                c.r.count("handmade_probes_emitted", 1);
                if change_only {
                    c.r.count(&format!("probe_orchard_change_only_emitted:{}", path_name(path)), 1);
                }
            }
        }
    }

    // Phase 1: volume without proofs, until the share of the budget reserved for proving.
    let mut n = 0u64;
    while n < max_cases && c.r.frac_left() > proved_share {
        n += 1;
        let roll = rng.gen_range(0..100);
        let (path, opts) = if roll < 30 {
            (
                Path::Build,
                GenOpts {
                    orchard_family: false,
                    hostile: true,
                    pczt_heights: false,
                    balanced_only: false,
                    big_multisig: true,
                    max_io: 4,
                },
            )
        } else if roll < 40 {
            (
                Path::MockBuild,
                GenOpts {
                    orchard_family: false,
                    hostile: true,
                    pczt_heights: false,
                    balanced_only: false,
                    big_multisig: true,
                    max_io: 4,
                },
            )
        } else if roll < 90 {
            (
                Path::Pczt,
                GenOpts {
                    orchard_family: true,
                    hostile: true,
                    pczt_heights: rng.gen_bool(0.9),
                    balanced_only: false,
                    big_multisig: true,
                    max_io: 4,
                },
            )
        } else {
            (
                Path::Deferred,
                GenOpts {
                    orchard_family: true,
                    hostile: false,
                    pczt_heights: true,
                    balanced_only: false,
                    big_multisig: true,
                    max_io: 3,
                },
            )
        };
        let mut req = gen_request(&mut rng, opts);
        if path == Path::Deferred && req.height < H_NU6_3 && rng.gen_bool(0.9) {
            req.height = H_NU6_3 + rng.gen_range(0..3);
        }
        run_case(&mut c, &mut rng, path, req);
    }
    c.r.count("unproved_cases", n);

    // Phase 2: a sample with the real provers. Each shard sticks to one Orchard circuit generation
    // (one proving key ≈ 15 s to build).
    let gens: [(u32, u32); 3] = [(H_NU5, H_NU6_2 - 1), (H_NU6_2, H_NU6_3 - 1), (H_NU6_3, 50_000)];
    let (lo, hi) = gens[(args.shard as usize + args.seed as usize) % 3];
    // hand-made: all-dummy bundle demanded in a pool the explicit version lacks (needs real proving)
    if proved_cases > 0 && args.shard < 3 {
        let mut ps = vec![];
        let t_in = |rng: &mut ChaCha20Rng| TIn {
            kind: TInKind::P2pkh { acct: 0, key: 0 },
            outpoint: (rng.r#gen(), 0),
            value: 1_000_000,
        };
        let t_out = || TOut::Pay {
            addr: zcash_transparent::address::TransparentAddress::PublicKeyHash([9; 20]),
            value: 10_000,
        };
        let mut r = base_request(lo);
        r.version = Some(Ver::V4);
        r.orchard_anchor = true;
        r.orchard_pad = Pad { required: true, min: None };
        r.t_in = vec![t_in(&mut rng), t_in(&mut rng)];
        r.t_out = vec![t_out(), t_out()];
        ps.push(r);
        if lo >= H_NU6_3 {
            let mut r = base_request(lo + 1);
            r.version = Some(Ver::V5);
            r.ironwood_anchor = true;
            r.ironwood_pad = Pad { required: true, min: None };
            r.t_in = vec![t_in(&mut rng), t_in(&mut rng)];
            r.t_out = vec![t_out(), t_out()];
            ps.push(r);
        }
        // hand-made: a version proposed while the builder is still empty, THEN a real output in a
        // pool that version cannot carry, on the direct `build` path (correct code refuses before
        // proving, so this costs nothing unless the late check is missing)
        let sh_out = || kit::ShOut { ovk: Some((0, zip32::Scope::External)), acct: 1, scope: zip32::Scope::External, div: 0, value: 40_000, memo: vec![], change: false };
        {
            let mut r = base_request(lo);
            r.version = Some(Ver::V4);
            r.version_first = true;
            r.orchard_anchor = true;
            r.t_in = vec![t_in(&mut rng)];
            r.o_out = vec![sh_out()];
            ps.push(r);
        }
        if lo >= H_NU6_3 {
            let mut r = base_request(lo + 1);
            r.version = Some(Ver::V5);
            r.version_first = true;
            r.ironwood_anchor = true;
            r.t_in = vec![t_in(&mut rng)];
            r.i_out = vec![sh_out()];
            ps.push(r);
        }
        for r in ps {
            c.r.count("handmade_probes", 1);
            run_case(&mut c, &mut rng, Path::Proved, r);
        }
    }
    let mut done = 0;
    let mut tries = 0;
    while done < proved_cases && tries < proved_cases * 40 && c.r.time_left() {
        tries += 1;
        let mut req = gen_request(
            &mut rng,
            GenOpts {
                orchard_family: true,
                hostile: false,
                pczt_heights: true,
                balanced_only: true,
                    big_multisig: true,
                max_io: 2,
            },
        );
        if req.height < lo || req.height > hi {
            continue;
        }
        // keep proving affordable: at most one pool of the Orchard family with few actions
        let actions = req.o_spend.len().max(req.o_out.len()) + req.i_spend.len().max(req.i_out.len());
        if actions == 0 && req.s_spend.is_empty() && req.s_out.is_empty() {
            continue;
        }
        if actions > 3 || matches!(req.orchard_pad.min, Some(x) if x > 2) || matches!(req.ironwood_pad.min, Some(x) if x > 2) {
            continue;
        }
        if !req.o_spend.is_empty() && !req.i_spend.is_empty() {
            req.i_spend.clear();
        }
        req.delta = 0;
        let before = c.r.counter("builds_ok:build-proved");
        run_case(&mut c, &mut rng, Path::Proved, req);
        if c.r.counter("builds_ok:build-proved") > before {
            done += 1;
        }
    }
    c.r.count("proved_attempts", tries);
    c.r.finish();
}
