//! Shared world for the C13 / C14 checks: a local network with every upgrade
//! boundary a few blocks apart, accounts whose keys the harness owns (so every
//! output can be trial-decrypted), note/coin fabrication with naive Merkle
//! paths, random transaction requests, and the code that drives the real
//! `Builder` with such a request.
//!
//! Nothing in here judges the code under test; the oracles live in the bins.
#![allow(dead_code)]

use std::num::NonZeroU8;

use incrementalmerkletree::{Hashable, Level, Position};
use rand::{Rng, RngCore, seq::SliceRandom};
use rand_chacha::ChaCha20Rng;
use vh_common::{json, Value};
use zcash_keys::keys::UnifiedSpendingKey;
use zcash_primitives::transaction::{
    TxVersion,
    builder::{BuildConfig, Builder, BundlePadding, Error as BuildError},
    fees::{FeeRule, fixed, transparent::InputSize, zip317},
};
use zcash_protocol::{
    consensus::{BlockHeight, BranchId},
    local_consensus::LocalNetwork,
    memo::MemoBytes,
    value::Zatoshis,
};
use zcash_transparent::{
    address::TransparentAddress,
    builder::TransparentSigningSet,
    bundle::{OutPoint, TxOut},
    keys::NonHardenedChildIndex,
    zip48,
};
use zip32::{AccountId, Scope};

pub const MAX_MONEY: u64 = 21_000_000 * 100_000_000;

// ---------------------------------------------------------------------------------------------
// Network
// ---------------------------------------------------------------------------------------------

pub const H_OVERWINTER: u32 = 1;
pub const H_SAPLING: u32 = 2;
pub const H_BLOSSOM: u32 = 3;
pub const H_HEARTWOOD: u32 = 4;
pub const H_CANOPY: u32 = 5;
/// End of the ZIP 212 grace period (Canopy + 32256).
pub const H_ZIP212_ON: u32 = H_CANOPY + 32256;
pub const H_NU5: u32 = 40_000;
pub const H_NU6: u32 = 40_100;
pub const H_NU6_1: u32 = 40_200;
pub const H_NU6_2: u32 = 40_300;
pub const H_NU6_3: u32 = 40_400;

pub fn net() -> LocalNetwork {
    LocalNetwork {
        overwinter: Some(BlockHeight::from_u32(H_OVERWINTER)),
        sapling: Some(BlockHeight::from_u32(H_SAPLING)),
        blossom: Some(BlockHeight::from_u32(H_BLOSSOM)),
        heartwood: Some(BlockHeight::from_u32(H_HEARTWOOD)),
        canopy: Some(BlockHeight::from_u32(H_CANOPY)),
        nu5: Some(BlockHeight::from_u32(H_NU5)),
        nu6: Some(BlockHeight::from_u32(H_NU6)),
        nu6_1: Some(BlockHeight::from_u32(H_NU6_1)),
        nu6_2: Some(BlockHeight::from_u32(H_NU6_2)),
        nu6_3: Some(BlockHeight::from_u32(H_NU6_3)),
    }
}

/// The harness's own reading of the activation table (independent of `BranchId::for_height`).
#[derive(Clone, Copy, Debug, PartialEq, Eq, PartialOrd, Ord, Hash)]
pub enum Epoch {
    Sprout,
    Overwinter,
    Sapling,
    Blossom,
    Heartwood,
    Canopy,
    Nu5,
    Nu6,
    Nu6_1,
    Nu6_2,
    Nu6_3,
}

pub fn epoch_for(h: u32) -> Epoch {
    match h {
        x if x >= H_NU6_3 => Epoch::Nu6_3,
        x if x >= H_NU6_2 => Epoch::Nu6_2,
        x if x >= H_NU6_1 => Epoch::Nu6_1,
        x if x >= H_NU6 => Epoch::Nu6,
        x if x >= H_NU5 => Epoch::Nu5,
        x if x >= H_CANOPY => Epoch::Canopy,
        x if x >= H_HEARTWOOD => Epoch::Heartwood,
        x if x >= H_BLOSSOM => Epoch::Blossom,
        x if x >= H_SAPLING => Epoch::Sapling,
        x if x >= H_OVERWINTER => Epoch::Overwinter,
        _ => Epoch::Sprout,
    }
}

pub fn epoch_branch(e: Epoch) -> BranchId {
    match e {
        Epoch::Sprout => BranchId::Sprout,
        Epoch::Overwinter => BranchId::Overwinter,
        Epoch::Sapling => BranchId::Sapling,
        Epoch::Blossom => BranchId::Blossom,
        Epoch::Heartwood => BranchId::Heartwood,
        Epoch::Canopy => BranchId::Canopy,
        Epoch::Nu5 => BranchId::Nu5,
        Epoch::Nu6 => BranchId::Nu6,
        Epoch::Nu6_1 => BranchId::Nu6_1,
        Epoch::Nu6_2 => BranchId::Nu6_2,
        Epoch::Nu6_3 => BranchId::Nu6_3,
    }
}

/// Target heights on both sides of every boundary that matters to the builder.
pub const HEIGHT_MENU: &[u32] = &[
    H_HEARTWOOD,
    100,
    H_ZIP212_ON - 1,
    H_ZIP212_ON,
    H_NU5 - 1,
    H_NU5,
    H_NU5 + 1,
    H_NU6 - 1,
    H_NU6,
    H_NU6_1,
    H_NU6_2 - 1,
    H_NU6_2,
    H_NU6_2 + 1,
    H_NU6_3 - 1,
    H_NU6_3,
    H_NU6_3 + 1,
    50_000,
];

#[derive(Clone, Copy, Debug, PartialEq, Eq, Hash)]
pub enum Ver {
    V3,
    V4,
    V5,
    V6,
}

impl Ver {
    pub fn tx(self) -> TxVersion {
        match self {
            Ver::V3 => TxVersion::V3,
            Ver::V4 => TxVersion::V4,
            Ver::V5 => TxVersion::V5,
            Ver::V6 => TxVersion::V6,
        }
    }
    pub fn of(v: TxVersion) -> Option<Ver> {
        match v {
            TxVersion::V3 => Some(Ver::V3),
            TxVersion::V4 => Some(Ver::V4),
            TxVersion::V5 => Some(Ver::V5),
            TxVersion::V6 => Some(Ver::V6),
            _ => None,
        }
    }
}

// ---------------------------------------------------------------------------------------------
// Naive Merkle tree (independent of shardtree / the bridgetree witnesses)
// ---------------------------------------------------------------------------------------------

/// Root and depth-32 authentication paths of the tree whose first leaves are `leaves`.
pub fn naive_tree<H: Hashable + Clone>(leaves: &[H]) -> (H, Vec<Vec<H>>) {
    let mut paths: Vec<Vec<H>> = vec![Vec::with_capacity(32); leaves.len()];
    let mut idx: Vec<usize> = (0..leaves.len()).collect();
    let mut layer: Vec<H> = leaves.to_vec();
    if layer.is_empty() {
        layer.push(H::empty_leaf());
    }
    for l in 0..32u8 {
        let lvl = Level::from(l);
        let empty = H::empty_root(lvl);
        for (k, i) in idx.iter_mut().enumerate() {
            let sib = layer.get(*i ^ 1).cloned().unwrap_or_else(|| empty.clone());
            paths[k].push(sib);
            *i >>= 1;
        }
        let mut next = Vec::with_capacity(layer.len().div_ceil(2));
        for pair in layer.chunks(2) {
            let r = pair.get(1).cloned().unwrap_or_else(|| empty.clone());
            next.push(H::combine(lvl, &pair[0], &r));
        }
        layer = next;
    }
    (layer[0].clone(), paths)
}

// ---------------------------------------------------------------------------------------------
// Accounts
// ---------------------------------------------------------------------------------------------

pub struct TKey {
    pub sk: secp256k1::SecretKey,
    pub pk: secp256k1::PublicKey,
    pub addr: TransparentAddress,
}

pub struct Account {
    pub seed: [u8; 32],
    pub usk: UnifiedSpendingKey,
    pub tkeys: Vec<TKey>,
    pub s_extsk: sapling::zip32::ExtendedSpendingKey,
    pub s_extsk_int: sapling::zip32::ExtendedSpendingKey,
    pub s_dfvk: sapling::zip32::DiversifiableFullViewingKey,
    pub o_sk: orchard::keys::SpendingKey,
    pub o_fvk: orchard::keys::FullViewingKey,
}

pub const N_DIV: u32 = 3;

impl Account {
    fn new(seed: [u8; 32]) -> Self {
        let usk = UnifiedSpendingKey::from_seed(&net(), &seed, AccountId::ZERO).expect("usk");
        let secp = secp256k1::Secp256k1::new();
        let tkeys = (0..4u32)
            .map(|i| {
                let sk = usk
                    .transparent()
                    .derive_external_secret_key(NonHardenedChildIndex::from_index(i).unwrap())
                    .expect("tsk");
                let pk = secp256k1::PublicKey::from_secret_key(&secp, &sk);
                TKey {
                    sk,
                    pk,
                    addr: TransparentAddress::from_pubkey(&pk),
                }
            })
            .collect();
        let s_extsk = usk.sapling().clone();
        let s_extsk_int = s_extsk.derive_internal();
        let s_dfvk = s_extsk.to_diversifiable_full_viewing_key();
        let o_sk = *usk.orchard();
        let o_fvk = orchard::keys::FullViewingKey::from(&o_sk);
        Account {
            seed,
            usk,
            tkeys,
            s_extsk,
            s_extsk_int,
            s_dfvk,
            o_sk,
            o_fvk,
        }
    }

    pub fn s_addr(&self, scope: Scope, j: u32) -> sapling::PaymentAddress {
        match scope {
            Scope::External => self.s_dfvk.find_address(j.into()).expect("addr").1,
            Scope::Internal => {
                // internal addresses at arbitrary diversifier indices
                let int = self.s_extsk_int.to_diversifiable_full_viewing_key();
                int.find_address(j.into()).expect("addr").1
            }
        }
    }
    pub fn s_fvk(&self, scope: Scope) -> sapling::keys::FullViewingKey {
        match scope {
            Scope::External => self.s_dfvk.fvk().clone(),
            Scope::Internal => self.s_dfvk.to_internal_fvk(),
        }
    }
    pub fn s_ivk(&self, scope: Scope) -> sapling::keys::PreparedIncomingViewingKey {
        sapling::keys::PreparedIncomingViewingKey::new(&self.s_dfvk.to_ivk(scope))
    }
    pub fn s_ovk(&self, scope: Scope) -> sapling::keys::OutgoingViewingKey {
        self.s_dfvk.to_ovk(scope)
    }
    pub fn s_extsk_for(&self, scope: Scope) -> sapling::zip32::ExtendedSpendingKey {
        match scope {
            Scope::External => self.s_extsk.clone(),
            Scope::Internal => self.s_extsk_int.clone(),
        }
    }
    pub fn o_addr(&self, scope: Scope, j: u32) -> orchard::Address {
        self.o_fvk.address_at(j, scope)
    }
    pub fn o_ivk(&self, scope: Scope) -> orchard::keys::IncomingViewingKey {
        self.o_fvk.to_ivk(scope)
    }
    pub fn o_ovk(&self, scope: Scope) -> orchard::keys::OutgoingViewingKey {
        self.o_fvk.to_ovk(scope)
    }
    pub fn o_ask(&self) -> orchard::keys::SpendAuthorizingKey {
        orchard::keys::SpendAuthorizingKey::from(&self.o_sk)
    }
}

/// An m-of-n P2SH multisig fixture. `sks` / `pks` are in REDEEM-SCRIPT order.
pub struct Multisig {
    pub m: usize,
    pub sks: Vec<secp256k1::SecretKey>,
    pub pks: Vec<[u8; 33]>,
    pub addr: TransparentAddress,
    pub redeem_bytes: Vec<u8>,
    /// "zip48-sorted", "ascending", "descending", "shuffled"
    pub order: &'static str,
}

impl Multisig {
    pub fn n(&self) -> usize {
        self.sks.len()
    }
    pub fn redeem(&self) -> zcash_script::script::FromChain {
        zcash_script::script::FromChain::parse(&zcash_script::script::Code(self.redeem_bytes.clone())).expect("redeem script parses")
    }
    /// true if the script's key order differs from the byte order of the keys
    pub fn unsorted(&self) -> bool {
        self.pks.windows(2).any(|w| w[0] > w[1])
    }
    fn plain(m: usize, mut keys: Vec<(secp256k1::SecretKey, [u8; 33])>, order: &'static str, rng: &mut ChaCha20Rng) -> Self {
        match order {
            "ascending" => keys.sort_by(|a, b| a.1.cmp(&b.1)),
            "descending" => keys.sort_by(|a, b| b.1.cmp(&a.1)),
            _ => loop {
                keys.shuffle(rng);
                if keys.windows(2).any(|w| w[0].1 > w[1].1) {
                    break;
                }
            },
        }
        // multi(m, K..): OP_m <K1> .. <Kn> OP_n OP_CHECKMULTISIG
        let mut rb = vec![0x50 + m as u8];
        for (_, pk) in &keys {
            rb.push(33);
            rb.extend_from_slice(pk);
        }
        rb.push(0x50 + keys.len() as u8);
        rb.push(0xae);
        use ripemd::Ripemd160;
        use sha2::{Digest, Sha256};
        let h: [u8; 20] = Ripemd160::digest(Sha256::digest(&rb)).into();
        Multisig {
            m,
            sks: keys.iter().map(|k| k.0).collect(),
            pks: keys.iter().map(|k| k.1).collect(),
            addr: TransparentAddress::ScriptHash(h),
            redeem_bytes: rb,
            order,
        }
    }
}

pub struct World {
    pub accounts: Vec<Account>,
    /// [0] is the ZIP 48 2-of-3 `sortedmulti` account; the others are plain `multi()` scripts with
    /// thresholds 1..3 of 2..4 keys in ascending, descending and shuffled key order
    pub multisigs: Vec<Multisig>,
}

impl World {
    pub fn new(rng: &mut ChaCha20Rng) -> Self {
        use zcash_script::script::Evaluable;
        let accounts = (0..3)
            .map(|_| {
                let mut seed = [0u8; 32];
                rng.fill_bytes(&mut seed);
                Account::new(seed)
            })
            .collect();
        // 2-of-3 ZIP 48 P2SH account
        let params = net();
        let asks: Vec<zip48::AccountPrivKey> = (0..3)
            .map(|_| {
                let mut seed = [0u8; 32];
                rng.fill_bytes(&mut seed);
                zip48::AccountPrivKey::from_seed(&params, &seed, AccountId::ZERO).expect("zip48")
            })
            .collect();
        let fvk = zip48::FullViewingKey::standard(
            NonZeroU8::new(2).unwrap(),
            asks.iter().map(|s| s.to_account_pubkey()).collect(),
        )
        .expect("zip48 fvk");
        let (addr, redeem) = fvk.derive_address(Scope::External, NonHardenedChildIndex::ZERO);
        let redeem_bytes = redeem.to_bytes();
        let secp = secp256k1::Secp256k1::new();
        let zsks: Vec<secp256k1::SecretKey> = asks
            .iter()
            .map(|s| s.derive_signing_key(Scope::External, NonHardenedChildIndex::ZERO))
            .collect();
        // put the keys in script order
        let mut zk: Vec<(secp256k1::SecretKey, [u8; 33])> =
            zsks.iter().map(|sk| (*sk, secp256k1::PublicKey::from_secret_key(&secp, sk).serialize())).collect();
        zk.sort_by_key(|(_, pk)| redeem_bytes.windows(33).position(|w| w == pk).unwrap_or(usize::MAX));
        let mut multisigs = vec![Multisig {
            m: 2,
            sks: zk.iter().map(|k| k.0).collect(),
            pks: zk.iter().map(|k| k.1).collect(),
            addr,
            redeem_bytes,
            order: "zip48-sorted",
        }];
        for (m, n, order) in [
            (2usize, 3usize, "descending"),
            (2, 3, "shuffled"),
            (1, 2, "descending"),
            (2, 2, "descending"),
            (3, 3, "shuffled"),
            (2, 4, "shuffled"),
            (3, 4, "descending"),
            (1, 3, "shuffled"),
            (2, 3, "ascending"),
            (3, 4, "ascending"),
        ] {
            let keys = (0..n)
                .map(|_| loop {
                    let mut b = [0u8; 32];
                    rng.fill_bytes(&mut b);
                    if let Ok(sk) = secp256k1::SecretKey::from_slice(&b) {
                        break (sk, secp256k1::PublicKey::from_secret_key(&secp, &sk).serialize());
                    }
                })
                .collect();
            multisigs.push(Multisig::plain(m, keys, order, rng));
        }
        World { accounts, multisigs }
    }
}

// ---------------------------------------------------------------------------------------------
// Request model
// ---------------------------------------------------------------------------------------------

fn sc(s: Scope) -> &'static str {
    match s {
        Scope::External => "ext",
        Scope::Internal => "int",
    }
}

#[derive(Clone, Debug)]
pub enum TInKind {
    P2pkh { acct: usize, key: usize },
    /// m-of-n multisig P2SH: fixture index and the keys (positions in script order) that sign, in
    /// signing order; at least m of them, possibly more (surplus signatures)
    P2sh { ms: usize, signers: Vec<usize> },
    /// P2PKH coin, but the builder is handed the wrong public key (must be refused).
    WrongKey { acct: usize, key: usize },
}

#[derive(Clone, Debug)]
pub struct TIn {
    pub kind: TInKind,
    pub outpoint: ([u8; 32], u32),
    pub value: u64,
}

#[derive(Clone, Debug)]
pub enum TOut {
    Pay { addr: TransparentAddress, value: u64 },
    NullData(Vec<u8>),
}

#[derive(Clone, Debug)]
pub struct SSpend {
    pub acct: usize,
    pub scope: Scope,
    pub div: u32,
    pub value: u64,
    /// `None`: pre-ZIP 212 note (rcm), `Some`: rseed
    pub rseed: Option<[u8; 32]>,
    pub rcm_seed: [u8; 64],
    /// spend presented with a path that does not lead to the anchor
    pub bad_path: bool,
}

#[derive(Clone, Debug)]
pub struct ShOut {
    pub ovk: Option<(usize, Scope)>,
    pub acct: usize,
    pub scope: Scope,
    pub div: u32,
    pub value: u64,
    pub memo: Vec<u8>,
    /// Orchard-family only: added through `add_*_change_output`
    pub change: bool,
}

#[derive(Clone, Debug)]
pub struct OSpend {
    pub acct: usize,
    pub scope: Scope,
    pub div: u32,
    pub value: u64,
    pub rho: [u8; 32],
    pub rseed: [u8; 32],
    /// note plaintext version 2 (Orchard) or 3 (Ironwood)
    pub v3: bool,
    pub bad_path: bool,
}

#[derive(Clone, Copy, Debug, PartialEq, Eq, Hash)]
pub struct Pad {
    pub required: bool,
    pub min: Option<u8>,
}

impl Pad {
    pub const DEFAULT: Pad = Pad {
        required: false,
        min: None,
    };
    pub fn to(self) -> BundlePadding {
        BundlePadding {
            bundle_required: self.required,
            pad_to_minimum: self.min,
        }
    }
}

#[derive(Clone, Debug, PartialEq, Eq, Hash)]
pub enum FeeSpec {
    Std,
    Custom {
        marginal: u64,
        grace: usize,
        in_size: usize,
        out_size: usize,
    },
    Fixed(u64),
}

pub enum AnyRule {
    Z(zip317::FeeRule),
    F(fixed::FeeRule),
}

impl FeeRule for AnyRule {
    type Error = String;
    fn fee_required<P: zcash_protocol::consensus::Parameters>(
        &self,
        params: &P,
        target_height: BlockHeight,
        transparent_input_sizes: impl IntoIterator<Item = InputSize>,
        transparent_output_sizes: impl IntoIterator<Item = usize>,
        sapling_input_count: usize,
        sapling_output_count: usize,
        orchard_action_count: usize,
        ironwood_action_count: usize,
    ) -> Result<Zatoshis, Self::Error> {
        match self {
            AnyRule::Z(r) => r
                .fee_required(
                    params,
                    target_height,
                    transparent_input_sizes,
                    transparent_output_sizes,
                    sapling_input_count,
                    sapling_output_count,
                    orchard_action_count,
                    ironwood_action_count,
                )
                .map_err(|e| format!("{e:?}")),
            AnyRule::F(r) => r
                .fee_required(
                    params,
                    target_height,
                    transparent_input_sizes,
                    transparent_output_sizes,
                    sapling_input_count,
                    sapling_output_count,
                    orchard_action_count,
                    ironwood_action_count,
                )
                .map_err(|e| format!("{e:?}")),
        }
    }
}

impl FeeSpec {
    pub fn rule(&self) -> AnyRule {
        match self {
            FeeSpec::Std => AnyRule::Z(zip317::FeeRule::standard()),
            FeeSpec::Custom {
                marginal,
                grace,
                in_size,
                out_size,
            } => AnyRule::Z(
                zip317::FeeRule::non_standard(
                    Zatoshis::from_u64(*marginal).unwrap(),
                    *grace,
                    *in_size,
                    *out_size,
                )
                .expect("non-zero sizes"),
            ),
            FeeSpec::Fixed(f) => AnyRule::F(fixed::FeeRule::non_standard(Zatoshis::from_u64(*f).unwrap())),
        }
    }
}

/// Which value the balancing step may adjust.
#[derive(Clone, Copy, Debug, PartialEq, Eq)]
pub enum Tunable {
    TIn(usize),
    TOut(usize),
    SSpend(usize),
    SOut(usize),
    OSpend(usize),
    OOut(usize),
    ISpend(usize),
    IOut(usize),
    None,
}

#[derive(Clone, Debug)]
pub struct Request {
    pub height: u32,
    pub version: Option<Ver>,
    /// propose the version before (true) or after (false) adding inputs/outputs
    pub version_first: bool,
    pub expiry: Option<u32>,
    pub sapling_anchor: bool,
    pub orchard_anchor: bool,
    pub ironwood_anchor: bool,
    pub orchard_pad: Pad,
    pub ironwood_pad: Pad,
    pub t_in: Vec<TIn>,
    pub t_out: Vec<TOut>,
    pub s_spend: Vec<SSpend>,
    pub s_out: Vec<ShOut>,
    pub o_spend: Vec<OSpend>,
    pub o_out: Vec<ShOut>,
    pub i_spend: Vec<OSpend>,
    pub i_out: Vec<ShOut>,
    pub fee: FeeSpec,
    /// intended (inputs - outputs - fee)
    pub delta: i64,
    pub tunable: Tunable,
}

impl Request {
    pub fn epoch(&self) -> Epoch {
        epoch_for(self.height)
    }
    pub fn total_in(&self) -> u128 {
        self.t_in.iter().map(|x| x.value as u128).sum::<u128>()
            + self.s_spend.iter().map(|x| x.value as u128).sum::<u128>()
            + self.o_spend.iter().map(|x| x.value as u128).sum::<u128>()
            + self.i_spend.iter().map(|x| x.value as u128).sum::<u128>()
    }
    pub fn total_out(&self) -> u128 {
        self.t_out
            .iter()
            .map(|x| match x {
                TOut::Pay { value, .. } => *value as u128,
                TOut::NullData(_) => 0,
            })
            .sum::<u128>()
            + self.s_out.iter().map(|x| x.value as u128).sum::<u128>()
            + self.o_out.iter().map(|x| x.value as u128).sum::<u128>()
            + self.i_out.iter().map(|x| x.value as u128).sum::<u128>()
    }
    /// Structural signature: everything but keys, values' exact amounts and random bytes.
    pub fn shape(&self) -> String {
        let tin: String = self
            .t_in
            .iter()
            .map(|t| match t.kind {
                TInKind::P2pkh { .. } => 'k',
                TInKind::P2sh { .. } => 's',
                TInKind::WrongKey { .. } => 'w',
            })
            .collect();
        let tout: String = self
            .t_out
            .iter()
            .map(|t| match t {
                TOut::Pay {
                    addr: TransparentAddress::PublicKeyHash(_),
                    ..
                } => 'k',
                TOut::Pay { .. } => 's',
                TOut::NullData(_) => 'n',
            })
            .collect();
        let outs = |v: &Vec<ShOut>| {
            v.iter()
                .map(|o| {
                    format!(
                        "{}{}{}",
                        if o.change { 'c' } else { 'p' },
                        if o.ovk.is_some() { 'o' } else { '-' },
                        sc(o.scope).chars().next().unwrap()
                    )
                })
                .collect::<Vec<_>>()
                .join(",")
        };
        format!(
            "e{:?} v{:?}{} a{}{}{} po{:?} pi{:?} ti[{}] to[{}] ss{} so[{}] os{} oo[{}] is{} io[{}] f{} d{}",
            self.epoch(),
            self.version,
            if self.version_first { "<" } else { ">" },
            self.sapling_anchor as u8,
            self.orchard_anchor as u8,
            self.ironwood_anchor as u8,
            self.orchard_pad,
            self.ironwood_pad,
            tin,
            tout,
            self.s_spend.len(),
            outs(&self.s_out),
            self.o_spend.len(),
            outs(&self.o_out),
            self.i_spend.len(),
            outs(&self.i_out),
            match &self.fee {
                FeeSpec::Std => "std".to_string(),
                FeeSpec::Custom { grace, in_size, out_size, .. } => format!("c{grace}/{in_size}/{out_size}"),
                FeeSpec::Fixed(_) => "fix".to_string(),
            },
            self.delta.signum() * (if self.delta.abs() > 1 { 2 } else { self.delta.abs() }),
        )
    }

    pub fn to_json(&self) -> Value {
        let outs = |v: &Vec<ShOut>| -> Vec<Value> {
            v.iter()
                .map(|o| {
                    json!({"acct": o.acct, "scope": sc(o.scope), "div": o.div, "value": o.value,
                        "memo_len": o.memo.len(), "ovk": o.ovk.map(|(a, s)| format!("{a}/{}", sc(s))), "change": o.change})
                })
                .collect()
        };
        let osp = |v: &Vec<OSpend>| -> Vec<Value> {
            v.iter()
                .map(|o| json!({"acct": o.acct, "scope": sc(o.scope), "div": o.div, "value": o.value, "v3": o.v3, "bad_path": o.bad_path}))
                .collect()
        };
        json!({
            "height": self.height, "version": format!("{:?}", self.version), "version_first": self.version_first,
            "expiry": self.expiry,
            "anchors": [self.sapling_anchor, self.orchard_anchor, self.ironwood_anchor],
            "orchard_pad": format!("{:?}", self.orchard_pad), "ironwood_pad": format!("{:?}", self.ironwood_pad),
            "t_in": self.t_in.iter().map(|t| json!({"kind": format!("{:?}", t.kind), "value": t.value, "n": t.outpoint.1})).collect::<Vec<_>>(),
            "t_out": self.t_out.iter().map(|t| match t {
                TOut::Pay{addr, value} => json!({"addr": format!("{addr:?}"), "value": value}),
                TOut::NullData(d) => json!({"null_data_len": d.len()}),
            }).collect::<Vec<_>>(),
            "s_spend": self.s_spend.iter().map(|s| json!({"acct": s.acct, "scope": sc(s.scope), "div": s.div, "value": s.value, "zip212": s.rseed.is_some(), "bad_path": s.bad_path})).collect::<Vec<_>>(),
            "s_out": outs(&self.s_out),
            "o_spend": osp(&self.o_spend), "o_out": outs(&self.o_out),
            "i_spend": osp(&self.i_spend), "i_out": outs(&self.i_out),
            "fee": format!("{:?}", self.fee), "delta": self.delta, "tunable": format!("{:?}", self.tunable),
        })
    }
}

// ---------------------------------------------------------------------------------------------
// Materialisation: notes, coins, trees
// ---------------------------------------------------------------------------------------------

pub struct SaplingNoteCtx {
    pub note: sapling::Note,
    pub position: u64,
    pub path: sapling::MerklePath,
    pub nf: [u8; 32],
}

pub struct OrchardNoteCtx {
    pub note: orchard::Note,
    pub position: u32,
    pub path: orchard::tree::MerklePath,
    pub nf: [u8; 32],
}

pub struct Materialised {
    pub coins: Vec<TxOut>,
    pub outpoints: Vec<OutPoint>,
    pub s_notes: Vec<SaplingNoteCtx>,
    pub s_anchor: sapling::Anchor,
    pub o_notes: Vec<OrchardNoteCtx>,
    pub o_anchor: orchard::Anchor,
    pub i_notes: Vec<OrchardNoteCtx>,
    pub i_anchor: orchard::Anchor,
    /// the request does not fix Orchard-family anchors (DeferredPcztBuilder)
    pub anchors_deferred: bool,
}

fn sapling_note(w: &World, s: &SSpend) -> sapling::Note {
    let addr = w.accounts[s.acct].s_addr(s.scope, s.div);
    let rseed = match s.rseed {
        Some(r) => sapling::Rseed::AfterZip212(r),
        None => sapling::Rseed::BeforeZip212(jubjub::Fr::from_bytes_wide(&s.rcm_seed)),
    };
    addr.create_note(sapling::value::NoteValue::from_raw(s.value), rseed)
}

pub fn orchard_note(w: &World, s: &OSpend) -> orchard::Note {
    let addr = w.accounts[s.acct].o_addr(s.scope, s.div);
    let rho = orchard::note::Rho::from_bytes(&s.rho).into_option().expect("canonical rho");
    let rseed = orchard::note::RandomSeed::from_bytes(s.rseed, &rho)
        .into_option()
        .expect("valid rseed");
    orchard::Note::from_parts(
        addr,
        orchard::value::NoteValue::from_raw(s.value),
        rho,
        rseed,
        if s.v3 {
            orchard::note::NoteVersion::V3
        } else {
            orchard::note::NoteVersion::V2
        },
    )
    .into_option()
    .expect("valid note")
}

/// Draws (rho, rseed) bytes that the orchard crate accepts.
pub fn gen_rho_rseed(rng: &mut ChaCha20Rng) -> ([u8; 32], [u8; 32]) {
    loop {
        let mut rho = [0u8; 32];
        rng.fill_bytes(&mut rho);
        rho[31] &= 0x3f;
        let Some(r) = orchard::note::Rho::from_bytes(&rho).into_option() else {
            continue;
        };
        let mut rs = [0u8; 32];
        rng.fill_bytes(&mut rs);
        if orchard::note::RandomSeed::from_bytes(rs, &r).into_option().is_some() {
            return (rho, rs);
        }
    }
}

fn orchard_tree(
    w: &World,
    spends: &[OSpend],
    filler: &[[u8; 32]],
) -> (orchard::Anchor, Vec<OrchardNoteCtx>) {
    use orchard::tree::MerkleHashOrchard as MH;
    let notes: Vec<orchard::Note> = spends.iter().map(|s| orchard_note(w, s)).collect();
    let mut leaves: Vec<MH> = vec![];
    // a foreign leaf first so that positions are not all zero
    for f in filler {
        if let Some(h) = MH::from_bytes(f).into_option() {
            leaves.push(h);
        }
    }
    let off = leaves.len();
    for n in &notes {
        let cmx: orchard::note::ExtractedNoteCommitment = n.commitment().into();
        leaves.push(MH::from_cmx(&cmx));
    }
    let (root, paths) = naive_tree(&leaves);
    let anchor: orchard::Anchor = root.into();
    let ctxs = notes
        .into_iter()
        .enumerate()
        .map(|(k, note)| {
            let pos = (off + k) as u32;
            let mut auth: [MH; 32] = [MH::empty_leaf(); 32];
            for (d, s) in auth.iter_mut().zip(paths[off + k].iter()) {
                *d = *s;
            }
            if spends[k].bad_path {
                auth[0] = MH::from_bytes(&[7u8; 32]).into_option().unwrap_or(MH::empty_leaf());
            }
            let fvk = &w.accounts[spends[k].acct].o_fvk;
            OrchardNoteCtx {
                nf: note.nullifier(fvk).to_bytes(),
                note,
                position: pos,
                path: orchard::tree::MerklePath::from_parts(pos, auth),
            }
        })
        .collect();
    (anchor, ctxs)
}

pub fn materialise(w: &World, r: &Request, rng: &mut ChaCha20Rng) -> Materialised {
    // transparent coins
    let mut coins = vec![];
    let mut outpoints = vec![];
    for t in &r.t_in {
        let script = match &t.kind {
            TInKind::P2pkh { acct, key } | TInKind::WrongKey { acct, key } => {
                w.accounts[*acct].tkeys[*key].addr.script()
            }
            TInKind::P2sh { ms, .. } => w.multisigs[*ms].addr.script(),
        };
        coins.push(TxOut::new(
            Zatoshis::from_u64(t.value).expect("coin value"),
            script.into(),
        ));
        outpoints.push(OutPoint::new(t.outpoint.0, t.outpoint.1));
    }
    // sapling tree
    let s_notes_raw: Vec<sapling::Note> = r.s_spend.iter().map(|s| sapling_note(w, s)).collect();
    let mut leaves: Vec<sapling::Node> = vec![];
    let n_fill = rng.gen_range(0..3usize);
    for _ in 0..n_fill {
        leaves.push(sapling::Node::from_scalar(bls_random(rng)));
    }
    for n in &s_notes_raw {
        leaves.push(sapling::Node::from_cmu(&n.cmu()));
    }
    let (root, paths) = naive_tree(&leaves);
    let s_anchor: sapling::Anchor = root.into();
    let s_notes = s_notes_raw
        .into_iter()
        .enumerate()
        .map(|(k, note)| {
            let pos = (n_fill + k) as u64;
            let mut elems = paths[n_fill + k].clone();
            if r.s_spend[k].bad_path {
                elems[0] = sapling::Node::from_scalar(bls_random(rng));
            }
            let nk = w.accounts[r.s_spend[k].acct].s_dfvk.to_nk(r.s_spend[k].scope);
            SaplingNoteCtx {
                nf: note.nf(&nk, pos).0,
                note,
                position: pos,
                path: sapling::MerklePath::from_parts(elems, Position::from(pos)).expect("path"),
            }
        })
        .collect();
    let mut fill = |n: usize| -> Vec<[u8; 32]> {
        (0..n)
            .map(|_| {
                let mut b = [0u8; 32];
                rng.fill_bytes(&mut b);
                b[31] &= 0x1f;
                b
            })
            .collect()
    };
    let of = fill(r.o_spend.len().min(1) * 2);
    let if_ = fill(r.i_spend.len().min(1));
    let (o_anchor, o_notes) = orchard_tree(w, &r.o_spend, &of);
    let (i_anchor, i_notes) = orchard_tree(w, &r.i_spend, &if_);
    // boundary value: a bundle without spends may name any anchor, in particular the all-zero one
    // (the value the older PCZT encoding writes in place of an absent anchor)
    let zero = |a: orchard::Anchor| Option::from(orchard::Anchor::from_bytes([0u8; 32])).unwrap_or(a);
    let o_anchor = if r.o_spend.is_empty() && rng.gen_range(0..4) == 0 { zero(o_anchor) } else { o_anchor };
    let i_anchor = if r.i_spend.is_empty() && rng.gen_range(0..4) == 0 { zero(i_anchor) } else { i_anchor };
    Materialised {
        coins,
        outpoints,
        s_notes,
        s_anchor,
        o_notes,
        o_anchor,
        i_notes,
        i_anchor,
        anchors_deferred: false,
    }
}

fn bls_random(rng: &mut ChaCha20Rng) -> bls12_381_scalar::Scalar {
    let mut b = [0u8; 64];
    rng.fill_bytes(&mut b);
    bls12_381_scalar::Scalar::from_bytes_wide(&b)
}

/// `jubjub::Base` is `bls12_381::Scalar`; the harness only depends on `jubjub`.
mod bls12_381_scalar {
    pub type Scalar = jubjub::Base;
}

pub fn memo_bytes(m: &[u8]) -> MemoBytes {
    MemoBytes::from_bytes(m).expect("memo <= 512")
}

pub fn memo_array(m: &[u8]) -> [u8; 512] {
    let mut a = [0u8; 512];
    a[..m.len()].copy_from_slice(m);
    a
}

// ---------------------------------------------------------------------------------------------
// Driving the builder
// ---------------------------------------------------------------------------------------------

/// A refusal while adding inputs/outputs or proposing the version (before `build`).
#[derive(Clone, Debug)]
pub struct AddRefusal {
    pub step: String,
    pub err: String,
}

pub type TxBuilder<'a> = Builder<LocalNetwork, ()>;

pub struct Keys {
    pub tset: TransparentSigningSet,
    pub s_extsks: Vec<sapling::zip32::ExtendedSpendingKey>,
    pub o_saks: Vec<orchard::keys::SpendAuthorizingKey>,
}

pub fn build_config(r: &Request, m: &Materialised) -> BuildConfig {
    BuildConfig::Standard {
        sapling_anchor: r.sapling_anchor.then_some(m.s_anchor),
        orchard_anchor: r.orchard_anchor.then_some(m.o_anchor),
        ironwood_anchor: r.ironwood_anchor.then_some(m.i_anchor),
        orchard_padding: r.orchard_pad.to(),
        ironwood_padding: r.ironwood_pad.to(),
    }
}

fn errs<E: std::fmt::Debug>(e: E) -> String {
    format!("{e:?}")
}

/// Replays the request against a fresh `Builder`. Stops at the first refusal.
pub fn make_builder(
    w: &World,
    r: &Request,
    m: &Materialised,
) -> Result<(TxBuilder<'static>, Keys), AddRefusal> {
    type FE = String;
    let mut b = Builder::new(net(), BlockHeight::from_u32(r.height), build_config(r, m));
    if let Some(e) = r.expiry {
        b = b.with_expiry_height(BlockHeight::from_u32(e));
    }
    let refuse = |step: &str, err: String| AddRefusal {
        step: step.to_string(),
        err,
    };
    if r.version_first {
        if let Some(v) = r.version {
            b.propose_version::<FE>(v.tx())
                .map_err(|e| refuse("propose_version", be(&e)))?;
        }
    }
    let mut keys = Keys {
        tset: TransparentSigningSet::new(),
        s_extsks: vec![],
        o_saks: vec![],
    };
    for (i, t) in r.t_in.iter().enumerate() {
        match &t.kind {
            TInKind::P2pkh { acct, key } => {
                let k = &w.accounts[*acct].tkeys[*key];
                keys.tset.add_key(k.sk);
                b.add_transparent_p2pkh_input(k.pk, m.outpoints[i].clone(), m.coins[i].clone())
                    .map_err(|e| refuse("add_transparent_p2pkh_input", errs(e)))?;
            }
            TInKind::WrongKey { acct, key } => {
                let other = &w.accounts[(*acct + 1) % w.accounts.len()].tkeys[*key];
                b.add_transparent_p2pkh_input(other.pk, m.outpoints[i].clone(), m.coins[i].clone())
                    .map_err(|e| refuse("add_transparent_p2pkh_input", errs(e)))?;
            }
            TInKind::P2sh { ms, signers } => {
                let fx = &w.multisigs[*ms];
                for s in signers {
                    keys.tset.add_key(fx.sks[*s]);
                }
                b.add_transparent_p2sh_input(
                    fx.redeem(),
                    m.outpoints[i].clone(),
                    m.coins[i].clone(),
                )
                .map_err(|e| refuse("add_transparent_p2sh_input", errs(e)))?;
            }
        }
    }
    for t in &r.t_out {
        match t {
            TOut::Pay { addr, value } => b
                .add_transparent_output(addr, Zatoshis::from_u64(*value).expect("value"))
                .map_err(|e| refuse("add_transparent_output", errs(e)))?,
            TOut::NullData(d) => b
                .add_transparent_null_data_output::<FE>(d)
                .map_err(|e| refuse("add_transparent_null_data_output", be(&e)))?,
        }
    }
    for (i, s) in r.s_spend.iter().enumerate() {
        let a = &w.accounts[s.acct];
        keys.s_extsks.push(a.s_extsk_for(s.scope));
        b.add_sapling_spend::<FE>(a.s_fvk(s.scope), m.s_notes[i].note.clone(), m.s_notes[i].path.clone())
            .map_err(|e| refuse("add_sapling_spend", be(&e)))?;
    }
    for o in &r.s_out {
        let to = w.accounts[o.acct].s_addr(o.scope, o.div);
        let ovk = o.ovk.map(|(a, s)| w.accounts[a].s_ovk(s));
        b.add_sapling_output::<FE>(ovk, to, Zatoshis::from_u64(o.value).expect("value"), memo_bytes(&o.memo))
            .map_err(|e| refuse("add_sapling_output", be(&e)))?;
    }
    for (i, s) in r.o_spend.iter().enumerate() {
        let a = &w.accounts[s.acct];
        keys.o_saks.push(a.o_ask());
        b.add_orchard_spend::<FE>(a.o_fvk.clone(), m.o_notes[i].note, m.o_notes[i].path.clone())
            .map_err(|e| refuse("add_orchard_spend", be(&e)))?;
    }
    for o in &r.o_out {
        let a = &w.accounts[o.acct];
        let to = a.o_addr(o.scope, o.div);
        let ovk = o.ovk.map(|(x, s)| w.accounts[x].o_ovk(s));
        let v = Zatoshis::from_u64(o.value).expect("value");
        if o.change {
            keys.o_saks.push(a.o_ask());
            b.add_orchard_change_output::<FE>(a.o_fvk.clone(), ovk, to, v, memo_bytes(&o.memo))
                .map_err(|e| refuse("add_orchard_change_output", be(&e)))?;
        } else {
            b.add_orchard_output::<FE>(ovk, to, v, memo_bytes(&o.memo))
                .map_err(|e| refuse("add_orchard_output", be(&e)))?;
        }
    }
    for (i, s) in r.i_spend.iter().enumerate() {
        let a = &w.accounts[s.acct];
        keys.o_saks.push(a.o_ask());
        b.add_ironwood_spend::<FE>(a.o_fvk.clone(), m.i_notes[i].note, m.i_notes[i].path.clone())
            .map_err(|e| refuse("add_ironwood_spend", be(&e)))?;
    }
    for o in &r.i_out {
        let a = &w.accounts[o.acct];
        let to = a.o_addr(o.scope, o.div);
        let ovk = o.ovk.map(|(x, s)| w.accounts[x].o_ovk(s));
        b.add_ironwood_output::<FE>(ovk, to, Zatoshis::from_u64(o.value).expect("value"), memo_bytes(&o.memo))
            .map_err(|e| refuse("add_ironwood_output", be(&e)))?;
    }
    if !r.version_first {
        if let Some(v) = r.version {
            b.propose_version::<FE>(v.tx())
                .map_err(|e| refuse("propose_version", be(&e)))?;
        }
    }
    Ok((b, keys))
}

/// Class of a builder error without run-specific payload.
pub fn be<FE: std::fmt::Debug>(e: &BuildError<FE>) -> String {
    match e {
        BuildError::InsufficientFunds(_) => "InsufficientFunds".into(),
        BuildError::ChangeRequired(_) => "ChangeRequired".into(),
        BuildError::Fee(f) => format!("Fee({})", head(&format!("{f:?}"))),
        BuildError::Balance(b) => format!("Balance({b:?})"),
        BuildError::TransparentBuild(t) => format!("TransparentBuild({t:?})"),
        BuildError::SaplingBuild(s) => format!("SaplingBuild({s:?})"),
        BuildError::OrchardBuild(s) => format!("OrchardBuild({})", head(&format!("{s:?}"))),
        BuildError::IronwoodBuild(s) => format!("IronwoodBuild({})", head(&format!("{s:?}"))),
        BuildError::OrchardSpend(s) => format!("OrchardSpend({s:?})"),
        BuildError::OrchardRecipient(s) => format!("OrchardRecipient({s:?})"),
        BuildError::IronwoodSpend(s) => format!("IronwoodSpend({s:?})"),
        BuildError::IronwoodSpendUnsupportedNoteVersion(_) => "IronwoodSpendUnsupportedNoteVersion".into(),
        BuildError::IronwoodRecipient(s) => format!("IronwoodRecipient({s:?})"),
        BuildError::SaplingBuilderNotAvailable => "SaplingBuilderNotAvailable".into(),
        BuildError::OrchardBuilderNotAvailable => "OrchardBuilderNotAvailable".into(),
        BuildError::IronwoodBuilderNotAvailable => "IronwoodBuilderNotAvailable".into(),
        BuildError::AnchorDeferralUnsupported(_) => "AnchorDeferralUnsupported".into(),
        BuildError::Coinbase(_) => "Coinbase".into(),
        BuildError::CoinbaseExpiryHeightMismatch { .. } => "CoinbaseExpiryHeightMismatch".into(),
        BuildError::TargetIncompatible(_, _, p) => format!("TargetIncompatible({p:?})"),
    }
}

fn head(s: &str) -> String {
    s.split(|c: char| !(c.is_alphanumeric() || c == '_')).next().unwrap_or("").to_string()
}

// ---------------------------------------------------------------------------------------------
// Request generation
// ---------------------------------------------------------------------------------------------

fn pick_value(rng: &mut ChaCha20Rng) -> u64 {
    match rng.gen_range(0..12) {
        0 => 0,
        1 => 1,
        2 => 4_999,
        3 => 5_000,
        4 => 5_001,
        5 => 10_000,
        6 => 546,
        7 => 100_000_000,
        8 => rng.gen_range(1..=MAX_MONEY / 64),
        _ => rng.gen_range(1_000..50_000_000),
    }
}

fn pick_memo(rng: &mut ChaCha20Rng) -> Vec<u8> {
    // The memo field is 512 bytes; a shorter vector is zero-padded. Shapes sit on the boundaries
    // of "trailing zeros stripped" encodings: 0, 1, 511 and 512 significant bytes, the "no memo"
    // marker alone and filling the field, text and arbitrary-data lead bytes.
    match rng.gen_range(0..12) {
        0 => vec![],
        1 => vec![0xf6],
        2 => b"hello memo".to_vec(),
        3 => {
            let mut v = vec![0u8; 512];
            rng.fill_bytes(&mut v);
            v[0] = 0xff;
            v[511] |= 1; // all 512 bytes significant
            v
        }
        4 => {
            // text memo with interior zero bytes and a non-zero last byte
            let mut v = vec![0u8; rng.gen_range(2..512)];
            let n = v.len();
            v[0] = b'a';
            v[n - 1] = b'z';
            v
        }
        5 => vec![0xf6; 512],
        6 => vec![b'a'; 512],
        7 => {
            // 511 significant bytes
            let mut v = vec![b'b'; 511];
            v[0] = if rng.gen_bool(0.5) { b't' } else { 0xff };
            v
        }
        8 => vec![rng.gen_range(1..=0xf4u8)],
        9 => {
            // 512 bytes whose last byte is zero (510 or fewer significant bytes + padding)
            let mut v = vec![0u8; 512];
            v[0] = 0xff;
            v[509] = 7;
            v
        }
        _ => {
            let mut v = vec![0u8; rng.gen_range(1..=512)];
            rng.fill_bytes(&mut v);
            v[0] = 0xff; // arbitrary-data memo
            v
        }
    }
}

fn pick_scope(rng: &mut ChaCha20Rng) -> Scope {
    if rng.gen_bool(0.7) {
        Scope::External
    } else {
        Scope::Internal
    }
}

fn gen_shout(rng: &mut ChaCha20Rng, change: bool) -> ShOut {
    ShOut {
        ovk: rng.gen_bool(0.6).then(|| (rng.gen_range(0..3), pick_scope(rng))),
        acct: rng.gen_range(0..3),
        scope: pick_scope(rng),
        div: rng.gen_range(0..N_DIV),
        value: pick_value(rng),
        memo: pick_memo(rng),
        change,
    }
}

fn gen_ospend(rng: &mut ChaCha20Rng, v3: bool) -> OSpend {
    let (rho, rseed) = gen_rho_rseed(rng);
    OSpend {
        acct: rng.gen_range(0..3),
        scope: pick_scope(rng),
        div: rng.gen_range(0..N_DIV),
        value: pick_value(rng).max(1),
        rho,
        rseed,
        v3,
        bad_path: false,
    }
}

/// Number of multisig fixtures in `World` (kept in sync by an assertion in the bins).
pub const N_MULTISIG: usize = 11;
/// (m, n) of the fixtures, by index.
pub const MULTISIG_MN: [(usize, usize); N_MULTISIG] =
    [(2, 3), (2, 3), (2, 3), (1, 2), (2, 2), (3, 3), (2, 4), (3, 4), (1, 3), (2, 3), (3, 4)];

pub fn gen_p2sh(rng: &mut ChaCha20Rng, big: bool) -> TInKind {
    let ms = loop {
        let ms = rng.gen_range(0..N_MULTISIG);
        if big || MULTISIG_MN[ms].1 <= 3 {
            break ms;
        }
    };
    let (m, n) = MULTISIG_MN[ms];
    // who signs: exactly m, or more (surplus), in a random signing order
    let k = if rng.gen_bool(0.5) { m } else { rng.gen_range(m..=n) };
    let mut all: Vec<usize> = (0..n).collect();
    all.shuffle(rng);
    all.truncate(k);
    TInKind::P2sh { ms, signers: all }
}

fn gen_pad(rng: &mut ChaCha20Rng) -> Pad {
    match rng.gen_range(0..10) {
        0..=4 => Pad::DEFAULT,
        5 | 6 => Pad {
            required: false,
            min: Some(1),
        },
        7 => Pad {
            required: true,
            min: None,
        },
        8 => Pad {
            required: rng.gen_bool(0.5),
            min: Some(rng.gen_range(0..5)),
        },
        _ => Pad {
            required: true,
            min: Some(1),
        },
    }
}

fn gen_fee(rng: &mut ChaCha20Rng) -> FeeSpec {
    match rng.gen_range(0..10) {
        0..=4 => FeeSpec::Std,
        5..=7 => FeeSpec::Custom {
            marginal: *[5_000u64, 1_000, 7_777, 1].choose(rng).unwrap(),
            grace: *[0usize, 1, 2, 3, 5].choose(rng).unwrap(),
            in_size: *[150usize, 100, 75, 151].choose(rng).unwrap(),
            out_size: *[34usize, 20, 17, 35].choose(rng).unwrap(),
        },
        _ => FeeSpec::Fixed(*[0u64, 1, 1_000, 10_000, 123_456].choose(rng).unwrap()),
    }
}

/// What a request is allowed to contain.
#[derive(Clone, Copy, Debug)]
pub struct GenOpts {
    /// allow Orchard / Ironwood inputs and outputs
    pub orchard_family: bool,
    /// allow deliberately malformed requests (wrong key, bad path, invalid version, missing anchor)
    pub hostile: bool,
    /// restrict to target heights where PCZT construction is possible (ZIP 212 on)
    pub pczt_heights: bool,
    /// force delta = 0
    pub balanced_only: bool,
    /// also use the 4-key multisig fixtures (139-byte redeem scripts)
    pub big_multisig: bool,
    pub max_io: usize,
}

pub fn gen_request(rng: &mut ChaCha20Rng, o: GenOpts) -> Request {
    let height = loop {
        let h = *HEIGHT_MENU.choose(rng).unwrap();
        if o.pczt_heights && h < H_NU5 {
            continue;
        }
        break h;
    };
    let epoch = epoch_for(height);
    let n = |rng: &mut ChaCha20Rng| -> usize {
        match rng.gen_range(0..10) {
            0..=3 => 0,
            4..=6 => 1,
            7 => 2,
            8 => 3,
            _ => o.max_io,
        }
        .min(o.max_io)
    };
    let has_sapling = epoch >= Epoch::Sapling;
    let has_orchard = o.orchard_family && epoch >= Epoch::Nu5;
    let has_ironwood = o.orchard_family && epoch >= Epoch::Nu6_3;

    let mut r = Request {
        height,
        version: None,
        version_first: rng.gen_bool(0.5),
        expiry: match rng.gen_range(0..8) {
            0 => Some(0),
            1 => Some(height + rng.gen_range(0..100)),
            _ => None,
        },
        sapling_anchor: true,
        orchard_anchor: true,
        ironwood_anchor: true,
        orchard_pad: gen_pad(rng),
        ironwood_pad: gen_pad(rng),
        t_in: vec![],
        t_out: vec![],
        s_spend: vec![],
        s_out: vec![],
        o_spend: vec![],
        o_out: vec![],
        i_spend: vec![],
        i_out: vec![],
        fee: gen_fee(rng),
        delta: 0,
        tunable: Tunable::None,
    };
    // which pools take part
    let use_t_in = rng.gen_bool(0.55);
    let use_t_out = rng.gen_bool(0.5);
    let use_s = has_sapling && rng.gen_bool(0.5);
    let use_o = has_orchard && rng.gen_bool(0.5);
    let use_i = has_ironwood && rng.gen_bool(0.6);

    if use_t_in {
        for _ in 0..n(rng).max(1) {
            let mut h = [0u8; 32];
            rng.fill_bytes(&mut h);
            let kind = if rng.gen_bool(0.2) {
                gen_p2sh(rng, o.big_multisig)
            } else {
                TInKind::P2pkh {
                    acct: rng.gen_range(0..3),
                    key: rng.gen_range(0..4),
                }
            };
            r.t_in.push(TIn {
                kind,
                outpoint: (h, rng.gen_range(0..5)),
                value: pick_value(rng),
            });
        }
    }
    if use_t_out {
        for _ in 0..n(rng).max(1) {
            let t = match rng.gen_range(0..10) {
                0 => TOut::NullData({
                    let mut d = vec![0u8; rng.gen_range(0..=80)];
                    rng.fill_bytes(&mut d);
                    d
                }),
                1 | 2 => {
                    let mut hsh = [0u8; 20];
                    rng.fill_bytes(&mut hsh);
                    TOut::Pay {
                        addr: TransparentAddress::ScriptHash(hsh),
                        value: pick_value(rng),
                    }
                }
                _ => {
                    let mut hsh = [0u8; 20];
                    rng.fill_bytes(&mut hsh);
                    TOut::Pay {
                        addr: TransparentAddress::PublicKeyHash(hsh),
                        value: pick_value(rng),
                    }
                }
            };
            r.t_out.push(t);
        }
    }
    if use_s {
        for _ in 0..n(rng) {
            let mut rs = [0u8; 32];
            rng.fill_bytes(&mut rs);
            let mut rc = [0u8; 64];
            rng.fill_bytes(&mut rc);
            r.s_spend.push(SSpend {
                acct: rng.gen_range(0..3),
                scope: pick_scope(rng),
                div: rng.gen_range(0..N_DIV),
                value: pick_value(rng).max(1),
                rseed: rng.gen_bool(0.7).then_some(rs),
                rcm_seed: rc,
                bad_path: false,
            });
        }
        for _ in 0..n(rng) {
            r.s_out.push(gen_shout(rng, false));
        }
    }
    if use_o {
        let cross_disabled = epoch >= Epoch::Nu6_3;
        for _ in 0..n(rng) {
            r.o_spend.push(gen_ospend(rng, false));
        }
        for _ in 0..n(rng) {
            // NU6.3 Orchard forbids cross-address transfers: only wallet-owned change outputs can
            // be added; a plain output is an (expected) refusal and only generated when hostile.
            let change = if cross_disabled {
                !(o.hostile && rng.gen_bool(0.05))
            } else {
                rng.gen_bool(0.3)
            };
            r.o_out.push(gen_shout(rng, change));
        }
    }
    if use_i {
        for _ in 0..n(rng) {
            r.i_spend.push(gen_ospend(rng, true));
        }
        for _ in 0..n(rng) {
            r.i_out.push(gen_shout(rng, false));
        }
    }

    // a request without any input can never balance: usually give it one
    if r.t_in.is_empty() && r.s_spend.is_empty() && r.o_spend.is_empty() && r.i_spend.is_empty() && rng.gen_bool(0.85) {
        match rng.gen_range(0..4) {
            0 if has_sapling => {
                let mut rs = [0u8; 32];
                rng.fill_bytes(&mut rs);
                r.s_spend.push(SSpend {
                    acct: rng.gen_range(0..3),
                    scope: pick_scope(rng),
                    div: rng.gen_range(0..N_DIV),
                    value: pick_value(rng).max(1),
                    rseed: Some(rs),
                    rcm_seed: [1u8; 64],
                    bad_path: false,
                });
            }
            1 if has_ironwood => r.i_spend.push(gen_ospend(rng, true)),
            2 if has_orchard => r.o_spend.push(gen_ospend(rng, false)),
            _ => {
                let mut h = [0u8; 32];
                rng.fill_bytes(&mut h);
                r.t_in.push(TIn {
                    kind: TInKind::P2pkh {
                        acct: rng.gen_range(0..3),
                        key: rng.gen_range(0..4),
                    },
                    outpoint: (h, rng.gen_range(0..5)),
                    value: pick_value(rng),
                });
            }
        }
    }

    // hostile twists
    if o.hostile {
        match rng.gen_range(0..40) {
            0 => r.sapling_anchor = false,
            1 => r.orchard_anchor = false,
            2 => r.ironwood_anchor = false,
            3 => {
                if let Some(s) = r.s_spend.first_mut() {
                    s.bad_path = true
                }
            }
            4 => {
                if let Some(s) = r.o_spend.first_mut() {
                    s.bad_path = true
                }
            }
            5 => {
                if let Some(s) = r.i_spend.first_mut() {
                    s.bad_path = true
                }
            }
            6 => {
                if let Some(s) = r.i_spend.first_mut() {
                    s.v3 = false
                }
            }
            7 => {
                if let Some(t) = r.t_in.first_mut() {
                    if let TInKind::P2pkh { acct, key } = t.kind {
                        t.kind = TInKind::WrongKey { acct, key };
                    }
                }
            }
            8 => {
                // Orchard / Ironwood requested where the pool does not exist yet
                if epoch < Epoch::Nu6_3 && epoch >= Epoch::Sapling {
                    r.i_out.push(gen_shout(rng, false));
                }
            }
            9 => {
                if epoch < Epoch::Nu5 && epoch >= Epoch::Sapling {
                    r.o_out.push(gen_shout(rng, false));
                }
            }
            _ => {}
        }
    }
    // optional anchors off when the pool is unused (exercises "no builder" paths)
    if r.s_spend.is_empty() && r.s_out.is_empty() && rng.gen_bool(0.4) {
        r.sapling_anchor = false;
    }
    if r.o_spend.is_empty() && r.o_out.is_empty() && rng.gen_bool(0.4) {
        r.orchard_anchor = false;
    }
    if r.i_spend.is_empty() && r.i_out.is_empty() && rng.gen_bool(0.4) {
        r.ironwood_anchor = false;
    }

    // version
    let vroll = rng.gen_range(0..100);
    r.version = if vroll < 55 {
        None
    } else if vroll < 82 || !o.hostile {
        // an explicit version that should be acceptable for the epoch
        let mut c = vec![];
        if epoch >= Epoch::Sapling {
            c.push(Ver::V4);
        }
        if epoch >= Epoch::Nu5 {
            c.push(Ver::V5);
        }
        if epoch >= Epoch::Nu6_3 {
            c.push(Ver::V6);
        }
        c.choose(rng).copied()
    } else {
        Some(*[Ver::V3, Ver::V4, Ver::V5, Ver::V6].choose(rng).unwrap())
    };

    // balance target
    r.delta = if o.balanced_only {
        0
    } else {
        match rng.gen_range(0..24) {
            0 | 1 => -1,
            2 | 3 => 1,
            4 => -(rng.gen_range(2..100_000i64)),
            5 => rng.gen_range(2..100_000i64),
            6 => -5_000,
            7 => 5_000,
            _ => 0,
        }
    };
    // choose what to tune: prefer inputs
    let mut cands = vec![];
    for i in 0..r.t_in.len() {
        cands.push(Tunable::TIn(i));
    }
    for i in 0..r.s_spend.len() {
        cands.push(Tunable::SSpend(i));
    }
    for i in 0..r.o_spend.len() {
        cands.push(Tunable::OSpend(i));
    }
    for i in 0..r.i_spend.len() {
        cands.push(Tunable::ISpend(i));
    }
    let mut out_cands = vec![];
    for (i, t) in r.t_out.iter().enumerate() {
        if matches!(t, TOut::Pay { .. }) {
            out_cands.push(Tunable::TOut(i));
        }
    }
    for i in 0..r.s_out.len() {
        out_cands.push(Tunable::SOut(i));
    }
    for i in 0..r.o_out.len() {
        out_cands.push(Tunable::OOut(i));
    }
    for i in 0..r.i_out.len() {
        out_cands.push(Tunable::IOut(i));
    }
    r.tunable = if !cands.is_empty() && (out_cands.is_empty() || rng.gen_bool(0.7)) {
        *cands.choose(rng).unwrap()
    } else if !out_cands.is_empty() {
        *out_cands.choose(rng).unwrap()
    } else {
        Tunable::None
    };
    r
}

impl Request {
    fn tunable_value(&mut self) -> Option<(&mut u64, bool)> {
        // the designated item may have been removed by a later edit of the request
        match self.tunable {
            Tunable::TIn(i) => self.t_in.get_mut(i).map(|x| (&mut x.value, true)),
            Tunable::SSpend(i) => self.s_spend.get_mut(i).map(|x| (&mut x.value, true)),
            Tunable::OSpend(i) => self.o_spend.get_mut(i).map(|x| (&mut x.value, true)),
            Tunable::ISpend(i) => self.i_spend.get_mut(i).map(|x| (&mut x.value, true)),
            Tunable::TOut(i) => match self.t_out.get_mut(i) {
                Some(TOut::Pay { value, .. }) => Some((value, false)),
                _ => None,
            },
            Tunable::SOut(i) => self.s_out.get_mut(i).map(|x| (&mut x.value, false)),
            Tunable::OOut(i) => self.o_out.get_mut(i).map(|x| (&mut x.value, false)),
            Tunable::IOut(i) => self.i_out.get_mut(i).map(|x| (&mut x.value, false)),
            Tunable::None => None,
        }
    }

    /// Adjusts values so that inputs - outputs - `fee` == `delta`, preferring the designated
    /// tunable item. Returns false if that is impossible (the achieved delta is then stored in
    /// `self.delta`).
    pub fn balance_to(&mut self, fee: u64) -> bool {
        let want = self.delta as i128;
        let cur = self.total_in() as i128 - self.total_out() as i128 - fee as i128;
        let mut need = want - cur; // > 0: more input (or less output) needed
        const CAP: i128 = (MAX_MONEY / 2) as i128;
        // preferred item first, then everything else
        let mut order = vec![self.tunable];
        for i in 0..self.t_in.len() {
            order.push(Tunable::TIn(i));
        }
        for i in 0..self.s_spend.len() {
            order.push(Tunable::SSpend(i));
        }
        for i in 0..self.o_spend.len() {
            order.push(Tunable::OSpend(i));
        }
        for i in 0..self.i_spend.len() {
            order.push(Tunable::ISpend(i));
        }
        for i in 0..self.t_out.len() {
            order.push(Tunable::TOut(i));
        }
        for i in 0..self.s_out.len() {
            order.push(Tunable::SOut(i));
        }
        for i in 0..self.o_out.len() {
            order.push(Tunable::OOut(i));
        }
        for i in 0..self.i_out.len() {
            order.push(Tunable::IOut(i));
        }
        for t in order {
            if need == 0 {
                break;
            }
            self.tunable = t;
            let Some((v, is_input)) = self.tunable_value() else { continue };
            let old = *v as i128;
            let target = if is_input { old + need } else { old - need };
            let new = target.clamp(0, CAP);
            *v = new as u64;
            let applied = if is_input { new - old } else { old - new };
            need -= applied;
        }
        if need != 0 {
            let cur = self.total_in() as i128 - self.total_out() as i128 - fee as i128;
            self.delta = cur.clamp(i64::MIN as i128, i64::MAX as i128) as i64;
            return false;
        }
        true
    }
}
