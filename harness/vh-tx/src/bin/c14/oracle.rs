//! C14 oracle: what a transaction emitted by the builder must look like, judged from the request
//! the harness made and the keys it owns. Nothing here consults the builder.
#![allow(dead_code)]

use std::collections::BTreeMap;

use sha2::{Digest, Sha256};
use zcash_note_encryption::{try_note_decryption, try_output_recovery_with_ovk};
use zcash_primitives::transaction::{
    Authorization, TransactionData, TxDigests, TxVersion,
    sighash::SignableInput,
    sighash_v4::v4_signature_hash,
    sighash_v5::v5_signature_hash,
    sighash_v6::v6_signature_hash,
    txid::TxIdDigester,
};
use zcash_protocol::value::ZatBalance;
use zcash_transparent::{
    address::{Script, TransparentAddress},
    bundle::TxOut,
    sighash::{SighashType, TransparentAuthorizingContext},
};
use zip32::Scope;

use crate::kit::*;

pub type Finding = (String, String);

// ---------------------------------------------------------------------------------------------
// small independent helpers
// ---------------------------------------------------------------------------------------------

pub fn hash160(b: &[u8]) -> [u8; 20] {
    use ripemd::Ripemd160;
    let s = Sha256::digest(b);
    let r = Ripemd160::digest(s);
    let mut o = [0u8; 20];
    o.copy_from_slice(&r);
    o
}

pub fn compact_size_len(n: usize) -> usize {
    if n < 253 {
        1
    } else if n <= 0xffff {
        3
    } else if n <= 0xffff_ffff {
        5
    } else {
        9
    }
}

/// Data pushes of a push-only script. `None` if anything else appears.
pub fn parse_pushes(s: &[u8]) -> Option<Vec<Vec<u8>>> {
    let mut out = vec![];
    let mut i = 0;
    while i < s.len() {
        let op = s[i];
        i += 1;
        let n = match op {
            0x00 => 0usize,
            0x01..=0x4b => op as usize,
            0x4c => {
                let n = *s.get(i)? as usize;
                i += 1;
                n
            }
            0x4d => {
                let n = u16::from_le_bytes([*s.get(i)?, *s.get(i + 1)?]) as usize;
                i += 2;
                n
            }
            _ => return None,
        };
        if i + n > s.len() {
            return None;
        }
        out.push(s[i..i + n].to_vec());
        i += n;
    }
    Some(out)
}

fn push_data(d: &[u8]) -> Vec<u8> {
    let mut v = vec![];
    match d.len() {
        0 => v.push(0x00),
        1..=0x4b => {
            v.push(d.len() as u8);
            v.extend_from_slice(d);
        }
        n if n <= 0xff => {
            v.push(0x4c);
            v.push(n as u8);
            v.extend_from_slice(d);
        }
        n => {
            v.push(0x4d);
            v.extend_from_slice(&(n as u16).to_le_bytes());
            v.extend_from_slice(d);
        }
    }
    v
}

/// OP_RETURN scripts are compared by payload: a one-byte payload may legitimately be encoded
/// with a small-integer opcode (minimal push) instead of a 1-byte data push.
pub fn canonical_null_data(script: &[u8]) -> Vec<u8> {
    if script.first() != Some(&0x6a) {
        return script.to_vec();
    }
    let rest = &script[1..];
    let payload: Option<Vec<u8>> = match rest {
        [op] if (0x51..=0x60).contains(op) => Some(vec![op - 0x50]),
        [0x4f] => Some(vec![0x81]),
        _ => parse_pushes(rest).and_then(|p| if p.len() == 1 { Some(p[0].clone()) } else { None }),
    };
    match payload {
        Some(d) => {
            let mut v = vec![0x6a];
            v.extend_from_slice(&push_data(&d));
            v
        }
        None => script.to_vec(),
    }
}

pub fn expected_script(t: &TOut) -> Vec<u8> {
    match t {
        TOut::Pay {
            addr: TransparentAddress::PublicKeyHash(h),
            ..
        } => {
            let mut v = vec![0x76, 0xa9, 0x14];
            v.extend_from_slice(h);
            v.extend_from_slice(&[0x88, 0xac]);
            v
        }
        TOut::Pay {
            addr: TransparentAddress::ScriptHash(h),
            ..
        } => {
            let mut v = vec![0xa9, 0x14];
            v.extend_from_slice(h);
            v.push(0x87);
            v
        }
        TOut::NullData(d) => {
            let mut v = vec![0x6a];
            v.extend_from_slice(&push_data(d));
            v
        }
    }
}

// ---------------------------------------------------------------------------------------------
// version table (protocol §7.1 / ZIP 225 / the NU6.3 transaction format)
// ---------------------------------------------------------------------------------------------

pub fn version_valid_in(v: Ver, e: Epoch) -> bool {
    match v {
        Ver::V3 => e == Epoch::Overwinter,
        Ver::V4 => e >= Epoch::Sapling,
        Ver::V5 => e >= Epoch::Nu5,
        Ver::V6 => e >= Epoch::Nu6_3,
    }
}

/// Is the request acceptable as far as version / pool availability is concerned?
/// (`None`: the builder picks the version; then only pool availability in the epoch matters.)
pub fn version_request_valid(r: &Request, emitted: Ver) -> Result<(), String> {
    let e = r.epoch();
    if !version_valid_in(emitted, e) {
        return Err(format!("version {emitted:?} is not valid in epoch {e:?}"));
    }
    if let Some(v) = r.version {
        if v != emitted {
            return Err(format!("requested {v:?}, emitted {emitted:?}"));
        }
    }
    let uses_o = !r.o_spend.is_empty() || !r.o_out.is_empty();
    let uses_i = !r.i_spend.is_empty() || !r.i_out.is_empty();
    if uses_o && !(matches!(emitted, Ver::V5 | Ver::V6) && e >= Epoch::Nu5) {
        return Err(format!("Orchard I/O in {emitted:?} / {e:?}"));
    }
    if uses_i && !(emitted == Ver::V6 && e >= Epoch::Nu6_3) {
        return Err(format!("Ironwood I/O in {emitted:?} / {e:?}"));
    }
    Ok(())
}

// ---------------------------------------------------------------------------------------------
// fee for the final shape (ZIP 317 as parameterised by the supplied rule)
// ---------------------------------------------------------------------------------------------

/// ZIP 317's standard P2PKH input size.
pub const P2PKH_IN: usize = 150;
/// Upper bound for an m-of-n P2SH multisig input, as the library documents it: outpoint 36 +
/// CompactSize(len) + scriptSig (OP_0 + m * (1 + 73) + push of the (3 + 34 n)-byte redeem script)
/// + sequence 4.
pub fn p2sh_in_size(m: usize, n: usize) -> usize {
    let redeem = 3 + 34 * n;
    let push = redeem + if redeem <= 75 { 1 } else if redeem <= 255 { 2 } else { 3 };
    let script = 1 + m * 74 + push;
    36 + compact_size_len(script) + script + 4
}

#[derive(Clone, Debug, Default, PartialEq, Eq)]
pub struct Shape {
    pub t_in_sizes: Vec<usize>,
    pub t_out_sizes: Vec<usize>,
    pub s_spends: usize,
    pub s_outputs: usize,
    pub o_actions: usize,
    pub i_actions: usize,
}

pub fn fee_for(spec: &FeeSpec, s: &Shape) -> u128 {
    let (marginal, grace, in_size, out_size) = match spec {
        FeeSpec::Fixed(f) => return *f as u128,
        FeeSpec::Std => (5_000u128, 2usize, 150usize, 34usize),
        FeeSpec::Custom {
            marginal,
            grace,
            in_size,
            out_size,
        } => (*marginal as u128, *grace, *in_size, *out_size),
    };
    let tin: usize = s.t_in_sizes.iter().sum();
    let tout: usize = s.t_out_sizes.iter().sum();
    let logical = tin.div_ceil(in_size).max(tout.div_ceil(out_size))
        + s.s_spends.max(s.s_outputs)
        + s.o_actions
        + s.i_actions;
    marginal * (logical.max(grace) as u128)
}

// ---------------------------------------------------------------------------------------------
// contents
// ---------------------------------------------------------------------------------------------

pub fn zip212_for(height: u32) -> sapling::note_encryption::Zip212Enforcement {
    use sapling::note_encryption::Zip212Enforcement::*;
    if height < H_CANOPY {
        Off
    } else if height < H_ZIP212_ON {
        GracePeriod
    } else {
        On
    }
}

#[derive(Default, Debug)]
pub struct Observed {
    pub shape: Shape,
    pub fee_paid: i128,
    pub outputs_decrypted: u64,
    pub ovk_recovered: u64,
    pub ovk_not_recovered: u64,
    pub ovk_notes: Vec<String>,
    pub padding_outputs: u64,
    pub padding_decrypted_zero: u64,
    pub extra_spends: u64,
    pub order_differs: bool,
}

struct Dec {
    value: u64,
    addr: Vec<u8>,
    memo: [u8; 512],
    acct: usize,
    scope: Scope,
}

fn match_outputs(
    pool: &str,
    reqs: &[ShOut],
    want_addr: impl Fn(&ShOut) -> Vec<u8>,
    decs: &[Option<Dec>],
    out: &mut Vec<Finding>,
    obs: &mut Observed,
) -> Vec<Option<usize>> {
    let mut used = vec![false; decs.len()];
    let mut assign = vec![None; reqs.len()];
    for (i, q) in reqs.iter().enumerate() {
        let wa = want_addr(q);
        let wm = memo_array(&q.memo);
        let hit = decs.iter().enumerate().position(|(j, d)| {
            !used[j]
                && d.as_ref().is_some_and(|d| {
                    d.value == q.value && d.addr == wa && d.memo == wm && d.acct == q.acct && d.scope == q.scope
                })
        });
        match hit {
            Some(j) => {
                used[j] = true;
                assign[i] = Some(j);
                obs.outputs_decrypted += 1;
            }
            None => {
                // what is there for that recipient instead?
                let near: Vec<String> = decs
                    .iter()
                    .enumerate()
                    .filter(|(j, d)| !used[*j] && d.as_ref().is_some_and(|d| d.acct == q.acct && d.scope == q.scope))
                    .map(|(_, d)| {
                        let d = d.as_ref().unwrap();
                        format!(
                            "value {} addr_ok {} memo_ok {}",
                            d.value,
                            d.addr == wa,
                            d.memo == wm
                        )
                    })
                    .collect();
                let class = if near.iter().any(|n| n.contains("memo_ok false") && n.contains("addr_ok true")) {
                    "memo"
                } else if near.is_empty() {
                    "missing"
                } else {
                    "mismatch"
                };
                out.push((
                    format!("{pool}-output-not-decryptable-as-requested:{class}"),
                    format!(
                        "requested {pool} output #{i} (acct {} {:?} div {} value {} memo_len {}) has no matching output; recipient sees {near:?}",
                        q.acct,
                        q.scope,
                        q.div,
                        q.value,
                        q.memo.len()
                    ),
                ));
            }
        }
    }
    for (j, d) in decs.iter().enumerate() {
        if used[j] {
            continue;
        }
        obs.padding_outputs += 1;
        if let Some(d) = d {
            if d.value != 0 {
                out.push((
                    format!("{pool}-unrequested-valued-output"),
                    format!("{pool} output #{j} was not requested but pays {} to acct {} {:?}", d.value, d.acct, d.scope),
                ));
            } else {
                obs.padding_decrypted_zero += 1;
            }
        }
    }
    assign
}

fn check_orchard_family<A: orchard::bundle::Authorization>(
    pool: &str,
    w: &World,
    bundle: Option<&orchard::Bundle<A, ZatBalance>>,
    spends: &[OSpend],
    notes: &[OrchardNoteCtx],
    outs: &[ShOut],
    anchor: &orchard::Anchor,
    skip_anchor: bool,
    want_version: orchard::note::NoteVersion,
    out: &mut Vec<Finding>,
    obs: &mut Observed,
) -> (usize, i128) {
    let Some(b) = bundle else {
        if !spends.is_empty() || !outs.is_empty() {
            out.push((
                format!("{pool}-bundle-missing"),
                format!("{} spends / {} outputs requested but the transaction has no {pool} bundle", spends.len(), outs.len()),
            ));
        }
        return (0, 0);
    };
    let n = b.actions().len();
    // spends
    let nfs: Vec<[u8; 32]> = b.actions().iter().map(|a| a.nullifier().to_bytes()).collect();
    for (i, c) in notes.iter().enumerate() {
        let cnt = nfs.iter().filter(|x| **x == c.nf).count();
        if cnt != 1 {
            out.push((
                format!("{pool}-spend-nullifier"),
                format!("requested {pool} spend #{i}: its nullifier appears {cnt} times among {n} actions"),
            ));
        }
    }
    obs.extra_spends += (n - notes.len().min(n)) as u64;
    if !spends.is_empty() && !skip_anchor && b.anchor() != anchor {
        out.push((format!("{pool}-anchor"), "bundle anchor differs from the requested anchor".into()));
    }
    if b.bundle_version().note_version() != want_version {
        out.push((format!("{pool}-note-version"), format!("{:?}", b.bundle_version())));
    }
    // outputs
    let mut decs: Vec<Option<Dec>> = vec![];
    for j in 0..n {
        let mut d = None;
        'k: for (ai, a) in w.accounts.iter().enumerate() {
            for scope in [Scope::External, Scope::Internal] {
                if let Some((note, addr, memo)) = b.decrypt_output_with_key(j, &a.o_ivk(scope)) {
                    d = Some(Dec {
                        value: note.value().inner(),
                        addr: addr.to_raw_address_bytes().to_vec(),
                        memo,
                        acct: ai,
                        scope,
                    });
                    break 'k;
                }
            }
        }
        decs.push(d);
    }
    let assign = match_outputs(
        pool,
        outs,
        |q| w.accounts[q.acct].o_addr(q.scope, q.div).to_raw_address_bytes().to_vec(),
        &decs,
        out,
        obs,
    );
    for (i, q) in outs.iter().enumerate() {
        if let (Some(j), Some((oa, os))) = (assign[i], q.ovk) {
            match b.recover_output_with_ovk(j, &w.accounts[oa].o_ovk(os)) {
                Some((note, _, memo)) if note.value().inner() == q.value && memo == memo_array(&q.memo) => {
                    obs.ovk_recovered += 1
                }
                _ => {
                    obs.ovk_not_recovered += 1;
                    obs.ovk_notes.push(format!("{pool} change={} out-scope {:?}", q.change, q.scope));
                }
            }
        }
    }
    let vb = i64::from(*b.value_balance()) as i128;
    let want = spends.iter().map(|s| s.value as i128).sum::<i128>() - outs.iter().map(|o| o.value as i128).sum::<i128>();
    if vb != want {
        out.push((
            format!("{pool}-value-balance"),
            format!("bundle value balance {vb}, requested spends - outputs = {want} (padding is not value-neutral)"),
        ));
    }
    (n, vb)
}

/// Checks everything the statement says about the *contents* of an emitted transaction
/// (authorized or effects-only). Returns findings; fills `obs`.
pub fn check_contents<A: Authorization>(
    w: &World,
    r: &Request,
    m: &Materialised,
    td: &TransactionData<A>,
    obs: &mut Observed,
) -> Vec<Finding> {
    let mut out: Vec<Finding> = vec![];

    // header
    let Some(ver) = Ver::of(td.version()) else {
        out.push(("version".into(), format!("unexpected version {:?}", td.version())));
        return out;
    };
    if let Err(e) = version_request_valid(r, ver) {
        out.push(("emitted-with-invalid-version".into(), e));
    }
    let want_branch = epoch_branch(r.epoch());
    if td.consensus_branch_id() != want_branch {
        out.push((
            "consensus-branch".into(),
            format!("{:?} for height {} (expected {:?})", td.consensus_branch_id(), r.height, want_branch),
        ));
    }
    let want_expiry = r.expiry.unwrap_or(r.height + 40);
    if u32::from(td.expiry_height()) != want_expiry {
        out.push((
            "expiry-height".into(),
            format!("{} (expected {want_expiry})", u32::from(td.expiry_height())),
        ));
    }

    // transparent
    let mut t_value: i128 = 0;
    let (vin, vout): (Vec<_>, Vec<TxOut>) = match td.transparent_bundle() {
        Some(b) => (
            b.vin.iter().map(|i| (*i.prevout().hash(), i.prevout().n())).collect(),
            b.vout.clone(),
        ),
        None => (vec![], vec![]),
    };
    {
        let mut want: Vec<([u8; 32], u32)> = r.t_in.iter().map(|t| t.outpoint).collect();
        let mut got = vin.clone();
        if want != got {
            obs.order_differs = true;
        }
        want.sort();
        got.sort();
        if want != got {
            out.push((
                "transparent-inputs".into(),
                format!("{} inputs in the transaction, {} requested; outpoint multisets differ", got.len(), want.len()),
            ));
        }
        for op in &vin {
            if let Some(t) = r.t_in.iter().find(|t| t.outpoint == *op) {
                t_value += t.value as i128;
                obs.shape.t_in_sizes.push(match t.kind {
                    TInKind::P2sh { ms, .. } => p2sh_in_size(w.multisigs[ms].m, w.multisigs[ms].n()),
                    _ => P2PKH_IN,
                });
            }
        }
        let mut wanto: Vec<(Vec<u8>, u64)> = r
            .t_out
            .iter()
            .map(|t| {
                (
                    expected_script(t),
                    match t {
                        TOut::Pay { value, .. } => *value,
                        TOut::NullData(_) => 0,
                    },
                )
            })
            .collect();
        let mut goto: Vec<(Vec<u8>, u64)> = vout
            .iter()
            .map(|o| (canonical_null_data(&o.script_pubkey().0.0), u64::from(o.value())))
            .collect();
        for o in &goto {
            t_value -= o.1 as i128;
            obs.shape.t_out_sizes.push(8 + compact_size_len(o.0.len()) + o.0.len());
        }
        if wanto != goto {
            obs.order_differs = true;
        }
        wanto.sort();
        goto.sort();
        if wanto != goto {
            out.push((
                "transparent-outputs".into(),
                format!("{} outputs in the transaction, {} requested; (script, value) multisets differ", goto.len(), wanto.len()),
            ));
        }
    }

    // sapling
    let mut s_vb: i128 = 0;
    match td.sapling_bundle() {
        None => {
            if !r.s_spend.is_empty() || !r.s_out.is_empty() {
                out.push((
                    "sapling-bundle-missing".into(),
                    format!("{} spends / {} outputs requested", r.s_spend.len(), r.s_out.len()),
                ));
            }
        }
        Some(b) => {
            obs.shape.s_spends = b.shielded_spends().len();
            obs.shape.s_outputs = b.shielded_outputs().len();
            let nfs: Vec<[u8; 32]> = b.shielded_spends().iter().map(|s| s.nullifier().0).collect();
            for (i, c) in m.s_notes.iter().enumerate() {
                let cnt = nfs.iter().filter(|x| **x == c.nf).count();
                if cnt != 1 {
                    out.push((
                        "sapling-spend-nullifier".into(),
                        format!("requested Sapling spend #{i}: its nullifier appears {cnt} times among {} spends", nfs.len()),
                    ));
                }
            }
            obs.extra_spends += (nfs.len() - m.s_notes.len().min(nfs.len())) as u64;
            for s in b.shielded_spends() {
                if !r.s_spend.is_empty() && s.anchor().to_bytes() != m.s_anchor.to_bytes() {
                    out.push(("sapling-anchor".into(), "a spend's anchor differs from the requested anchor".into()));
                    break;
                }
            }
            let z = zip212_for(r.height);
            let domain = sapling::note_encryption::SaplingDomain::new(z);
            let mut decs: Vec<Option<Dec>> = vec![];
            for o in b.shielded_outputs() {
                let mut d = None;
                'k: for (ai, a) in w.accounts.iter().enumerate() {
                    for scope in [Scope::External, Scope::Internal] {
                        if let Some((note, addr, memo)) = try_note_decryption(&domain, &a.s_ivk(scope), o) {
                            d = Some(Dec {
                                value: note.value().inner(),
                                addr: addr.to_bytes().to_vec(),
                                memo,
                                acct: ai,
                                scope,
                            });
                            break 'k;
                        }
                    }
                }
                decs.push(d);
            }
            let assign = match_outputs(
                "sapling",
                &r.s_out,
                |q| w.accounts[q.acct].s_addr(q.scope, q.div).to_bytes().to_vec(),
                &decs,
                &mut out,
                obs,
            );
            for (i, q) in r.s_out.iter().enumerate() {
                if let (Some(j), Some((oa, os))) = (assign[i], q.ovk) {
                    let o = &b.shielded_outputs()[j];
                    match try_output_recovery_with_ovk(&domain, &w.accounts[oa].s_ovk(os), o, o.cv(), o.out_ciphertext()) {
                        Some((note, _, memo)) if note.value().inner() == q.value && memo == memo_array(&q.memo) => {
                            obs.ovk_recovered += 1
                        }
                        _ => obs.ovk_not_recovered += 1,
                    }
                }
            }
            s_vb = i64::from(*b.value_balance()) as i128;
            let want = r.s_spend.iter().map(|s| s.value as i128).sum::<i128>()
                - r.s_out.iter().map(|o| o.value as i128).sum::<i128>();
            if s_vb != want {
                out.push((
                    "sapling-value-balance".into(),
                    format!("bundle value balance {s_vb}, requested spends - outputs = {want}"),
                ));
            }
        }
    }

    // orchard family
    let (on, o_vb) = check_orchard_family(
        "orchard",
        w,
        td.orchard_bundle(),
        &r.o_spend,
        &m.o_notes,
        &r.o_out,
        &m.o_anchor,
        m.anchors_deferred,
        orchard::note::NoteVersion::V2,
        &mut out,
        obs,
    );
    let (inn, i_vb) = check_orchard_family(
        "ironwood",
        w,
        td.ironwood_bundle(),
        &r.i_spend,
        &m.i_notes,
        &r.i_out,
        &m.i_anchor,
        m.anchors_deferred,
        orchard::note::NoteVersion::V3,
        &mut out,
        obs,
    );
    obs.shape.o_actions = on;
    obs.shape.i_actions = inn;

    // fee: net value balance across all pools
    obs.fee_paid = t_value + s_vb + o_vb + i_vb;
    let prescribed = fee_for(&r.fee, &obs.shape) as i128;
    if obs.fee_paid != prescribed {
        // A specific, separately-signed class: the padding policy demands an all-dummy bundle in a
        // pool that the explicitly proposed version cannot carry; get_fee charges for it, the
        // emitted transaction does not contain it.
        let lacks_i = matches!(r.version, Some(Ver::V4 | Ver::V5));
        let lacks_o = matches!(r.version, Some(Ver::V4));
        let class = if lacks_i
            && r.ironwood_pad.required
            && r.ironwood_anchor
            && r.epoch() >= Epoch::Nu6_3
            && inn == 0
            && r.i_spend.is_empty()
            && r.i_out.is_empty()
        {
            "fee-paid-differs-from-rule:required-ironwood-bundle-charged-but-dropped-for-version"
        } else if lacks_o && r.orchard_pad.required && r.orchard_anchor && on == 0 && r.o_spend.is_empty() && r.o_out.is_empty() {
            "fee-paid-differs-from-rule:required-orchard-bundle-charged-but-dropped-for-version"
        } else {
            "fee-paid-differs-from-rule"
        };
        out.push((
            class.into(),
            format!(
                "net value balance {} but the fee rule {:?} prescribes {} for the final shape {:?}",
                obs.fee_paid, r.fee, prescribed, obs.shape
            ),
        ));
    }
    let req_net = r.total_in() as i128 - r.total_out() as i128;
    if obs.fee_paid != req_net && out.is_empty() {
        out.push((
            "net-balance-differs-from-request".into(),
            format!("net value balance {} but requested inputs - outputs = {req_net}", obs.fee_paid),
        ));
    }
    out
}

// ---------------------------------------------------------------------------------------------
// transparent signatures
// ---------------------------------------------------------------------------------------------

/// Transparent authorization that knows the coins being spent (the harness minted them).
#[derive(Debug)]
pub struct Coins(pub Vec<TxOut>);

impl zcash_transparent::bundle::Authorization for Coins {
    type ScriptSig = Script;
}

impl TransparentAuthorizingContext for Coins {
    fn input_amounts(&self) -> Vec<zcash_protocol::value::Zatoshis> {
        self.0.iter().map(|c| c.value()).collect()
    }
    fn input_scriptpubkeys(&self) -> Vec<Script> {
        self.0.iter().map(|c| c.script_pubkey().clone()).collect()
    }
}

pub struct SigAuth;

impl Authorization for SigAuth {
    type TransparentAuth = Coins;
    type SaplingAuth = sapling::bundle::Authorized;
    type OrchardAuth = orchard::bundle::Authorized;
}

/// The coins spent by `vin`, in `vin` order (looked up by outpoint in the request).
pub fn coins_in_vin_order(r: &Request, m: &Materialised, vin: &[([u8; 32], u32)]) -> Option<Vec<(usize, TxOut)>> {
    vin.iter()
        .map(|op| {
            r.t_in
                .iter()
                .position(|t| t.outpoint == *op)
                .map(|k| (k, m.coins[k].clone()))
        })
        .collect()
}

pub fn to_sig_auth(
    td: TransactionData<zcash_primitives::transaction::Authorized>,
    coins: Vec<TxOut>,
) -> TransactionData<SigAuth> {
    td.map_bundles::<SigAuth>(
        |t| {
            t.map(|b| zcash_transparent::bundle::Bundle {
                vin: b
                    .vin
                    .into_iter()
                    .map(|i| zcash_transparent::bundle::TxIn::from_parts(i.prevout().clone(), i.script_sig().clone(), i.sequence()))
                    .collect(),
                vout: b.vout,
                authorization: Coins(coins),
            })
        },
        |s| s,
        |o| o,
    )
}

fn sighash_generic<TA, SA, A>(
    td: &TransactionData<A>,
    digests: &TxDigests<blake2b_simd::Hash>,
    input: &SignableInput<'_>,
) -> [u8; 32]
where
    TA: TransparentAuthorizingContext,
    SA: sapling::bundle::Authorization,
    A: Authorization<TransparentAuth = TA, SaplingAuth = SA>,
{
    let h = match td.version() {
        TxVersion::V5 => v5_signature_hash(td, input, digests),
        TxVersion::V6 => v6_signature_hash(td, input, digests),
        _ => unreachable!("v4 handled by the caller"),
    };
    h.as_bytes().try_into().expect("32 bytes")
}

pub struct SigObs {
    pub p2pkh_verified: u64,
    pub p2sh_verified: u64,
    /// (input index, hash type, digest the signature was verified under, script code)
    pub digests: Vec<(usize, u8, [u8; 32], Vec<u8>)>,
    /// inputs whose scriptSig + scriptPubKey the zcash_script interpreter accepted
    pub interp_p2pkh: u64,
    pub interp_p2sh: u64,
    pub interp_p2sh_unsorted: u64,
    pub interp_p2sh_surplus: u64,
    /// nLockTime and per-input nSequence of the transaction being judged (for the interpreter)
    pub lock_time: u32,
    pub sequences: Vec<u32>,
}

impl SigObs {
    pub fn new() -> Self {
        SigObs {
            p2pkh_verified: 0,
            p2sh_verified: 0,
            digests: vec![],
            interp_p2pkh: 0,
            interp_p2sh: 0,
            interp_p2sh_unsorted: 0,
            interp_p2sh_surplus: 0,
            lock_time: 0,
            sequences: vec![],
        }
    }
}

/// Runs scriptSig + scriptPubKey through the `zcash_script` interpreter (all verification flags),
/// with `sighash` supplying the digest for (script code, hash type byte).
pub fn interpret(
    script_sig: &[u8],
    script_pubkey: &[u8],
    lock_time: u32,
    sequence: u32,
    sighash: &dyn Fn(&Script, u8) -> [u8; 32],
) -> Result<bool, String> {
    use zcash_script::signature::SignedOutputs;
    let calc = |code: &zcash_script::script::Code, ht: &zcash_script::signature::HashType| -> Option<[u8; 32]> {
        let base = match ht.signed_outputs() {
            SignedOutputs::All => 1u8,
            SignedOutputs::None => 2,
            SignedOutputs::Single => 3,
        };
        let byte = base | if ht.anyone_can_pay() { 0x80 } else { 0 };
        Some(sighash(&Script(code.clone()), byte))
    };
    let checker = zcash_script::interpreter::CallbackTransactionSignatureChecker {
        sighash: &calc,
        lock_time: lock_time.into(),
        is_final: sequence == 0xFFFF_FFFF,
    };
    zcash_script::script::Raw::from_raw_parts(script_sig.to_vec(), script_pubkey.to_vec())
        .eval(zcash_script::interpreter::Flags::all(), &checker)
        .map_err(|e| format!("{e:?}"))
}

/// Verifies the scriptSig of every transparent input of `td` under the coin it spends.
/// `script_sigs[i]` are the raw scriptSig bytes of input i.
pub fn check_signatures_with<F: Fn(usize, u8, &Script, &TxOut) -> [u8; 32]>(
    w: &World,
    r: &Request,
    spent: &[(usize, TxOut)],
    script_sigs: &[Vec<u8>],
    sighash: F,
    so: &mut SigObs,
) -> Vec<Finding> {
    let secp = secp256k1::Secp256k1::verification_only();
    let mut out = vec![];
    for (i, ((k, coin), ss)) in spent.iter().zip(script_sigs.iter()).enumerate() {
        let spk = coin.script_pubkey().0.0.clone();
        // (0) a separately-signed defect of the zcash_script dependency (0.4.3): the length prefix of
        // OP_PUSHDATA1/2/4 is written as a *script number*, so a push of 128..=255 bytes (e.g. the
        // 139-byte redeem script of a 4-key multisig) becomes `4c <len> 00 <data>`: the scriptSig
        // is corrupt. Reported under its own class; the generic checks below would only repeat it.
        if let TInKind::P2sh { ms, .. } = &r.t_in[*k].kind {
            let rb = &w.multisigs[*ms].redeem_bytes;
            if (128..=255).contains(&rb.len()) && ss.ends_with(rb) && ss.len() >= rb.len() + 3 {
                let pre = &ss[ss.len() - rb.len() - 3..ss.len() - rb.len()];
                if pre == [0x4c, rb.len() as u8, 0x00] {
                    out.push((
                        "scriptsig-corrupt:pushdata1-length-written-as-script-number".into(),
                        format!(
                            "input {i}: the {}-byte redeem script of a {}-of-{} multisig is pushed as `4c {:02x} 00 ..` (length {} encoded as a script number by zcash_script's LargeValue serialiser): the scriptSig is not a valid script",
                            rb.len(),
                            w.multisigs[*ms].m,
                            w.multisigs[*ms].n(),
                            rb.len(),
                            rb.len()
                        ),
                    ));
                    continue;
                }
            }
        }
        // (1) the script interpreter of the zcash_script crate, as a node would run it
        {
            let seq = so.sequences.get(i).copied().unwrap_or(0xFFFF_FFFF);
            let verdict = interpret(ss, &spk, so.lock_time, seq, &|code, ht| sighash(i, ht, code, coin));
            let kind = match &r.t_in[*k].kind {
                TInKind::P2sh { .. } => "p2sh",
                _ => "p2pkh",
            };
            match verdict {
                Ok(true) => match &r.t_in[*k].kind {
                    TInKind::P2sh { ms, signers } => {
                        so.interp_p2sh += 1;
                        if w.multisigs[*ms].unsorted() {
                            so.interp_p2sh_unsorted += 1;
                        }
                        if signers.len() > w.multisigs[*ms].m {
                            so.interp_p2sh_surplus += 1;
                        }
                    }
                    _ => so.interp_p2pkh += 1,
                },
                other => {
                    let extra = match &r.t_in[*k].kind {
                        TInKind::P2sh { ms, signers } => format!(
                            " ({}-of-{} multisig, key order {}, signers (script positions, signing order) {:?})",
                            w.multisigs[*ms].m,
                            w.multisigs[*ms].n(),
                            w.multisigs[*ms].order,
                            signers
                        ),
                        _ => String::new(),
                    };
                    out.push((
                        format!("script-evaluation-fails:{kind}"),
                        format!("input {i} of {}: scriptSig + scriptPubKey of the coin evaluate to {other:?} in the zcash_script interpreter{extra}", spent.len()),
                    ));
                }
            }
        }
        // (2) the harness's own reading of the scriptSig
        let Some(pushes) = parse_pushes(ss) else {
            out.push(("scriptsig-not-push-only".into(), format!("input {i}: scriptSig {}", hex::encode(ss))));
            continue;
        };
        match r.t_in[*k].kind {
            TInKind::P2pkh { .. } | TInKind::WrongKey { .. } => {
                if pushes.len() != 2 {
                    out.push(("scriptsig-shape:p2pkh".into(), format!("input {i}: {} pushes", pushes.len())));
                    continue;
                }
                let (sig, pk) = (&pushes[0], &pushes[1]);
                if spk.len() != 25 || hash160(pk)[..] != spk[3..23] {
                    out.push((
                        "signature-pubkey-does-not-match-coin".into(),
                        format!("input {i}: HASH160(pubkey in scriptSig) is not the key hash of the coin being spent"),
                    ));
                    continue;
                }
                let Some((ht, der)) = sig.split_last() else {
                    out.push(("signature-empty".into(), format!("input {i}")));
                    continue;
                };
                let digest = sighash(i, *ht, coin.script_pubkey(), coin);
                so.digests.push((i, *ht, digest, coin.script_pubkey().0.0.clone()));
                let ok = secp256k1::ecdsa::Signature::from_der(der)
                    .ok()
                    .zip(secp256k1::PublicKey::from_slice(pk).ok())
                    .is_some_and(|(s, p)| {
                        secp.verify_ecdsa(&secp256k1::Message::from_digest(digest), &s, &p).is_ok()
                    });
                if ok {
                    so.p2pkh_verified += 1;
                } else {
                    out.push((
                        "signature-invalid:p2pkh".into(),
                        format!("input {i} of {}: ECDSA signature does not verify under the sighash for this input and the coin's key", spent.len()),
                    ));
                }
            }
            TInKind::P2sh { .. } => {
                // OP_0 sig.. redeem
                if pushes.len() < 3 || !pushes[0].is_empty() {
                    out.push(("scriptsig-shape:p2sh".into(), format!("input {i}: {} pushes", pushes.len())));
                    continue;
                }
                let redeem = pushes.last().unwrap();
                if spk.len() != 23 || hash160(redeem)[..] != spk[2..22] {
                    out.push(("redeem-script-does-not-match-coin".into(), format!("input {i}")));
                    continue;
                }
                // redeem = OP_m <pk>.. OP_n OP_CHECKMULTISIG
                let m_req = (redeem[0] - 0x50) as usize;
                let mut pks = vec![];
                let mut p = 1;
                while p < redeem.len() && redeem[p] == 33 {
                    pks.push(redeem[p + 1..p + 34].to_vec());
                    p += 34;
                }
                let sigs = &pushes[1..pushes.len() - 1];
                let code = Script(zcash_script::script::Code(redeem.clone()));
                let mut ki = 0;
                let mut good = 0;
                for sg in sigs {
                    let Some((ht, der)) = sg.split_last() else { continue };
                    let digest = sighash(i, *ht, &code, coin);
                    so.digests.push((i, *ht, digest, redeem.clone()));
                    let Ok(s) = secp256k1::ecdsa::Signature::from_der(der) else { continue };
                    while ki < pks.len() {
                        let okk = secp256k1::PublicKey::from_slice(&pks[ki])
                            .ok()
                            .is_some_and(|pk| secp.verify_ecdsa(&secp256k1::Message::from_digest(digest), &s, &pk).is_ok());
                        ki += 1;
                        if okk {
                            good += 1;
                            break;
                        }
                    }
                }
                if good >= m_req && sigs.len() == m_req {
                    so.p2sh_verified += 1;
                } else {
                    out.push((
                        "signature-invalid:p2sh".into(),
                        format!("input {i}: {good} of {} signatures verify in key order, {m_req} required", sigs.len()),
                    ));
                }
            }
        }
    }
    out
}

/// Signature check for a fully built transaction.
pub fn check_signatures_tx(
    w: &World,
    r: &Request,
    m: &Materialised,
    tx: &zcash_primitives::transaction::Transaction,
    so: &mut SigObs,
) -> Vec<Finding> {
    let Some(tb) = tx.transparent_bundle() else {
        return vec![];
    };
    if tb.vin.is_empty() {
        return vec![];
    }
    let vin: Vec<([u8; 32], u32)> = tb.vin.iter().map(|i| (*i.prevout().hash(), i.prevout().n())).collect();
    let Some(spent) = coins_in_vin_order(r, m, &vin) else {
        return vec![]; // already reported as transparent-inputs
    };
    let script_sigs: Vec<Vec<u8>> = tb.vin.iter().map(|i| i.script_sig().0.0.clone()).collect();
    so.lock_time = tx.lock_time();
    so.sequences = tb.vin.iter().map(|i| i.sequence()).collect();
    let td = to_sig_auth(tx.clone().into_data(), spent.iter().map(|c| c.1.clone()).collect());
    let digests = td.digest(TxIdDigester);
    let tbs = td.transparent_bundle().expect("present");
    check_signatures_with(
        w,
        r,
        &spent,
        &script_sigs,
        |i, ht, code, coin| {
            let si = zcash_transparent::sighash::SignableInput::from_parts(
                tbs,
                SighashType::from_raw(ht),
                i,
                code,
                coin.script_pubkey(),
                coin.value(),
            )
            .expect("index in range");
            let input = SignableInput::Transparent(si);
            match td.version() {
                TxVersion::V5 | TxVersion::V6 => sighash_generic(&td, &digests, &input),
                _ => v4_signature_hash(&td, &input).as_bytes().try_into().expect("32"),
            }
        },
        so,
    )
}

/// Signature check for a PCZT whose spends were finalised: `effects` from `into_effects()`.
pub fn check_signatures_effects(
    w: &World,
    r: &Request,
    m: &Materialised,
    effects: &TransactionData<pczt::EffectsOnly>,
    script_sigs: &[Vec<u8>],
    so: &mut SigObs,
) -> Vec<Finding> {
    let Some(tb) = effects.transparent_bundle() else {
        return vec![];
    };
    let vin: Vec<([u8; 32], u32)> = tb.vin.iter().map(|i| (*i.prevout().hash(), i.prevout().n())).collect();
    let Some(spent) = coins_in_vin_order(r, m, &vin) else {
        return vec![];
    };
    let digests = effects.digest(TxIdDigester);
    so.lock_time = effects.lock_time();
    so.sequences = tb.vin.iter().map(|i| i.sequence()).collect();
    check_signatures_with(
        w,
        r,
        &spent,
        script_sigs,
        |i, ht, code, coin| {
            let si = zcash_transparent::sighash::SignableInput::from_parts(
                tb,
                SighashType::from_raw(ht),
                i,
                code,
                coin.script_pubkey(),
                coin.value(),
            )
            .expect("index in range");
            sighash_generic(effects, &digests, &SignableInput::Transparent(si))
        },
        so,
    )
}

pub fn fold_counts(m: &mut BTreeMap<String, u64>, k: &str, n: u64) {
    *m.entry(k.to_string()).or_insert(0) += n;
}
