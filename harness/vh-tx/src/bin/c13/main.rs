//! C13 — PCZT encoding, combination and roles preserve the transaction.
//!
//! PCZTs come from the real pipeline: `Builder::build_for_pczt` / `DeferredPcztBuilder` over random
//! balanced requests (transparent / Sapling / Orchard / Ironwood, v5 and v6) → Creator. Then
//!
//!  (a) every PCZT value that any role produces is serialised, parsed back and compared (generic
//!      value tree of all fields + `Debug` rendering + re-serialisation), and the encoding version
//!      chosen by `serialize` is compared with a representability rule derived from the v1 layout;
//!  (b) 2–4 parties start from the IO-finalised PCZT, each doing a different share of the
//!      Updater / Prover / Signer work followed by random Redactor operations; the Combiner is run
//!      over every permutation and every bracketing of their copies (plus the flat fold) and must
//!      give one value, equal to the independent field-wise union; idempotence; copies made to
//!      conflict (Updater with different values at the same place, or two randomised signatures
//!      for one spend) must be refused in every order;
//!  (c) the txid implied by `into_effects()` is recorded before and after every role application
//!      (and compared with `zcash_pool_migration::pczt_txid`); Redactor operations must change
//!      exactly the field they name; where proofs exist (transparent-only, or the really-proved
//!      sample) the extracted transaction must have that txid and the same effect digests.

#[path = "../c14/kit.rs"]
mod kit;
mod tree;

use std::collections::BTreeMap;
use std::sync::OnceLock;

use ciborium::Value as V;
use kit::*;
use pczt::{
    Pczt,
    roles::{
        combiner::Combiner,
        creator::Creator,
        io_finalizer::IoFinalizer,
        prover::Prover,
        redactor::{
            Redactor,
            orchard::{ActionRedactor, OrchardRedactor},
            sapling::{OutputRedactor as SOutRed, SaplingRedactor, SpendRedactor as SSpendRed},
            transparent::{InputRedactor as TInRed, OutputRedactor as TOutRed, TransparentRedactor},
        },
        signer::Signer,
        spend_finalizer::SpendFinalizer,
        tx_extractor::TransactionExtractor,
        updater::Updater,
    },
};
use rand::{Rng, seq::SliceRandom};
use rand_chacha::ChaCha20Rng;
use sapling::prover::mock::{MockOutputProver, MockSpendProver};
use tree::*;
use vh_common::{Args, Reporter, Tier, guard, json, panic_class};
use zcash_primitives::transaction::{
    builder::{DeferredPcztBuilder, PcztResult},
    txid::{TxIdDigester, to_txid},
};
use zcash_proofs::prover::LocalTxProver;
use zcash_protocol::{TxId, consensus::BlockHeight, value::Zatoshis};
use zip32::Scope;

struct Ctx {
    r: Reporter,
    w: World,
    sapling_prover: OnceLock<LocalTxProver>,
    pks: Vec<(String, orchard::circuit::ProvingKey)>,
    vks: Vec<(String, orchard::circuit::VerifyingKey)>,
    /// the current case's txid already moved once (later stages inherit the change; only the
    /// first role that moves it is reported)
    txid_moved: bool,
    /// effect fingerprint of the current case at creation
    fp0: Option<Fp>,
    /// fields a third-party Constructor set in the current case (for diagnostics)
    foreign: String,
}

fn viol(c: &mut Ctx, class: &str, detail: String, replay: serde_json::Value) {
    c.r.violation(&format!("C13:{class}"), detail, replay);
}

// ---------------------------------------------------------------------------------------------
// producing PCZTs
// ---------------------------------------------------------------------------------------------

struct Made {
    p: Pczt,
    req: Request,
    smeta: sapling::builder::SaplingMetadata,
    ometa: orchard::builder::BundleMetadata,
    imeta: orchard::builder::BundleMetadata,
    deferred: bool,
    m: Materialised,
}

fn nondegenerate(r: &Request) -> bool {
    let ins = r.t_in.len() + r.s_spend.len() + r.o_spend.len() + r.i_spend.len();
    let outs = r.t_out.len() + r.s_out.len() + r.o_out.len() + r.i_out.len();
    ins > 0 && outs > 0
}

fn make(c: &mut Ctx, rng: &mut ChaCha20Rng, small: bool, deferred: bool) -> Option<Made> {
    for _ in 0..40 {
        let mut req = gen_request(
            rng,
            GenOpts {
                orchard_family: true,
                hostile: false,
                pczt_heights: true,
                balanced_only: true,
                    big_multisig: false,
                max_io: if small { 2 } else { 3 },
            },
        );
        if matches!(req.version, Some(Ver::V4)) {
            req.version = None; // v4 cannot be carried by a PCZT's effects
        }
        if deferred {
            req.height = H_NU6_3 + rng.gen_range(0..3);
            req.t_in.clear();
            req.t_out.clear();
            req.s_spend.clear();
            req.s_out.clear();
            req.version = None;
            req.sapling_anchor = false;
            for o in req.o_out.iter_mut() {
                o.change = true;
            }
            if req.o_spend.is_empty() && req.i_spend.is_empty() {
                continue;
            }
            req.tunable = if req.o_spend.is_empty() { Tunable::ISpend(0) } else { Tunable::OSpend(0) };
        }
        if small {
            let acts = req.o_spend.len().max(req.o_out.len()) + req.i_spend.len().max(req.i_out.len());
            if acts > 2
                || req.s_spend.len() + req.s_out.len() > 3
                || req.orchard_pad.required
                || req.ironwood_pad.required
                || matches!(req.orchard_pad.min, Some(x) if x > 2)
                || matches!(req.ironwood_pad.min, Some(x) if x > 2)
            {
                continue;
            }
        }
        if !nondegenerate(&req) {
            continue;
        }
        let rule = req.fee.rule();
        let seed: u64 = rng.r#gen();
        let w = &c.w;
        let out = guard(|| -> Option<(PcztResult<zcash_protocol::local_consensus::LocalNetwork>, Request, Materialised)> {
            if deferred {
                type FE = String;
                let mk = |req: &Request| -> Option<DeferredPcztBuilder<zcash_protocol::local_consensus::LocalNetwork>> {
                    let mut b = DeferredPcztBuilder::new::<FE>(net(), BlockHeight::from_u32(req.height), req.orchard_pad.to(), req.ironwood_pad.to()).ok()?;
                    for s in &req.o_spend {
                        b.add_orchard_spend::<FE>(w.accounts[s.acct].o_fvk.clone(), orchard_note(w, s)).ok()?;
                    }
                    for o in &req.o_out {
                        let a = &w.accounts[o.acct];
                        let ovk = o.ovk.map(|(x, s)| w.accounts[x].o_ovk(s));
                        b.add_orchard_change_output::<FE>(a.o_fvk.clone(), ovk, a.o_addr(o.scope, o.div), Zatoshis::from_u64(o.value).ok()?, memo_bytes(&o.memo)).ok()?;
                    }
                    for s in &req.i_spend {
                        b.add_ironwood_spend::<FE>(w.accounts[s.acct].o_fvk.clone(), orchard_note(w, s)).ok()?;
                    }
                    for o in &req.i_out {
                        let a = &w.accounts[o.acct];
                        let ovk = o.ovk.map(|(x, s)| w.accounts[x].o_ovk(s));
                        b.add_ironwood_output::<FE>(ovk, a.o_addr(o.scope, o.div), Zatoshis::from_u64(o.value).ok()?, memo_bytes(&o.memo)).ok()?;
                    }
                    Some(b)
                };
                let fee = u64::from(mk(&req)?.get_fee(&rule).ok()?);
                if !req.balance_to(fee) {
                    return None;
                }
                let mut mrng = vh_common::rng(seed, 3);
                let mut m = materialise(w, &req, &mut mrng);
                m.anchors_deferred = true;
                let res = mk(&req)?.build_for_pczt(vh_common::rng(seed, 4), &rule).ok()?;
                Some((res, req.clone(), m))
            } else {
                let mut mrng = vh_common::rng(seed, 3);
                let m0 = materialise(w, &req, &mut mrng);
                let (b, _) = make_builder(w, &req, &m0).ok()?;
                let fee = u64::from(b.get_fee(&rule).ok()?);
                if !req.balance_to(fee) {
                    return None;
                }
                let mut mrng = vh_common::rng(seed, 3);
                let m = materialise(w, &req, &mut mrng);
                let (b, _) = make_builder(w, &req, &m).ok()?;
                let res = b.build_for_pczt(vh_common::rng(seed, 4), &rule).ok()?;
                Some((res, req.clone(), m))
            }
        });
        let Ok(Some((res, req, m))) = out else { continue };
        let PcztResult {
            pczt_parts,
            sapling_meta,
            orchard_meta,
            ironwood_meta,
        } = res;
        let Some(p) = Creator::build_from_parts(pczt_parts) else { continue };
        return Some(Made {
            p,
            req,
            smeta: sapling_meta,
            ometa: orchard_meta,
            imeta: ironwood_meta,
            deferred,
            m,
        });
    }
    None
}

// ---------------------------------------------------------------------------------------------
// observations on a single PCZT value
// ---------------------------------------------------------------------------------------------

fn txid_of(p: &Pczt) -> Result<TxId, String> {
    let td = p.clone().into_effects().map_err(|e| format!("{e:?}"))?;
    let d = td.digest(TxIdDigester);
    Ok(to_txid(td.version(), td.consensus_branch_id(), &d))
}

/// The effects of a PCZT, component by component, so that a moved txid can be attributed.
struct Fp {
    txid: TxId,
    lock_time: u32,
    expiry: u32,
    parts: Vec<(&'static str, Vec<u8>)>,
}

fn fingerprint(p: &Pczt) -> Result<Fp, String> {
    let td = p.clone().into_effects().map_err(|e| format!("{e:?}"))?;
    let d = td.digest(TxIdDigester);
    let mut parts: Vec<(&'static str, Vec<u8>)> = vec![("header", d.header_digest.as_bytes().to_vec())];
    if let Some(t) = &d.transparent_digests {
        parts.push(("transparent.prevouts", t.prevouts_digest.as_bytes().to_vec()));
        parts.push(("transparent.sequence", t.sequence_digest.as_bytes().to_vec()));
        parts.push(("transparent.outputs", t.outputs_digest.as_bytes().to_vec()));
    } else {
        parts.push(("transparent.prevouts", vec![]));
        parts.push(("transparent.sequence", vec![]));
        parts.push(("transparent.outputs", vec![]));
    }
    parts.push(("sapling", d.sapling_digest.map(|x| x.as_bytes().to_vec()).unwrap_or_default()));
    parts.push(("orchard", d.orchard_digest.map(|x| x.as_bytes().to_vec()).unwrap_or_default()));
    parts.push(("ironwood", d.ironwood_digest.map(|x| x.as_bytes().to_vec()).unwrap_or_default()));
    Ok(Fp {
        txid: to_txid(td.version(), td.consensus_branch_id(), &d),
        lock_time: td.lock_time(),
        expiry: u32::from(td.expiry_height()),
        parts,
    })
}

/// Which effect moved between two fingerprints (first difference, most specific name).
fn moved_component(a: &Fp, b: &Fp) -> &'static str {
    if a.lock_time != b.lock_time {
        return "lock_time";
    }
    if a.expiry != b.expiry {
        return "expiry_height";
    }
    for ((n, x), (_, y)) in a.parts.iter().zip(b.parts.iter()) {
        if x != y {
            return n;
        }
    }
    "unknown"
}

/// First differing position of two Debug renderings: the enclosing `Bundle`-level struct field
/// path (e.g. `ironwood.bsk`) and a short excerpt.
fn debug_diff_field(a: &str, b: &str) -> (String, String) {
    let i = a.bytes().zip(b.bytes()).position(|(x, y)| x != y).unwrap_or(a.len().min(b.len()));
    let head = &a[..i.min(a.len())];
    // last `ident: ` before the difference
    let mut field = String::from("?");
    let bytes = head.as_bytes();
    let mut end = head.len();
    while let Some(p) = head[..end].rfind(": ") {
        let mut st = p;
        while st > 0 && (bytes[st - 1].is_ascii_alphanumeric() || bytes[st - 1] == b'_') {
            st -= 1;
        }
        if st < p && !bytes[st].is_ascii_digit() {
            field = head[st..p].to_string();
            break;
        }
        end = p;
    }
    // which top-level part of the Pczt
    let mut top = "";
    let mut best = 0;
    for t in ["global", "transparent", "sapling", "orchard", "ironwood"] {
        if let Some(p) = head.rfind(&format!(" {t}: ")).or_else(|| head.rfind(&format!("{{ {t}: "))) {
            if p >= best {
                best = p;
                top = t;
            }
        }
    }
    let lo = i.saturating_sub(40);
    let hi = (i + 40).min(a.len());
    let excerpt = a.get(lo..hi).unwrap_or("").to_string();
    (if top.is_empty() || top == field { field } else { format!("{top}.{field}") }, excerpt)
}

fn enc_version(bytes: &[u8]) -> u32 {
    u32::from_le_bytes(bytes[4..8].try_into().unwrap())
}

fn stage_json(stage: &str, made: &Made) -> serde_json::Value {
    json!({"stage": stage, "deferred": made.deferred, "request": made.req.to_json()})
}

/// (a) serialise → parse → equal; minimal encoding version.
fn check_roundtrip(c: &mut Ctx, p: &Pczt, stage: &str, made: &Made) {
    c.r.count("roundtrips", 1);
    let t = match tree(p) {
        Ok(t) => t,
        Err(e) => {
            return viol(c, "roundtrip:v2-encoding-refused", e, stage_json(stage, made));
        }
    };
    let bytes = match guard(|| p.clone().serialize()) {
        Ok(Ok(b)) => b,
        Ok(Err(e)) => return viol(c, "roundtrip:serialize-failed", format!("{e:?} at {stage}"), stage_json(stage, made)),
        Err(pn) => return viol(c, &format!("roundtrip:serialize-panic:{}", panic_class(&pn)), pn, stage_json(stage, made)),
    };
    let (repr, why) = v1_representable(&t);
    let got = enc_version(&bytes);
    c.r.count(if got == 1 { "encoded_as_v1" } else { "encoded_as_v2" }, 1);
    if !repr {
        c.r.count(&format!("v2_forced_by:{why}"), 1);
    }
    match (repr, got) {
        (true, 1) | (false, 2) => {}
        (true, g) => viol(
            c,
            "encoding-version:newer-encoding-although-v1-can-represent",
            format!("serialize chose v{g} at {stage}; nothing in the content needs v2"),
            stage_json(stage, made),
        ),
        (false, g) => viol(
            c,
            &format!("encoding-version:v1-chosen-although-not-representable:{why}"),
            format!("serialize chose v{g} at {stage}"),
            stage_json(stage, made),
        ),
    }
    let mut encodings: Vec<(&str, Vec<u8>)> = vec![("default", bytes.clone())];
    if let Ok(v2) = pczt::v2::Pczt::try_from(p.clone()) {
        encodings.push(("v2", v2.serialize()));
    }
    match pczt::v1::Pczt::try_from(p.clone()) {
        Ok(v1) => {
            if !repr {
                viol(
                    c,
                    &format!("encoding-version:explicit-v1-accepts-unrepresentable:{why}"),
                    format!("v1::Pczt::try_from succeeded at {stage}"),
                    stage_json(stage, made),
                );
            }
            encodings.push(("v1", v1.serialize()));
        }
        Err(_) => {
            if repr {
                viol(c, "encoding-version:explicit-v1-refuses-representable", format!("at {stage}"), stage_json(stage, made));
            }
        }
    }
    let dbg = format!("{p:?}");
    for (name, b) in encodings {
        let q = match guard(|| Pczt::parse(&b)) {
            Ok(Ok(q)) => q,
            Ok(Err(e)) => {
                viol(c, &format!("roundtrip:parse-failed:{name}"), format!("{e:?} at {stage}"), stage_json(stage, made));
                continue;
            }
            Err(pn) => {
                viol(c, &format!("roundtrip:parse-panic:{}", panic_class(&pn)), pn, stage_json(stage, made));
                continue;
            }
        };
        let tq = match tree(&q) {
            Ok(t) => t,
            Err(e) => {
                viol(c, "roundtrip:v2-encoding-refused-after-parse", e, stage_json(stage, made));
                continue;
            }
        };
        // Anchors first, through the public accessors (the value tree elides a bundle that is
        // empty up to an all-zero anchor, which would hide exactly this difference).
        let anchors = |x: &Pczt| [("sapling", *x.sapling().anchor()), ("orchard", *x.orchard().anchor()), ("ironwood", *x.ironwood().anchor())];
        // does the bundle carry anything besides its anchor? (the known loss of an all-zero anchor
        // concerns action-less bundles only)
        let populated = |x: &Pczt, pool: &str| match pool {
            "sapling" => !x.sapling().spends().is_empty() || !x.sapling().outputs().is_empty(),
            "orchard" => !x.orchard().actions().is_empty(),
            _ => !x.ironwood().actions().is_empty(),
        };
        let mut anchor_changed = false;
        for ((pool, a), (_, bq)) in anchors(p).into_iter().zip(anchors(&q)) {
            let b = bq;
            if a == b {
                continue;
            }
            anchor_changed = true;
            let class = match (a, b) {
                (None, Some(z)) if z == [0u8; 32] => format!("roundtrip:absent-anchor-becomes-zero-anchor:{pool}"),
                (Some(z), None) if z == [0u8; 32] && populated(p, pool) => format!("roundtrip:zero-anchor-of-a-populated-bundle-becomes-absent:{pool}"),
                (Some(z), None) if z == [0u8; 32] => format!("roundtrip:zero-anchor-becomes-absent:{pool}"),
                _ => format!("roundtrip:value-changed:{name}:{pool}.anchor"),
            };
            viol(
                c,
                &class,
                format!("{pool} anchor {:?} before, {:?} after parse(serialize(p)) [{name} encoding] at {stage}", a.map(hex::encode), b.map(hex::encode)),
                stage_json(stage, made),
            );
        }
        if anchor_changed {
            let mut d = vec![];
            diff(&t, &tq, "", &mut d, 8);
            if let Some(other) = d.iter().find(|x| !x.contains(".anchor ")) {
                viol(
                    c,
                    &format!("roundtrip:value-changed:{name}:{}", generic_path(other)),
                    format!("parse(serialize(p)) differs from p at {stage}: {d:?}"),
                    stage_json(stage, made),
                );
            }
            continue;
        }
        if !same(&t, &tq) {
            let mut d = vec![];
            diff(&t, &tq, "", &mut d, 4);
            let g = d.first().map(|x| generic_path(x)).unwrap_or_default();
            viol(
                c,
                &format!("roundtrip:value-changed:{name}:{g}"),
                format!("parse(serialize(p)) differs from p at {stage}: {d:?}"),
                stage_json(stage, made),
            );
            continue;
        }
        let dq = format!("{q:?}");
        if dq != dbg {
            // the value tree is produced by the v2 encoder on both sides and cannot see what that
            // encoder drops; the Debug rendering can. Name the first field that differs.
            let (field, ctx) = debug_diff_field(&dbg, &dq);
            viol(
                c,
                &format!("roundtrip:debug-rendering-differs:{name}:{field}"),
                format!("parse(serialize(p)) [{name} encoding] renders differently at {stage}: before `{ctx}`"),
                stage_json(stage, made),
            );
        }
        if name == "default" {
            match q.serialize() {
                Ok(b2) if b2 == b => {}
                _ => viol(c, "roundtrip:reserialisation-differs", format!("at {stage}"), stage_json(stage, made)),
            }
        }
        c.r.count("roundtrip_encodings_checked", 1);
    }
}

/// (c) the identifier implied by the PCZT after a role equals the one before.
fn check_txid(c: &mut Ctx, role: &str, p: &Pczt, txid0: &Result<TxId, String>, made: &Made, redaction: bool) {
    let t = txid_of(p);
    let ext = zcash_pool_migration::pczt_txid::pczt_txid(p);
    match (&t, &ext) {
        (Ok(a), Ok(b)) if a == b => c.r.count("pczt_txid_agrees", 1),
        (Err(_), Err(_)) => {}
        _ => viol(
            c,
            "txid:pool-migration-pczt_txid-disagrees",
            format!("into_effects txid {t:?} vs pczt_txid {ext:?} after {role}"),
            stage_json(role, made),
        ),
    }
    match (txid0, &t) {
        (Ok(a), Ok(b)) => {
            c.r.count("txid_compared_after_role", 1);
            c.r.count(&format!("txid_after:{role}"), 1);
            if a != b && c.txid_moved {
                c.r.count("txid_differs_downstream_of_reported_change", 1);
            } else if a != b {
                c.txid_moved = true;
                let (what, detail) = match (&c.fp0, fingerprint(p)) {
                    (Some(f0), Ok(f1)) => (
                        moved_component(f0, &f1),
                        format!("lock_time {} -> {}, expiry {} -> {}", f0.lock_time, f1.lock_time, f0.expiry, f1.expiry),
                    ),
                    _ => ("unknown", String::new()),
                };
                viol(
                    c,
                    &format!("effects:txid-changed-by:{role}:{what}"),
                    format!("txid before {a}, after {role}: {b}; moved effect: {what} ({detail}); foreign fields: {}", c.foreign),
                    stage_json(role, made),
                );
            }
        }
        (Ok(_), Err(e)) => {
            if redaction {
                c.r.count("effects_unavailable_after_redaction", 1);
            } else {
                viol(
                    c,
                    &format!("effects:unavailable-after:{role}"),
                    format!("effects could be computed before {role} but not after: {e}"),
                    stage_json(role, made),
                );
            }
        }
        _ => {}
    }
}

fn observe(c: &mut Ctx, role: &str, p: &Pczt, txid0: &Result<TxId, String>, made: &Made) {
    check_txid(c, role, p, txid0, made, false);
    check_roundtrip(c, p, role, made);
}

// ---------------------------------------------------------------------------------------------
// Redactor operations, each with the one tree location it may touch
// ---------------------------------------------------------------------------------------------

#[derive(Clone, Copy, PartialEq, Eq, Debug)]
enum Pool {
    Global,
    Transparent,
    Sapling,
    Orchard,
    Ironwood,
}

#[derive(Clone, Copy)]
struct RedOp {
    name: &'static str,
    pool: Pool,
    /// "" for a bundle-level field
    list: &'static str,
    field: &'static [&'static str],
    /// cleared value is an empty map (proprietary and friends) instead of null
    map: bool,
    apply: fn(Redactor, Option<usize>) -> Redactor,
}

fn oa(r: Redactor, iron: bool, i: Option<usize>, f: fn(&mut ActionRedactor<'_>)) -> Redactor {
    let g = move |mut o: OrchardRedactor<'_>| match i {
        None => o.redact_actions(|mut a| f(&mut a)),
        Some(i) => o.redact_action(i, |mut a| f(&mut a)),
    };
    if iron { r.redact_ironwood_with(g) } else { r.redact_orchard_with(g) }
}
fn ob(r: Redactor, iron: bool, f: fn(&mut OrchardRedactor<'_>)) -> Redactor {
    let g = move |mut o: OrchardRedactor<'_>| f(&mut o);
    if iron { r.redact_ironwood_with(g) } else { r.redact_orchard_with(g) }
}
fn ss(r: Redactor, i: Option<usize>, f: fn(&mut SSpendRed<'_>)) -> Redactor {
    r.redact_sapling_with(move |mut s: SaplingRedactor<'_>| match i {
        None => s.redact_spends(|mut a| f(&mut a)),
        Some(i) => s.redact_spend(i, |mut a| f(&mut a)),
    })
}
fn so(r: Redactor, i: Option<usize>, f: fn(&mut SOutRed<'_>)) -> Redactor {
    r.redact_sapling_with(move |mut s: SaplingRedactor<'_>| match i {
        None => s.redact_outputs(|mut a| f(&mut a)),
        Some(i) => s.redact_output(i, |mut a| f(&mut a)),
    })
}
fn ti(r: Redactor, i: Option<usize>, f: fn(&mut TInRed<'_>)) -> Redactor {
    r.redact_transparent_with(move |mut s: TransparentRedactor<'_>| match i {
        None => s.redact_inputs(|mut a| f(&mut a)),
        Some(i) => s.redact_input(i, |mut a| f(&mut a)),
    })
}
fn to(r: Redactor, i: Option<usize>, f: fn(&mut TOutRed<'_>)) -> Redactor {
    r.redact_transparent_with(move |mut s: TransparentRedactor<'_>| match i {
        None => s.redact_outputs(|mut a| f(&mut a)),
        Some(i) => s.redact_output(i, |mut a| f(&mut a)),
    })
}

macro_rules! orch_ops {
    ($v:ident, $pool:expr, $iron:expr) => {
        $v.push(RedOp { name: "clear_zkproof", pool: $pool, list: "", field: &["zkproof"], map: false, apply: |r, _| ob(r, $iron, |o| o.clear_zkproof()) });
        $v.push(RedOp { name: "clear_bsk", pool: $pool, list: "", field: &["bsk"], map: false, apply: |r, _| ob(r, $iron, |o| o.clear_bsk()) });
        $v.push(RedOp { name: "clear_anchor", pool: $pool, list: "", field: &["anchor"], map: false, apply: |r, _| ob(r, $iron, |o| o.clear_anchor()) });
        $v.push(RedOp { name: "clear_cv_net", pool: $pool, list: "actions", field: &["cv_net"], map: false, apply: |r, i| oa(r, $iron, i, |a| a.clear_cv_net()) });
        $v.push(RedOp { name: "clear_cmx", pool: $pool, list: "actions", field: &["output", "cmx"], map: false, apply: |r, i| oa(r, $iron, i, |a| a.clear_cmx()) });
        $v.push(RedOp { name: "clear_spend_auth_sig", pool: $pool, list: "actions", field: &["spend", "spend_auth_sig"], map: false, apply: |r, i| oa(r, $iron, i, |a| a.clear_spend_auth_sig()) });
        $v.push(RedOp { name: "clear_spend_recipient", pool: $pool, list: "actions", field: &["spend", "recipient"], map: false, apply: |r, i| oa(r, $iron, i, |a| a.clear_spend_recipient()) });
        $v.push(RedOp { name: "clear_spend_value", pool: $pool, list: "actions", field: &["spend", "value"], map: false, apply: |r, i| oa(r, $iron, i, |a| a.clear_spend_value()) });
        $v.push(RedOp { name: "clear_spend_rho", pool: $pool, list: "actions", field: &["spend", "rho"], map: false, apply: |r, i| oa(r, $iron, i, |a| a.clear_spend_rho()) });
        $v.push(RedOp { name: "clear_spend_rseed", pool: $pool, list: "actions", field: &["spend", "rseed"], map: false, apply: |r, i| oa(r, $iron, i, |a| a.clear_spend_rseed()) });
        $v.push(RedOp { name: "clear_spend_fvk", pool: $pool, list: "actions", field: &["spend", "fvk"], map: false, apply: |r, i| oa(r, $iron, i, |a| a.clear_spend_fvk()) });
        $v.push(RedOp { name: "clear_spend_witness", pool: $pool, list: "actions", field: &["spend", "witness"], map: false, apply: |r, i| oa(r, $iron, i, |a| a.clear_spend_witness()) });
        $v.push(RedOp { name: "clear_spend_alpha", pool: $pool, list: "actions", field: &["spend", "alpha"], map: false, apply: |r, i| oa(r, $iron, i, |a| a.clear_spend_alpha()) });
        $v.push(RedOp { name: "clear_spend_zip32_derivation", pool: $pool, list: "actions", field: &["spend", "zip32_derivation"], map: false, apply: |r, i| oa(r, $iron, i, |a| a.clear_spend_zip32_derivation()) });
        $v.push(RedOp { name: "clear_spend_dummy_sk", pool: $pool, list: "actions", field: &["spend", "dummy_sk"], map: false, apply: |r, i| oa(r, $iron, i, |a| a.clear_spend_dummy_sk()) });
        $v.push(RedOp { name: "clear_spend_proprietary", pool: $pool, list: "actions", field: &["spend", "proprietary"], map: true, apply: |r, i| oa(r, $iron, i, |a| a.clear_spend_proprietary()) });
        $v.push(RedOp { name: "clear_output_recipient", pool: $pool, list: "actions", field: &["output", "recipient"], map: false, apply: |r, i| oa(r, $iron, i, |a| a.clear_output_recipient()) });
        $v.push(RedOp { name: "clear_output_value", pool: $pool, list: "actions", field: &["output", "value"], map: false, apply: |r, i| oa(r, $iron, i, |a| a.clear_output_value()) });
        $v.push(RedOp { name: "clear_output_rseed", pool: $pool, list: "actions", field: &["output", "rseed"], map: false, apply: |r, i| oa(r, $iron, i, |a| a.clear_output_rseed()) });
        $v.push(RedOp { name: "clear_output_ock", pool: $pool, list: "actions", field: &["output", "ock"], map: false, apply: |r, i| oa(r, $iron, i, |a| a.clear_output_ock()) });
        $v.push(RedOp { name: "clear_output_zip32_derivation", pool: $pool, list: "actions", field: &["output", "zip32_derivation"], map: false, apply: |r, i| oa(r, $iron, i, |a| a.clear_output_zip32_derivation()) });
        $v.push(RedOp { name: "clear_output_user_address", pool: $pool, list: "actions", field: &["output", "user_address"], map: false, apply: |r, i| oa(r, $iron, i, |a| a.clear_output_user_address()) });
        $v.push(RedOp { name: "clear_output_proprietary", pool: $pool, list: "actions", field: &["output", "proprietary"], map: true, apply: |r, i| oa(r, $iron, i, |a| a.clear_output_proprietary()) });
        $v.push(RedOp { name: "clear_rcv", pool: $pool, list: "actions", field: &["rcv"], map: false, apply: |r, i| oa(r, $iron, i, |a| a.clear_rcv()) });
    };
}

fn red_ops() -> Vec<RedOp> {
    let mut v: Vec<RedOp> = vec![];
    v.push(RedOp { name: "global.clear_proprietary", pool: Pool::Global, list: "", field: &["proprietary"], map: true, apply: |r, _| r.redact_global_with(|mut g| g.clear_proprietary()) });
    // transparent
    v.push(RedOp { name: "clear_script_sig", pool: Pool::Transparent, list: "inputs", field: &["script_sig"], map: false, apply: |r, i| ti(r, i, |a| a.clear_script_sig()) });
    v.push(RedOp { name: "clear_redeem_script", pool: Pool::Transparent, list: "inputs", field: &["redeem_script"], map: false, apply: |r, i| ti(r, i, |a| a.clear_redeem_script()) });
    v.push(RedOp { name: "clear_partial_signatures", pool: Pool::Transparent, list: "inputs", field: &["partial_signatures"], map: true, apply: |r, i| ti(r, i, |a| a.clear_partial_signatures()) });
    v.push(RedOp { name: "clear_bip32_derivation", pool: Pool::Transparent, list: "inputs", field: &["bip32_derivation"], map: true, apply: |r, i| ti(r, i, |a| a.clear_bip32_derivation()) });
    v.push(RedOp { name: "clear_hash160_preimages", pool: Pool::Transparent, list: "inputs", field: &["hash160_preimages"], map: true, apply: |r, i| ti(r, i, |a| a.clear_hash160_preimages()) });
    v.push(RedOp { name: "clear_sha256_preimages", pool: Pool::Transparent, list: "inputs", field: &["sha256_preimages"], map: true, apply: |r, i| ti(r, i, |a| a.clear_sha256_preimages()) });
    v.push(RedOp { name: "input.clear_proprietary", pool: Pool::Transparent, list: "inputs", field: &["proprietary"], map: true, apply: |r, i| ti(r, i, |a| a.clear_proprietary()) });
    v.push(RedOp { name: "output.clear_redeem_script", pool: Pool::Transparent, list: "outputs", field: &["redeem_script"], map: false, apply: |r, i| to(r, i, |a| a.clear_redeem_script()) });
    v.push(RedOp { name: "output.clear_bip32_derivation", pool: Pool::Transparent, list: "outputs", field: &["bip32_derivation"], map: true, apply: |r, i| to(r, i, |a| a.clear_bip32_derivation()) });
    v.push(RedOp { name: "output.clear_user_address", pool: Pool::Transparent, list: "outputs", field: &["user_address"], map: false, apply: |r, i| to(r, i, |a| a.clear_user_address()) });
    v.push(RedOp { name: "output.clear_proprietary", pool: Pool::Transparent, list: "outputs", field: &["proprietary"], map: true, apply: |r, i| to(r, i, |a| a.clear_proprietary()) });
    // sapling
    v.push(RedOp { name: "clear_bsk", pool: Pool::Sapling, list: "", field: &["bsk"], map: false, apply: |r, _| r.redact_sapling_with(|mut s| s.clear_bsk()) });
    v.push(RedOp { name: "clear_anchor", pool: Pool::Sapling, list: "", field: &["anchor"], map: false, apply: |r, _| r.redact_sapling_with(|mut s| s.clear_anchor()) });
    v.push(RedOp { name: "spend.clear_zkproof", pool: Pool::Sapling, list: "spends", field: &["zkproof"], map: false, apply: |r, i| ss(r, i, |a| a.clear_zkproof()) });
    v.push(RedOp { name: "spend.clear_spend_auth_sig", pool: Pool::Sapling, list: "spends", field: &["spend_auth_sig"], map: false, apply: |r, i| ss(r, i, |a| a.clear_spend_auth_sig()) });
    v.push(RedOp { name: "spend.clear_recipient", pool: Pool::Sapling, list: "spends", field: &["recipient"], map: false, apply: |r, i| ss(r, i, |a| a.clear_recipient()) });
    v.push(RedOp { name: "spend.clear_value", pool: Pool::Sapling, list: "spends", field: &["value"], map: false, apply: |r, i| ss(r, i, |a| a.clear_value()) });
    v.push(RedOp { name: "spend.clear_rcm", pool: Pool::Sapling, list: "spends", field: &["rcm"], map: false, apply: |r, i| ss(r, i, |a| a.clear_rcm()) });
    v.push(RedOp { name: "spend.clear_rseed", pool: Pool::Sapling, list: "spends", field: &["rseed"], map: false, apply: |r, i| ss(r, i, |a| a.clear_rseed()) });
    v.push(RedOp { name: "spend.clear_rcv", pool: Pool::Sapling, list: "spends", field: &["rcv"], map: false, apply: |r, i| ss(r, i, |a| a.clear_rcv()) });
    v.push(RedOp { name: "spend.clear_proof_generation_key", pool: Pool::Sapling, list: "spends", field: &["proof_generation_key"], map: false, apply: |r, i| ss(r, i, |a| a.clear_proof_generation_key()) });
    v.push(RedOp { name: "spend.clear_witness", pool: Pool::Sapling, list: "spends", field: &["witness"], map: false, apply: |r, i| ss(r, i, |a| a.clear_witness()) });
    v.push(RedOp { name: "spend.clear_alpha", pool: Pool::Sapling, list: "spends", field: &["alpha"], map: false, apply: |r, i| ss(r, i, |a| a.clear_alpha()) });
    v.push(RedOp { name: "spend.clear_zip32_derivation", pool: Pool::Sapling, list: "spends", field: &["zip32_derivation"], map: false, apply: |r, i| ss(r, i, |a| a.clear_zip32_derivation()) });
    v.push(RedOp { name: "spend.clear_dummy_ask", pool: Pool::Sapling, list: "spends", field: &["dummy_ask"], map: false, apply: |r, i| ss(r, i, |a| a.clear_dummy_ask()) });
    v.push(RedOp { name: "spend.clear_proprietary", pool: Pool::Sapling, list: "spends", field: &["proprietary"], map: true, apply: |r, i| ss(r, i, |a| a.clear_proprietary()) });
    v.push(RedOp { name: "output.clear_zkproof", pool: Pool::Sapling, list: "outputs", field: &["zkproof"], map: false, apply: |r, i| so(r, i, |a| a.clear_zkproof()) });
    v.push(RedOp { name: "output.clear_recipient", pool: Pool::Sapling, list: "outputs", field: &["recipient"], map: false, apply: |r, i| so(r, i, |a| a.clear_recipient()) });
    v.push(RedOp { name: "output.clear_value", pool: Pool::Sapling, list: "outputs", field: &["value"], map: false, apply: |r, i| so(r, i, |a| a.clear_value()) });
    v.push(RedOp { name: "output.clear_rseed", pool: Pool::Sapling, list: "outputs", field: &["rseed"], map: false, apply: |r, i| so(r, i, |a| a.clear_rseed()) });
    v.push(RedOp { name: "output.clear_rcv", pool: Pool::Sapling, list: "outputs", field: &["rcv"], map: false, apply: |r, i| so(r, i, |a| a.clear_rcv()) });
    v.push(RedOp { name: "output.clear_ock", pool: Pool::Sapling, list: "outputs", field: &["ock"], map: false, apply: |r, i| so(r, i, |a| a.clear_ock()) });
    v.push(RedOp { name: "output.clear_zip32_derivation", pool: Pool::Sapling, list: "outputs", field: &["zip32_derivation"], map: false, apply: |r, i| so(r, i, |a| a.clear_zip32_derivation()) });
    v.push(RedOp { name: "output.clear_user_address", pool: Pool::Sapling, list: "outputs", field: &["user_address"], map: false, apply: |r, i| so(r, i, |a| a.clear_user_address()) });
    v.push(RedOp { name: "output.clear_proprietary", pool: Pool::Sapling, list: "outputs", field: &["proprietary"], map: true, apply: |r, i| so(r, i, |a| a.clear_proprietary()) });
    orch_ops!(v, Pool::Orchard, false);
    orch_ops!(v, Pool::Ironwood, true);
    v
}

fn pool_key(p: Pool) -> &'static str {
    match p {
        Pool::Global => "global",
        Pool::Transparent => "transparent",
        Pool::Sapling => "sapling",
        Pool::Orchard => "orchard",
        Pool::Ironwood => "ironwood",
    }
}

/// Number of items a redaction op could address in this tree (0: not applicable).
fn op_items(t: &V, op: &RedOp) -> usize {
    let Some(b) = get(t, pool_key(op.pool)) else { return 0 };
    if matches!(b, V::Null) {
        return 0;
    }
    if op.list.is_empty() {
        // bundle-level: only on bundles that hold something (an emptied bundle is elided)
        return match op.pool {
            Pool::Global => 1,
            Pool::Sapling => (get(b, "spends").map(arr_len).unwrap_or(0) + get(b, "outputs").map(arr_len).unwrap_or(0)).min(1),
            _ => get(b, "actions").map(arr_len).unwrap_or(0).min(1),
        };
    }
    get(b, op.list).map(arr_len).unwrap_or(0)
}

fn set_cleared(item: &mut V, field: &[&str], map: bool) -> bool {
    let mut cur = item;
    for (k, f) in field.iter().enumerate() {
        let Some(next) = get_mut(cur, f) else { return false };
        if k + 1 == field.len() {
            *next = if map { V::Map(vec![]) } else { V::Null };
            return true;
        }
        cur = next;
    }
    false
}

/// Applies `op` to `p`; checks that exactly the named field was cleared. Returns the redacted copy.
fn redact_checked(c: &mut Ctx, p: &Pczt, op: &RedOp, idx: Option<usize>, made: &Made) -> Pczt {
    let before = tree(p).expect("tree");
    let after_p = (op.apply)(Redactor::new(p.clone()), idx).finish();
    let Ok(after) = tree(&after_p) else { return after_p };
    let mut want = before.clone();
    {
        let b = get_mut(&mut want, pool_key(op.pool)).expect("pool");
        if op.list.is_empty() {
            set_cleared(b, op.field, op.map);
        } else if let Some(V::Array(items)) = get_mut(b, op.list) {
            for (i, it) in items.iter_mut().enumerate() {
                if idx.is_none() || idx == Some(i) {
                    set_cleared(it, op.field, op.map);
                }
            }
        }
    }
    c.r.count("redactions_checked", 1);
    if !same(&want, &after) {
        let mut d = vec![];
        diff(&want, &after, "", &mut d, 4);
        let g = d.first().map(|x| generic_path(x)).unwrap_or_default();
        viol(
            c,
            &format!("redactor:{}.{}:touches-other-field:{g}", pool_key(op.pool), op.name),
            format!("after {} on {:?}[{idx:?}] the PCZT differs from 'only that field cleared' at {d:?}", op.name, op.pool),
            stage_json(op.name, made),
        );
    } else if !same(&before, &after) {
        c.r.count("redactions_effective", 1);
    }
    after_p
}

// ---------------------------------------------------------------------------------------------
// role work
// ---------------------------------------------------------------------------------------------

#[derive(Clone, Debug, PartialEq)]
enum Duty {
    T(usize),
    S(usize, usize, Scope),
    O(usize, usize),
    I(usize, usize),
}

fn duties(made: &Made) -> Vec<Duty> {
    let r = &made.req;
    let mut d = vec![];
    for i in 0..r.t_in.len() {
        d.push(Duty::T(i));
    }
    for (k, s) in r.s_spend.iter().enumerate() {
        if let Some(i) = made.smeta.spend_index(k) {
            d.push(Duty::S(i, s.acct, s.scope));
        }
    }
    for (k, s) in r.o_spend.iter().enumerate() {
        if let Some(i) = made.ometa.spend_action_index(k) {
            d.push(Duty::O(i, s.acct));
        }
    }
    if r.epoch() >= Epoch::Nu6_3 {
        // cross-address-disabled Orchard: each change output rides on a wallet-controlled
        // zero-valued spend that needs the wallet's signature
        let n_plain = r.o_out.iter().filter(|o| !o.change).count();
        let mut kc = 0;
        for o in r.o_out.iter() {
            if o.change {
                if let Some(i) = made.ometa.output_action_index(n_plain + kc) {
                    d.push(Duty::O(i, o.acct));
                }
                kc += 1;
            }
        }
    }
    for (k, s) in r.i_spend.iter().enumerate() {
        if let Some(i) = made.imeta.spend_action_index(k) {
            d.push(Duty::I(i, s.acct));
        }
    }
    d
}

fn fp(tag: u8) -> [u8; 32] {
    [tag; 32]
}

/// Updater batch. `party` selects unique proprietary keys; derivations / addresses are a function
/// of the location only, so that different parties agree unless `conflict` asks otherwise.
fn update(c: &mut Ctx, p: Pczt, rng: &mut ChaCha20Rng, party: u8, made: &Made, essentials: bool) -> Pczt {
    let t = tree(&p).expect("tree");
    let cnt = |pool: &str, list: &str| get(&t, pool).filter(|b| !matches!(b, V::Null)).and_then(|b| get(b, list)).map(arr_len).unwrap_or(0);
    let (nti, nto, nss, nso, noa, nia) = (
        cnt("transparent", "inputs"),
        cnt("transparent", "outputs"),
        cnt("sapling", "spends"),
        cnt("sapling", "outputs"),
        cnt("orchard", "actions"),
        cnt("ironwood", "actions"),
    );
    let hard = |n: u32| 0x8000_0000u32 | n;
    let mut p = p;
    let pick = |rng: &mut ChaCha20Rng| rng.gen_bool(0.5);
    // global
    if pick(rng) {
        let key = format!("party{party}");
        let val = vec![party; 1 + party as usize];
        p = Updater::new(p)
            .update_global_with(|mut g| {
                g.set_proprietary(key, val);
                g.set_proprietary("shared".into(), b"same".to_vec());
            })
            .finish();
        c.r.count("updates:global", 1);
    }
    if nti + nto > 0 && pick(rng) {
        let sel_i: Vec<bool> = (0..nti).map(|_| pick(rng)).collect();
        let sel_o: Vec<bool> = (0..nto).map(|_| pick(rng)).collect();
        let pks: Vec<Option<[u8; 33]>> = made
            .req
            .t_in
            .iter()
            .map(|t| match t.kind {
                TInKind::P2pkh { acct, key } | TInKind::WrongKey { acct, key } => Some(c.w.accounts[acct].tkeys[key].pk.serialize()),
                TInKind::P2sh { .. } => None,
            })
            .collect();
        match Updater::new(p.clone()).update_transparent_with(|mut u| {
            for i in 0..nti {
                if sel_i[i] {
                    u.update_input_with(i, |mut iu| {
                        if let Some(Some(pk)) = pks.get(i) {
                            iu.set_bip32_derivation(
                                *pk,
                                zcash_transparent::pczt::Bip32Derivation::parse(fp(1), vec![hard(44), hard(133), hard(0), 0, i as u32]).expect("bip32"),
                            );
                        }
                        iu.set_proprietary(format!("in{party}"), vec![party, i as u8]);
                        iu.set_proprietary("shared".into(), vec![i as u8]);
                        iu.set_hash160_preimage(vec![i as u8; 5]);
                        Ok(())
                    })?;
                }
            }
            for i in 0..nto {
                if sel_o[i] {
                    u.update_output_with(i, |mut ou| {
                        ou.set_user_address(format!("t1useraddress{i}"));
                        ou.set_proprietary(format!("out{party}"), vec![party]);
                        Ok(())
                    })?;
                }
            }
            Ok(())
        }) {
            Ok(u) => {
                p = u.finish();
                c.r.count("updates:transparent", 1);
            }
            Err(e) => c.r.count(&format!("updater_err:transparent:{}", format!("{e:?}").chars().take(30).collect::<String>()), 1),
        }
    }
    if nss + nso > 0 && (essentials || pick(rng)) {
        let sel_s: Vec<bool> = (0..nss).map(|_| pick(rng)).collect();
        let sel_o: Vec<bool> = (0..nso).map(|_| pick(rng)).collect();
        // proof generation keys for the requested spends (needed by Prover and Signer)
        let mut pgk: BTreeMap<usize, sapling::ProofGenerationKey> = BTreeMap::new();
        for (k, s) in made.req.s_spend.iter().enumerate() {
            if let Some(i) = made.smeta.spend_index(k) {
                pgk.insert(i, c.w.accounts[s.acct].s_extsk_for(s.scope).expsk.proof_generation_key());
            }
        }
        match Updater::new(p.clone()).update_sapling_with(|mut u| {
            for i in 0..nss {
                if essentials {
                    if let Some(k) = pgk.get(&i) {
                        u.update_spend_with(i, |mut su| su.set_proof_generation_key(k.clone()))?;
                    }
                }
                if sel_s[i] {
                    u.update_spend_with(i, |mut su| {
                        su.set_zip32_derivation(sapling::pczt::Zip32Derivation::parse(fp(2), vec![hard(32), hard(133), hard(i as u32)]).expect("zip32"));
                        su.set_proprietary(format!("ss{party}"), vec![party; 3]);
                        Ok(())
                    })?;
                }
            }
            for i in 0..nso {
                if sel_o[i] {
                    u.update_output_with(i, |mut ou| {
                        ou.set_zip32_derivation(sapling::pczt::Zip32Derivation::parse(fp(3), vec![hard(32), hard(133), hard(7)]).expect("zip32"));
                        ou.set_user_address(format!("zs1useraddress{i}"));
                        ou.set_proprietary(format!("so{party}"), vec![party]);
                        Ok(())
                    })?;
                }
            }
            Ok(())
        }) {
            Ok(u) => {
                p = u.finish();
                c.r.count("updates:sapling", 1);
            }
            Err(e) => c.r.count(&format!("updater_err:sapling:{}", format!("{e:?}").chars().take(30).collect::<String>()), 1),
        }
    }
    for (iron, n) in [(false, noa), (true, nia)] {
        if n == 0 || !pick(rng) {
            continue;
        }
        let sel: Vec<(bool, bool)> = (0..n).map(|_| (pick(rng), pick(rng))).collect();
        let f = |mut u: orchard::pczt::Updater<'_>| -> Result<(), orchard::pczt::UpdaterError> {
            for i in 0..n {
                let (a, b) = sel[i];
                u.update_action_with(i, |mut au| {
                    if a {
                        au.set_spend_zip32_derivation(orchard::pczt::Zip32Derivation::parse(fp(4), vec![hard(32), hard(133), hard(i as u32)]).expect("zip32"));
                        au.set_spend_proprietary(format!("os{party}"), vec![party; 2]);
                    }
                    if b {
                        au.set_output_zip32_derivation(orchard::pczt::Zip32Derivation::parse(fp(5), vec![hard(32), hard(133), hard(9)]).expect("zip32"));
                        au.set_output_user_address(format!("u1useraddress{i}"));
                        au.set_output_proprietary(format!("oo{party}"), vec![party]);
                    }
                    Ok(())
                })?;
            }
            Ok(())
        };
        let res = if iron { Updater::new(p.clone()).update_ironwood_with(f) } else { Updater::new(p.clone()).update_orchard_with(f) };
        match res {
            Ok(u) => {
                p = u.finish();
                c.r.count(if iron { "updates:ironwood" } else { "updates:orchard" }, 1);
            }
            Err(e) => c.r.count(&format!("updater_err:orchard:{}", format!("{e:?}").chars().take(40).collect::<String>()), 1),
        }
    }
    p
}

fn sign(c: &mut Ctx, p: Pczt, ds: &[Duty], made: &Made) -> Result<Pczt, String> {
    let mut s = Signer::new(p).map_err(|e| format!("{e:?}"))?;
    for d in ds {
        let res = match d {
            Duty::T(i) => match made.req.t_in[*i].kind {
                TInKind::P2pkh { acct, key } | TInKind::WrongKey { acct, key } => s.sign_transparent(*i, &c.w.accounts[acct].tkeys[key].sk),
                TInKind::P2sh { ms, ref signers } => {
                    let mut r = Ok(());
                    for k in signers {
                        r = r.and(s.sign_transparent(*i, &c.w.multisigs[ms].sks[*k]));
                    }
                    r
                }
            },
            Duty::S(i, acct, scope) => s.sign_sapling(*i, &c.w.accounts[*acct].s_extsk_for(*scope).expsk.ask),
            Duty::O(i, acct) => s.sign_orchard(*i, &c.w.accounts[*acct].o_ask()),
            Duty::I(i, acct) => s.sign_ironwood(*i, &c.w.accounts[*acct].o_ask()),
        };
        match res {
            Ok(()) => c.r.count(
                match d {
                    Duty::T(_) => "signed:transparent",
                    Duty::S(..) => "signed:sapling",
                    Duty::O(..) => "signed:orchard",
                    Duty::I(..) => "signed:ironwood",
                },
                1,
            ),
            Err(e) => c.r.count(&format!("sign_err:{}", format!("{e:?}").chars().take(40).collect::<String>()), 1),
        }
    }
    Ok(s.finish())
}

fn circuit_for(e: Epoch) -> orchard::circuit::OrchardCircuitVersion {
    use orchard::circuit::OrchardCircuitVersion::*;
    if e >= Epoch::Nu6_3 {
        PostNu6_3
    } else if e >= Epoch::Nu6_2 {
        FixedPostNu6_2
    } else {
        InsecurePreNu6_2
    }
}

fn pk_for(c: &mut Ctx, e: Epoch) -> usize {
    let cv = circuit_for(e);
    let key = format!("{cv:?}");
    if let Some(i) = c.pks.iter().position(|(k, _)| *k == key) {
        return i;
    }
    c.pks.push((key.clone(), orchard::circuit::ProvingKey::build(cv)));
    c.vks.push((key, orchard::circuit::VerifyingKey::build(cv)));
    c.pks.len() - 1
}

#[derive(Clone, Copy, PartialEq, Eq, Debug)]
enum Proof {
    SaplingMock,
    SaplingReal,
    Orchard,
    Ironwood,
}

fn prove(c: &mut Ctx, p: Pczt, what: Proof, made: &Made) -> Result<Pczt, String> {
    match what {
        Proof::SaplingMock => Prover::new(p)
            .create_sapling_proofs(&MockSpendProver, &MockOutputProver)
            .map(|x| x.finish())
            .map_err(|e| format!("{e:?}")),
        Proof::SaplingReal => {
            let pr = c.sapling_prover.get_or_init(LocalTxProver::bundled);
            Prover::new(p).create_sapling_proofs(pr, pr).map(|x| x.finish()).map_err(|e| format!("{e:?}"))
        }
        Proof::Orchard => {
            let i = pk_for(c, made.req.epoch());
            Prover::new(p).create_orchard_proof(&c.pks[i].1).map(|x| x.finish()).map_err(|e| format!("{e:?}"))
        }
        Proof::Ironwood => {
            let i = pk_for(c, made.req.epoch());
            Prover::new(p).create_ironwood_proof(&c.pks[i].1).map(|x| x.finish()).map_err(|e| format!("{e:?}"))
        }
    }
}

// ---------------------------------------------------------------------------------------------
// Combiner algebra
// ---------------------------------------------------------------------------------------------

fn permutations(n: usize) -> Vec<Vec<usize>> {
    fn rec(cur: &mut Vec<usize>, used: &mut Vec<bool>, n: usize, out: &mut Vec<Vec<usize>>) {
        if cur.len() == n {
            out.push(cur.clone());
            return;
        }
        for i in 0..n {
            if !used[i] {
                used[i] = true;
                cur.push(i);
                rec(cur, used, n, out);
                cur.pop();
                used[i] = false;
            }
        }
    }
    let mut out = vec![];
    rec(&mut vec![], &mut vec![false; n], n, &mut out);
    out
}

/// All binary bracketings of `seq`, each evaluated with pairwise `Combiner::combine`.
/// Returns (description, result) for every bracketing.
fn bracketings(copies: &[Pczt], seq: &[usize]) -> Vec<(String, Result<Pczt, ()>)> {
    if seq.len() == 1 {
        return vec![(format!("{}", seq[0]), Ok(copies[seq[0]].clone()))];
    }
    let mut out = vec![];
    for split in 1..seq.len() {
        let ls = bracketings(copies, &seq[..split]);
        let rs = bracketings(copies, &seq[split..]);
        for (ld, l) in &ls {
            for (rd, r) in &rs {
                let res = match (l, r) {
                    (Ok(a), Ok(b)) => Combiner::new(vec![a.clone(), b.clone()]).combine().map_err(|_| ()),
                    _ => Err(()),
                };
                out.push((format!("({ld} {rd})"), res));
            }
        }
    }
    out
}

fn combine_all(c: &mut Ctx, copies: &[Pczt], label: &str, made: &Made) -> Option<Pczt> {
    combine_all_ex(c, copies, label, made, false)
}

/// Every permutation × every bracketing + the flat fold.
///
/// Expected verdict: the copies conflict if the field-wise union finds two different values in one
/// place, **or** if two copies imply different transaction identifiers (a field whose absence has a
/// defined meaning is absent in one copy and set to something else in another: the union alone
/// would call that compatible). A successful combination must equal the union and imply the txid
/// of every input. `lenient_refusal`: the copies describe the same transaction but spell one field
/// differently (absent vs explicit default); refusing them is tolerated.
fn combine_all_ex(c: &mut Ctx, copies: &[Pczt], label: &str, made: &Made, lenient_refusal: bool) -> Option<Pczt> {
    let n = copies.len();
    let trees: Vec<V> = copies.iter().map(|p| tree(p).expect("tree")).collect();
    // oracle
    let mut oracle: Result<V, String> = Ok(trees[0].clone());
    for t in &trees[1..] {
        oracle = oracle.and_then(|acc| union(&acc, t, ""));
    }
    let txids: Vec<Option<TxId>> = copies.iter().map(|p| txid_of(p).ok()).collect();
    let known: Vec<TxId> = txids.iter().flatten().copied().collect();
    let txids_differ = known.windows(2).any(|w| w[0] != w[1]);
    if oracle.is_ok() && txids_differ {
        c.r.count("combine_conflicts_by_implied_txid_only", 1);
        oracle = Err(format!("implied-txid-differs:{label}"));
    }
    let txid_conflict = txids_differ;
    let mut first_ok: Option<Pczt> = None;
    let mut combos = 0u64;
    let mut seen: std::collections::BTreeSet<String> = Default::default();
    let mut report = |c: &mut Ctx, class: String, detail: String| {
        viol(c, &class, detail, json!({"experiment": label, "copies": n, "request": made.req.to_json()}));
    };
    for perm in permutations(n) {
        let mut results = bracketings(copies, &perm);
        let flat = guard(|| Combiner::new(perm.iter().map(|i| copies[*i].clone()).collect()).combine());
        match flat {
            Ok(r) => results.push((format!("flat{perm:?}"), r.map_err(|_| ()))),
            Err(pn) => {
                report(c, format!("combine:panic:{}", panic_class(&pn)), pn);
                continue;
            }
        }
        for (desc, res) in results {
            combos += 1;
            match (&oracle, res) {
                (Ok(want), Ok(got)) => {
                    let tg = tree(&got).expect("tree");
                    if !same(want, &tg) {
                        let mut d = vec![];
                        diff(want, &tg, "", &mut d, 4);
                        let g = d.first().map(|x| generic_path(x)).unwrap_or_default();
                        let lost = d.first().is_some_and(|x| x.ends_with("(cleared)") || x.ends_with("(removed)"));
                        let class = format!("combine:{}:{}", if lost { "field-lost" } else { "differs-from-union" }, g.split(' ').next().unwrap_or(""));
                        if seen.insert(class.clone()) {
                            report(c, class, format!("{label}: combining {desc} differs from the field-wise union at {d:?}"));
                        }
                        continue;
                    }
                    // the result must imply the identifier every input implies (all accepted
                    // results equal the union, so the first one stands for all of them)
                    if first_ok.is_some() {
                        continue;
                    }
                    if let (Some(t0), Ok(tr)) = (known.first(), txid_of(&got)) {
                        if tr != *t0 {
                            let class = format!("combine:result-implies-different-txid:{label}");
                            if seen.insert(class.clone()) {
                                report(c, class, format!("{label}: combining {desc} implies txid {tr}, the inputs imply {t0}"));
                            }
                            continue;
                        }
                        c.r.count("combine_result_txid_checked", 1);
                    }
                    if first_ok.is_none() {
                        first_ok = Some(got);
                    }
                }
                (Ok(_), Err(())) if lenient_refusal => {
                    c.r.count("combine_refused_differently_spelled_copies", 1);
                }
                (Ok(_), Err(())) => {
                    if seen.insert("refused".into()) {
                        report(
                            c,
                            "combine:refused-compatible-copies".into(),
                            format!("{label}: {desc} failed although the copies agree on every field both carry"),
                        );
                    }
                }
                (Err(path), Ok(got)) => {
                    let class = format!("combine:conflict-accepted:{}", generic_path(path));
                    if seen.insert(class.clone()) {
                        let detail = if txid_conflict {
                            format!(
                                "{label}: {desc} succeeded although the copies imply different transactions (txids {:?}); the result implies {:?}",
                                txids.iter().map(|t| t.map(|x| x.to_string())).collect::<Vec<_>>(),
                                txid_of(&got).ok().map(|x| x.to_string())
                            )
                        } else {
                            format!("{label}: {desc} succeeded although two copies carry different values at {path}")
                        };
                        report(c, class, detail);
                    }
                }
                (Err(_), Err(())) => {}
            }
        }
    }
    c.r.count("combine_orders_and_groupings", combos);
    c.r.count(&format!("combine_experiments_n{n}"), 1);
    match &oracle {
        Ok(_) if seen.is_empty() => c.r.count("combine_union_agreed", 1),
        Err(_) if seen.is_empty() => c.r.count("combine_conflicts_refused_in_every_order", 1),
        _ => c.r.count("combine_experiments_with_findings", 1),
    }
    // idempotence
    if let Some(r) = &first_ok {
        let tr = tree(r).expect("tree");
        for (what, v) in [
            ("r+r", vec![r.clone(), r.clone()]),
            ("r+copy0", vec![r.clone(), copies[0].clone()]),
            ("copyN+r", vec![copies[n - 1].clone(), r.clone()]),
            ("copy0+copy0", vec![copies[0].clone(), copies[0].clone()]),
        ] {
            let want = if what == "copy0+copy0" { &trees[0] } else { &tr };
            match Combiner::new(v).combine() {
                Ok(x) => {
                    let tx_ = tree(&x).expect("tree");
                    if same(&tx_, want) {
                        c.r.count("combine_idempotence_checked", 1);
                    } else {
                        let mut d = vec![];
                        diff(want, &tx_, "", &mut d, 4);
                        let g = d.first().map(|x| generic_path(x)).unwrap_or_default();
                        let lost = d.first().is_some_and(|x| x.ends_with("(cleared)") || x.ends_with("(removed)"));
                        let path = g.split(' ').next().unwrap_or("").to_string();
                        let class = if lost { format!("combine:field-lost:{path}") } else { format!("combine:not-idempotent:{path}") };
                        report(c, class, format!("{label}: {what} is not the same value again: {d:?}"));
                    }
                }
                Err(_) => report(c, format!("combine:not-idempotent:{what}:refused"), format!("{label}: {what} refused")),
            }
        }
    }
    first_ok
}


// ---------------------------------------------------------------------------------------------
// fields only a third-party Constructor / Creator sets (injected through the value tree)
// ---------------------------------------------------------------------------------------------

use tree::Step::{I as Ix, K};

/// Edits `p` the way a foreign Constructor could have produced it: explicit (non-final) input
/// sequences, per-input required lock times, an absent or non-zero fallback lock time. These are
/// transaction-effecting fields that the workspace's own builder never sets.
fn inject_foreign(c: &mut Ctx, p: &Pczt, rng: &mut ChaCha20Rng) -> Option<(Pczt, String)> {
    let mut t = tree(p).ok()?;
    let n_in = at(&t, &[K("transparent"), K("inputs")]).map(arr_len).unwrap_or(0);
    let mut tags: Vec<&'static str> = vec![];
    let mut set = |t: &mut V, path: &[tree::Step<'_>], v: V| -> bool {
        match at_mut(t, path) {
            Some(slot) => {
                *slot = v;
                true
            }
            None => false,
        }
    };
    // fallback lock time
    match rng.gen_range(0..5) {
        0 => {
            if set(&mut t, &[K("global"), K("fallback_lock_time")], V::Null) {
                tags.push("fallback-absent");
            }
        }
        1 => {
            if set(&mut t, &[K("global"), K("fallback_lock_time")], uint(rng.gen_range(1..499_999_999))) {
                tags.push("fallback-nonzero");
            }
        }
        _ => {}
    }
    if n_in > 0 {
        let lock_kind = rng.gen_range(0..4); // 0,1: none; 2: height; 3: time
        let mut any_seq = false;
        for i in 0..n_in {
            match rng.gen_range(0..6) {
                0 | 1 => {
                    let v = *[0xFFFF_FFFEu64, 0xFFFF_FFFE, 0, 5, 0x8000_0001].choose(rng).unwrap();
                    if set(&mut t, &[K("transparent"), K("inputs"), Ix(i), K("sequence")], uint(v)) {
                        any_seq = true;
                    }
                }
                2 => {
                    if set(&mut t, &[K("transparent"), K("inputs"), Ix(i), K("sequence")], uint(0xFFFF_FFFF)) {
                        tags.push("sequence-final-explicit");
                    }
                }
                _ => {}
            }
            if lock_kind >= 2 && (i == 0 || rng.gen_bool(0.5)) {
                let (key, v, tag) = if lock_kind == 2 {
                    ("required_height_lock_time", rng.gen_range(1..499_999_999u64), "required-height-lock")
                } else {
                    ("required_time_lock_time", rng.gen_range(500_000_000..2_000_000_000u64), "required-time-lock")
                };
                if set(&mut t, &[K("transparent"), K("inputs"), Ix(i), K(key)], uint(v)) && !tags.contains(&tag) {
                    tags.push(tag);
                }
            }
        }
        if any_seq {
            tags.push("sequence-non-final");
        }
    }
    if tags.is_empty() {
        return None;
    }
    let q = from_tree(&t).ok()?;
    // must still describe a transaction
    txid_of(&q).ok()?;
    for tg in &tags {
        c.r.count(&format!("foreign_constructor:{tg}"), 1);
    }
    Some((q, tags.join("+")))
}

/// Pairs of copies that differ in ONE field, made through the value tree: present-vs-present
/// conflicts on required / global fields, and absent-vs-present pairs on fields whose absence has a
/// defined meaning (fallback lock time 0, sequence 0xFFFFFFFF, "no required lock time").
fn field_pairs(c: &mut Ctx, base: &Pczt, rng: &mut ChaCha20Rng, made: &Made, how_many: usize) {
    let Ok(t0) = tree(base) else { return };
    let n_in = at(&t0, &[K("transparent"), K("inputs")]).map(arr_len).unwrap_or(0);
    let n_out = at(&t0, &[K("transparent"), K("outputs")]).map(arr_len).unwrap_or(0);
    let txv = at(&t0, &[K("global"), K("tx_version")]).and_then(as_u64).unwrap_or(0);
    // (label, path, value in X (None = keep), value in Y, lenient)
    struct Pair {
        label: &'static str,
        path: Vec<tree::Step<'static>>,
        x: Option<V>,
        y: V,
        lenient: bool,
    }
    let g = |k: &'static str| vec![K("global"), K(k)];
    let cur = |path: &[tree::Step<'_>]| at(&t0, path).and_then(as_u64);
    let mut pairs: Vec<Pair> = vec![];
    let nz = rng.gen_range(1..499_999_999u64);
    pairs.push(Pair { label: "global.fallback_lock_time:absent-vs-nonzero", path: g("fallback_lock_time"), x: Some(V::Null), y: uint(nz), lenient: false });
    pairs.push(Pair { label: "global.fallback_lock_time:absent-vs-zero", path: g("fallback_lock_time"), x: Some(V::Null), y: uint(0), lenient: true });
    pairs.push(Pair { label: "global.fallback_lock_time:differs", path: g("fallback_lock_time"), x: Some(uint(7)), y: uint(9), lenient: false });
    if let Some(e) = cur(&g("expiry_height")) {
        pairs.push(Pair { label: "global.expiry_height:differs", path: g("expiry_height"), x: None, y: uint(e + 1), lenient: false });
    }
    if let Some(ct) = cur(&g("coin_type")) {
        pairs.push(Pair { label: "global.coin_type:differs", path: g("coin_type"), x: None, y: uint(ct ^ 1), lenient: false });
    }
    if txv == 5 {
        if let Some(b) = cur(&g("consensus_branch_id")) {
            let other = if b == 0xC8E7_1055 { 0xC2D6_D0B4u64 } else { 0xC8E7_1055 };
            pairs.push(Pair { label: "global.consensus_branch_id:differs", path: g("consensus_branch_id"), x: None, y: uint(other), lenient: false });
        }
    }
    if let Some(m) = cur(&g("tx_modifiable")) {
        pairs.push(Pair { label: "global.tx_modifiable:reserved-bit", path: g("tx_modifiable"), x: None, y: uint(m | 0x10), lenient: false });
        // legitimate difference: one party still considers the outputs modifiable
        pairs.push(Pair { label: "global.tx_modifiable:modifiable-bits", path: g("tx_modifiable"), x: Some(uint((m & 0x87) | 0x02)), y: uint((m & 0x87) | 0x04), lenient: false });
    }
    if n_in > 0 {
        let i = rng.gen_range(0..n_in);
        let ip = |k: &'static str| vec![K("transparent"), K("inputs"), Ix(i), K(k)];
        pairs.push(Pair { label: "transparent.inputs[].sequence:absent-vs-non-final", path: ip("sequence"), x: Some(V::Null), y: uint(0xFFFF_FFFE), lenient: false });
        pairs.push(Pair { label: "transparent.inputs[].sequence:absent-vs-final", path: ip("sequence"), x: Some(V::Null), y: uint(0xFFFF_FFFF), lenient: true });
        pairs.push(Pair { label: "transparent.inputs[].sequence:differs", path: ip("sequence"), x: Some(uint(1)), y: uint(2), lenient: false });
        pairs.push(Pair { label: "transparent.inputs[].required_height_lock_time:absent-vs-present", path: ip("required_height_lock_time"), x: Some(V::Null), y: uint(rng.gen_range(1..499_999_999)), lenient: false });
        pairs.push(Pair { label: "transparent.inputs[].required_time_lock_time:absent-vs-present", path: ip("required_time_lock_time"), x: Some(V::Null), y: uint(rng.gen_range(500_000_000..2_000_000_000)), lenient: false });
        if let Some(v) = cur(&ip("value")) {
            pairs.push(Pair { label: "transparent.inputs[].value:differs", path: ip("value"), x: None, y: uint(v + 1), lenient: false });
        }
        if let Some(v) = cur(&ip("prevout_index")) {
            pairs.push(Pair { label: "transparent.inputs[].prevout_index:differs", path: ip("prevout_index"), x: None, y: uint(v ^ 1), lenient: false });
        }
        pairs.push(Pair { label: "transparent.inputs[].sighash_type:differs", path: ip("sighash_type"), x: None, y: uint(0x81), lenient: false });
    }
    if n_out > 0 {
        let i = rng.gen_range(0..n_out);
        let op = |k: &'static str| vec![K("transparent"), K("outputs"), Ix(i), K(k)];
        if let Some(v) = cur(&op("value")) {
            pairs.push(Pair { label: "transparent.outputs[].value:differs", path: op("value"), x: None, y: uint(v ^ 1), lenient: false });
        }
    }
    for (pool, list) in [("sapling", "spends"), ("orchard", "actions"), ("ironwood", "actions")] {
        let n = at(&t0, &[K(pool), K(list)]).map(arr_len).unwrap_or(0);
        if n == 0 {
            continue;
        }
        let i = rng.gen_range(0..n);
        let path: Vec<tree::Step<'static>> = if pool == "sapling" {
            vec![K(pool), K(list), Ix(i), K("nullifier"), Ix(0)]
        } else {
            vec![K(pool), K(list), Ix(i), K("spend"), K("nullifier"), Ix(0)]
        };
        if let Some(b) = cur(&path) {
            let label = match pool {
                "sapling" => "sapling.spends[].nullifier:differs",
                "orchard" => "orchard.actions[].spend.nullifier:differs",
                _ => "ironwood.actions[].spend.nullifier:differs",
            };
            pairs.push(Pair { label, path, x: None, y: uint(b ^ 1), lenient: false });
        }
    }
    pairs.shuffle(rng);
    // the absent-vs-present pairs are the point of this experiment: always keep some of them
    pairs.sort_by_key(|p| !(p.label.contains("absent-vs")));
    let n_abs = pairs.iter().filter(|p| p.label.contains("absent-vs")).count();
    let mut chosen: Vec<Pair> = vec![];
    let take_abs = n_abs.min(how_many.div_ceil(2) + 1);
    let mut rest: Vec<Pair> = pairs.drain(n_abs..).collect();
    pairs.shuffle(rng);
    chosen.extend(pairs.into_iter().take(take_abs));
    rest.shuffle(rng);
    chosen.extend(rest.into_iter().take(how_many.saturating_sub(1)));
    for pr in chosen {
        let mut tx_ = t0.clone();
        let mut ty_ = t0.clone();
        if let Some(xv) = &pr.x {
            match at_mut(&mut tx_, &pr.path) {
                Some(slot) => *slot = xv.clone(),
                None => continue,
            }
        }
        match at_mut(&mut ty_, &pr.path) {
            Some(slot) => *slot = pr.y.clone(),
            None => continue,
        }
        let (Ok(x), Ok(y)) = (from_tree(&tx_), from_tree(&ty_)) else {
            c.r.count(&format!("field_pair_unbuildable:{}", pr.label), 1);
            continue;
        };
        c.r.count("field_pair_cases", 1);
        c.r.count(&format!("field_pair:{}", pr.label), 1);
        if pr.label.contains("absent-vs") {
            c.r.count("field_pair_absent_vs_present", 1);
        }
        let mut set = vec![x, y];
        if rng.gen_bool(0.4) {
            // a third copy that agrees with X
            set.push(set[0].clone());
        }
        // absent-vs-present copies may describe the same transaction (when another field decides
        // the effect): refusing them is tolerated, combining copies whose txids differ is not
        combine_all_ex(c, &set, pr.label, made, pr.lenient || pr.label.contains("absent-vs"));
    }
}

/// Redactor compaction of Orchard / Ironwood ciphertexts into memo plaintexts (v2 only): the
/// compacted PCZT must round-trip, imply the same txid, resolve back to the original value, and
/// be accepted by the next role.
fn memo_compaction(c: &mut Ctx, p: &Pczt, stage: &str, txid0: &Result<TxId, String>, made: &Made, rng: &mut ChaCha20Rng) {
    let (no, ni) = (p.orchard().actions().len(), p.ironwood().actions().len());
    if no + ni == 0 {
        return;
    }
    let want = tree(p).expect("tree");
    let v2n = orchard::note::NoteVersion::V2;
    let v3n = orchard::note::NoteVersion::V3;
    let variants: Vec<(&str, Pczt)> = vec![
        (
            "compact_resolvable_fields",
            Redactor::new(p.clone())
                .redact_orchard_with(|mut o| o.compact_resolvable_fields())
                .redact_ironwood_with(|mut o| o.compact_resolvable_fields())
                .finish(),
        ),
        (
            "decrypted_memo_plaintext",
            Redactor::new(p.clone())
                .redact_orchard_with(|mut o| o.redact_actions(|mut a| a.replace_enc_ciphertext_with_decrypted_memo_plaintext(v2n)))
                .redact_ironwood_with(|mut o| o.redact_actions(|mut a| a.replace_enc_ciphertext_with_decrypted_memo_plaintext(v3n)))
                .finish(),
        ),
        ("given_memo_plaintext", {
            // the wallet knows the memo of a requested output: replaces that one ciphertext
            let r = &made.req;
            let n_plain = r.o_out.iter().filter(|o| !o.change).count();
            let mut kc = 0;
            let mut o_jobs: Vec<(usize, [u8; 512])> = vec![];
            let mut kp = 0;
            for o in r.o_out.iter() {
                let k = if o.change {
                    kc += 1;
                    n_plain + kc - 1
                } else {
                    kp += 1;
                    kp - 1
                };
                if let Some(i) = made.ometa.output_action_index(k) {
                    o_jobs.push((i, memo_array(&o.memo)));
                }
            }
            let i_jobs: Vec<(usize, [u8; 512])> = r
                .i_out
                .iter()
                .enumerate()
                .filter_map(|(k, o)| made.imeta.output_action_index(k).map(|i| (i, memo_array(&o.memo))))
                .collect();
            Redactor::new(p.clone())
                .redact_orchard_with(|mut o| {
                    for (i, m) in &o_jobs {
                        o.redact_action(*i, |mut a| a.replace_enc_ciphertext_with_memo_plaintext(*m));
                    }
                })
                .redact_ironwood_with(|mut o| {
                    for (i, m) in &i_jobs {
                        o.redact_action(*i, |mut a| a.replace_enc_ciphertext_with_memo_plaintext(*m));
                    }
                })
                .finish()
        }),
    ];
    for (name, q) in variants {
        let Ok(tq) = tree(&q) else { continue };
        // what did we get?
        let mut lens: Vec<usize> = vec![];
        for pool in ["orchard", "ironwood"] {
            if let Some(V::Array(acts)) = at(&tq, &[K(pool), K("actions")]) {
                for a in acts {
                    if let Some(V::Map(m)) = at(a, &[K("output"), K("enc_ciphertext")]) {
                        for (k, v) in m {
                            if matches!(k, V::Text(s) if s == "MemoPlaintext") {
                                lens.push(arr_len(v));
                            }
                        }
                    }
                }
            }
        }
        if lens.is_empty() {
            c.r.count("memo_compaction_nothing_compacted", 1);
            continue;
        }
        c.r.count("memo_compactions", 1);
        c.r.count(&format!("memo_compaction:{name}"), 1);
        for l in &lens {
            let b = match l {
                0 => "0",
                1 => "1",
                511 => "511",
                512 => "512",
                _ => "2-510",
            };
            c.r.count(&format!("memo_plaintext_len:{b}"), 1);
        }
        let st = format!("redactor-compaction:{stage}");
        check_roundtrip(c, &q, &st, made);
        check_txid(c, "redactor-compaction", &q, txid0, made, false);
        // resolves back to the same value
        let mut r = q.clone();
        match guard(|| r.resolve_fields().map(|_| r)) {
            Ok(Ok(r)) => {
                let tr = tree(&r).expect("tree");
                if same(&tr, &want) {
                    c.r.count("memo_compaction_resolved_back", 1);
                } else {
                    let mut d = vec![];
                    diff(&want, &tr, "", &mut d, 4);
                    let g = d.first().map(|x| generic_path(x)).unwrap_or_default();
                    viol(
                        c,
                        &format!("redactor:compaction:{name}:resolve-differs:{}", g.split(' ').next().unwrap_or("")),
                        format!("resolve_fields() after {name} does not give the original PCZT back: {d:?}"),
                        stage_json(&st, made),
                    );
                }
            }
            Ok(Err(e)) => viol(
                c,
                &format!("redactor:compaction:{name}:does-not-resolve"),
                format!("resolve_fields() failed after {name}: {e:?}"),
                stage_json(&st, made),
            ),
            Err(pn) => viol(c, &format!("redactor:compaction:panic:{}", panic_class(&pn)), pn, stage_json(&st, made)),
        }
        // handed over the wire, the next role must take it: IoFinalizer (before IO finalisation)
        // or Signer (after)
        if rng.gen_bool(0.5) {
            if let Ok(bytes) = q.clone().serialize() {
                if let Ok(q2) = Pczt::parse(&bytes) {
                    let next = if stage == "updater" {
                        guard(|| IoFinalizer::new(q2.clone()).finalize_io().map_err(|e| format!("{e:?}")))
                    } else {
                        guard(|| Signer::new(q2.clone()).map(|s| s.finish()).map_err(|e| format!("{e:?}")))
                    };
                    match next {
                        Ok(Ok(n)) => {
                            c.r.count("memo_compaction_next_role_ok", 1);
                            check_txid(c, "role-after-compaction", &n, txid0, made, false);
                        }
                        Ok(Err(e)) => c.r.count(&format!("memo_compaction_next_role_err:{}", e.chars().take(30).collect::<String>()), 1),
                        Err(pn) => viol(c, &format!("role-after-compaction:panic:{}", panic_class(&pn)), pn, stage_json(&st, made)),
                    }
                }
            }
        }
    }
}


// ---------------------------------------------------------------------------------------------
// bundles that are empty except for ONE field (hand-made through the value tree)
// ---------------------------------------------------------------------------------------------

/// For every field of an otherwise canonically empty Sapling / Orchard / Ironwood bundle: set just
/// that field and require (a) round-trip equality in every encoding that can carry it, (b) byte
/// stability of v1 -> v2 -> v1 and v2 -> v1 -> v2 where both can, (c) the same "has effects"
/// verdict and txid before and after a serialise/parse cycle.
fn empty_bundle_field_probes(c: &mut Ctx) {
    use zcash_protocol::consensus::BranchId;
    // templates: a Creator PCZT whose bundles are present in the tree (non-default anchors)
    let tmpl = |branch: BranchId| -> Option<V> {
        let mut cr = Creator::new(branch.into(), 1_000_000, 133, Some([7; 32]), Some([9; 32])).ok()?;
        if branch == BranchId::Nu6_3 {
            cr = cr.with_ironwood_anchor([5; 32]).ok()?;
        }
        tree(&cr.build().ok()?).ok()
    };
    let (Some(t6), Some(t5)) = (tmpl(BranchId::Nu6_3), tmpl(BranchId::Nu6)) else { return };
    let iw_bundle = get(&t6, "ironwood").cloned();
    let bytes32 = |b: u8| V::Array((0..32).map(|_| uint(b as u64)).collect());
    let mut made = make_dummy(c);
    for (vname, base) in [("v5", &t5), ("v6", &t6)] {
        for pool in ["sapling", "orchard", "ironwood"] {
            // (field, value)
            let mut fields: Vec<(&str, V)> = vec![
                ("bsk", bytes32(9)),
                ("anchor", bytes32(7)),
                ("value_sum", if pool == "sapling" { uint(5) } else { V::Array(vec![uint(5), V::Bool(false)]) }),
            ];
            if pool != "sapling" {
                fields.push(("flags", uint(1)));
                fields.push(("note_version", V::Text(if pool == "orchard" { "V3" } else { "V2" }.into())));
                fields.push(("zkproof", V::Array(vec![uint(1), uint(2), uint(3)])));
            }
            // two-field shapes around the placeholder anchor
            fields.push(("bsk+zero-anchor", bytes32(9)));
            for (field, val) in fields {
                let mut t = base.clone();
                // start from the canonical empty bundle with every field at its default
                let Some(slot) = get_mut(&mut t, pool) else { continue };
                if matches!(slot, V::Null) {
                    match &iw_bundle {
                        Some(b) if pool == "ironwood" => *slot = b.clone(),
                        _ => continue,
                    }
                }
                let Some(a) = get_mut(slot, "anchor") else { continue };
                *a = V::Null;
                let key = field.split('+').next().unwrap();
                match get_mut(slot, key) {
                    Some(f) => *f = val.clone(),
                    None => continue,
                }
                if field.ends_with("zero-anchor") {
                    if let Some(a) = get_mut(slot, "anchor") {
                        *a = bytes32(0);
                    }
                }
                let Ok(p) = from_tree(&t) else {
                    c.r.count(&format!("empty_bundle_probe_unbuildable:{vname}:{pool}.{field}"), 1);
                    continue;
                };
                // the probe really carries the field (the decoder does not elide)
                let part = match pool {
                    "sapling" => format!("{:?}", p.sapling()),
                    "orchard" => format!("{:?}", p.orchard()),
                    _ => format!("{:?}", p.ironwood()),
                };
                if key == "bsk" && !part.contains("bsk: Some(") {
                    c.r.count("empty_bundle_probe_not_carrying_field", 1);
                    continue;
                }
                c.r.count("empty_bundle_field_probes", 1);
                c.r.count(&format!("empty_bundle_probe:{pool}.{key}"), 1);
                made.p = p.clone();
                let stage = format!("probe:{vname}:empty-{pool}-bundle-with:{field}");
                check_roundtrip(c, &p, &stage, &made);
                // (an all-zero anchor on an action-less bundle is read back as absent: that known
                // defect is reported by check_roundtrip under its own signature and would only
                // reappear here as a byte difference)
                if !field.ends_with("zero-anchor") {
                    cross_version_stability(c, &p, &format!("{pool}.{field}"), &stage, &made);
                }
                // effects verdict / txid across a serialise-parse cycle
                if let Ok(b) = p.clone().serialize() {
                    if let Ok(q) = Pczt::parse(&b) {
                        let (e0, e1) = (txid_of(&p), txid_of(&q));
                        match (&e0, &e1) {
                            (Ok(x), Ok(y)) if x == y => c.r.count("probe_effects_verdict_stable", 1),
                            (Err(_), Err(_)) => c.r.count("probe_effects_verdict_stable", 1),
                            _ => viol(
                                c,
                                &format!("roundtrip:effects-verdict-changes:{pool}.{key}"),
                                format!("into_effects before: {e0:?}, after parse(serialize(p)): {e1:?} at {stage}"),
                                stage_json(&stage, &made),
                            ),
                        }
                    }
                }
            }
        }
    }
}

/// v1 bytes -> parse -> v2 bytes -> parse -> v1 bytes must reproduce the v1 bytes (and the same the
/// other way round), whenever both encodings accept the value.
fn cross_version_stability(c: &mut Ctx, p: &Pczt, what: &str, stage: &str, made: &Made) {
    let v1 = |x: &Pczt| pczt::v1::Pczt::try_from(x.clone()).ok().map(|e| e.serialize());
    let v2 = |x: &Pczt| pczt::v2::Pczt::try_from(x.clone()).ok().map(|e| e.serialize());
    if let Some(b1) = v1(p) {
        let back = Pczt::parse(&b1).ok().and_then(|q| v2(&q)).and_then(|b2| Pczt::parse(&b2).ok()).and_then(|r| v1(&r));
        match back {
            Some(b) if b == b1 => c.r.count("v1_v2_v1_bytes_stable", 1),
            Some(_) => viol(
                c,
                &format!("roundtrip:v1-v2-v1-bytes-differ:{what}"),
                format!("v1 bytes -> v2 -> v1 does not reproduce the v1 bytes at {stage}"),
                stage_json(stage, made),
            ),
            None => viol(c, &format!("roundtrip:v1-v2-v1-breaks:{what}"), format!("a step of v1 -> v2 -> v1 failed at {stage}"), stage_json(stage, made)),
        }
    }
    if let Some(b2) = v2(p) {
        if let Some(q) = Pczt::parse(&b2).ok() {
            if let Some(b1) = v1(&q) {
                let back = Pczt::parse(&b1).ok().and_then(|r| v2(&r));
                match back {
                    Some(b) if b == b2 => c.r.count("v2_v1_v2_bytes_stable", 1),
                    Some(_) => viol(
                        c,
                        &format!("roundtrip:v2-v1-v2-bytes-differ:{what}"),
                        format!("v2 bytes -> v1 -> v2 does not reproduce the v2 bytes at {stage}"),
                        stage_json(stage, made),
                    ),
                    None => {}
                }
            }
        }
    }
}

// ---------------------------------------------------------------------------------------------
// copies of different length: a Constructor that is still adding vs a copy that is locked
// ---------------------------------------------------------------------------------------------

/// The longer copy L = the shorter copy S plus one more input / output / spend / action, as a
/// Constructor that is still adding would produce; each copy's modifiable flag set or cleared
/// (only an external Constructor uses these flags: injected through the value tree). Rule
/// (documented on `Global::tx_modifiable` and in the bundle merges): a copy may only be extended
/// if ITS flag says it is modifiable. So the verdict must be `Ok` iff the shorter copy is
/// modifiable — in both orders and every grouping — and all accepted results must be equal.
fn growth_pairs(c: &mut Ctx, p0: &Pczt, rng: &mut ChaCha20Rng, made: &Made) {
    let Ok(t0) = tree(p0) else { return };
    // (label, path to list, flag bit)
    let all: [(&'static str, [tree::Step<'static>; 2], u64); 6] = [
        ("transparent.inputs", [K("transparent"), K("inputs")], 0x01),
        ("transparent.outputs", [K("transparent"), K("outputs")], 0x02),
        ("sapling.spends", [K("sapling"), K("spends")], 0x80),
        ("sapling.outputs", [K("sapling"), K("outputs")], 0x80),
        ("orchard.actions", [K("orchard"), K("actions")], 0x80),
        ("ironwood.actions", [K("ironwood"), K("actions")], 0x80),
    ];
    // no bsk anywhere (IO finalisation not run yet)
    let dbg = format!("{p0:?}");
    if dbg.contains("bsk: Some(") {
        return;
    }
    let Some(m0) = at(&t0, &[K("global"), K("tx_modifiable")]).and_then(as_u64) else { return };
    let mut eligible: Vec<&(&'static str, [tree::Step<'static>; 2], u64)> =
        all.iter().filter(|(_, path, _)| at(&t0, path).map(arr_len).unwrap_or(0) >= 1).collect();
    eligible.shuffle(rng);
    // Ironwood and Orchard first when present (rarest), then one more
    eligible.sort_by_key(|e| !(e.0.starts_with("ironwood") || e.0.starts_with("orchard")));
    for (label, path, bit) in eligible.into_iter().take(2) {
        let mk = |shorter: bool, modifiable: bool| -> Option<Pczt> {
            let mut t = t0.clone();
            if shorter {
                match at_mut(&mut t, path) {
                    Some(V::Array(a)) => {
                        a.pop();
                    }
                    _ => return None,
                }
            }
            let flags = if modifiable { m0 | bit } else { m0 & !bit };
            *at_mut(&mut t, &[K("global"), K("tx_modifiable")])? = uint(flags);
            from_tree(&t).ok()
        };
        for (s_mod, l_mod) in [(false, true), (true, false), (true, true), (false, false)] {
            let (Some(s), Some(l)) = (mk(true, s_mod), mk(false, l_mod)) else { continue };
            let expect_ok = s_mod;
            let tag = format!("{}-shorter+{}-longer", if s_mod { "modifiable" } else { "locked" }, if l_mod { "modifiable" } else { "locked" });
            c.r.count("growth_pairs", 1);
            c.r.count(&format!("growth_pair:{label}"), 1);
            let mut copies = vec![l.clone(), s.clone()];
            if rng.gen_bool(0.35) {
                copies.push(if rng.gen_bool(0.5) { s.clone() } else { l.clone() });
            }
            let n_long = at(&t0, path).map(arr_len).unwrap_or(0);
            let mut verdicts: Vec<(String, bool)> = vec![];
            let mut ok_trees: Vec<(String, V)> = vec![];
            for perm in permutations(copies.len()) {
                let mut results = bracketings(&copies, &perm);
                if let Ok(r) = guard(|| Combiner::new(perm.iter().map(|i| copies[*i].clone()).collect()).combine()) {
                    results.push((format!("flat{perm:?}"), r.map_err(|_| ())));
                }
                for (desc, res) in results {
                    c.r.count("growth_verdicts", 1);
                    match res {
                        Ok(r) => {
                            verdicts.push((desc.clone(), true));
                            if let Ok(tr) = tree(&r) {
                                ok_trees.push((desc, tr));
                            }
                        }
                        Err(()) => verdicts.push((desc, false)),
                    }
                }
            }
            let replay = json!({"experiment": "growth", "list": label, "flags": tag, "copy0": "longer", "copy1": "shorter", "request": made.req.to_json()});
            let oks: Vec<&String> = verdicts.iter().filter(|v| v.1).map(|v| &v.0).collect();
            let errs: Vec<&String> = verdicts.iter().filter(|v| !v.1).map(|v| &v.0).collect();
            if !oks.is_empty() && !errs.is_empty() {
                viol(
                    c,
                    &format!("combine:growth:{label}:verdict-depends-on-order:{tag}"),
                    format!("copies 0 = longer ({n_long} items), 1 = shorter ({} items): accepted as {:?}, refused as {:?}", n_long - 1, &oks[..oks.len().min(3)], &errs[..errs.len().min(3)]),
                    replay.clone(),
                );
            }
            if !expect_ok && !oks.is_empty() {
                viol(
                    c,
                    &format!("combine:growth:{label}:locked-copy-extended"),
                    format!("{tag}: {:?} succeeded: a copy whose flags forbid changes was extended by one item", &oks[..oks.len().min(3)]),
                    replay.clone(),
                );
            }
            if expect_ok && !errs.is_empty() && oks.is_empty() {
                viol(
                    c,
                    &format!("combine:growth:{label}:modifiable-copy-not-extended"),
                    format!("{tag}: every order refused although the shorter copy is modifiable"),
                    replay.clone(),
                );
            }
            // accepted results: all equal, as long as the longer copy, flags merged towards locked
            if let Some((d0, first)) = ok_trees.first() {
                for (d, t) in &ok_trees[1..] {
                    if !same(first, t) {
                        let mut df = vec![];
                        diff(first, t, "", &mut df, 3);
                        viol(
                            c,
                            &format!("combine:growth:{label}:result-depends-on-order"),
                            format!("{tag}: {d0} and {d} give different values: {df:?}"),
                            replay.clone(),
                        );
                        break;
                    }
                }
                if at(first, path).map(arr_len).unwrap_or(0) != n_long {
                    viol(c, &format!("combine:growth:{label}:items-lost"), format!("{tag}: result of {d0} is shorter than the longer copy"), replay.clone());
                }
                c.r.count("growth_results_compared", ok_trees.len() as u64);
            }
            if expect_ok {
                c.r.count("growth_expected_ok", 1);
            } else {
                c.r.count("growth_expected_refusal", 1);
            }
        }
    }
}

// ---------------------------------------------------------------------------------------------
// one case
// ---------------------------------------------------------------------------------------------

fn extract(c: &mut Ctx, p: &Pczt, txid0: &Result<TxId, String>, made: &Made, real: bool) {
    let has_sapling = !p.sapling().spends().is_empty() || !p.sapling().outputs().is_empty();
    let has_o = !p.orchard().actions().is_empty() || !p.ironwood().actions().is_empty();
    if (has_sapling || has_o) && !real {
        return;
    }
    let effects = match p.clone().into_effects() {
        Ok(e) => e,
        Err(_) => return,
    };
    let ed = effects.digest(TxIdDigester);
    let mut ex = TransactionExtractor::new(p.clone());
    let keys;
    if has_sapling {
        keys = c.sapling_prover.get_or_init(LocalTxProver::bundled).verifying_keys();
        ex = ex.with_sapling(&keys.0, &keys.1);
    }
    let vk_i = has_o.then(|| pk_for(c, made.req.epoch()));
    if let Some(i) = vk_i {
        ex = ex.with_orchard(&c.vks[i].1);
    }
    match guard(|| ex.extract()) {
        Ok(Ok(tx)) => {
            c.r.count("extracted", 1);
            if real {
                c.r.count("extracted_with_real_proofs", 1);
            }
            if let Ok(t0) = txid0 {
                if tx.txid() != *t0 && c.txid_moved {
                    c.r.count("txid_differs_downstream_of_reported_change", 1);
                } else if tx.txid() != *t0 {
                    viol(
                        c,
                        "extract:txid-differs-from-pczt",
                        format!("extracted txid {} but the PCZT implied {t0}", tx.txid()),
                        stage_json("extract", made),
                    );
                }
            }
            let td = tx.digest(TxIdDigester);
            let same_digests = td.header_digest.as_bytes() == ed.header_digest.as_bytes()
                && td.transparent_digests.as_ref().map(|d| (d.prevouts_digest.as_bytes().to_vec(), d.sequence_digest.as_bytes().to_vec(), d.outputs_digest.as_bytes().to_vec()))
                    == ed.transparent_digests.as_ref().map(|d| (d.prevouts_digest.as_bytes().to_vec(), d.sequence_digest.as_bytes().to_vec(), d.outputs_digest.as_bytes().to_vec()))
                && td.sapling_digest.map(|d| d.as_bytes().to_vec()) == ed.sapling_digest.map(|d| d.as_bytes().to_vec())
                && td.orchard_digest.map(|d| d.as_bytes().to_vec()) == ed.orchard_digest.map(|d| d.as_bytes().to_vec())
                && td.ironwood_digest.map(|d| d.as_bytes().to_vec()) == ed.ironwood_digest.map(|d| d.as_bytes().to_vec());
            if !same_digests {
                viol(c, "extract:effects-differ-from-pczt", "per-bundle effect digests of the extracted transaction differ from the PCZT's effects".into(), stage_json("extract", made));
            }
            // wire round trip keeps the id
            let mut b = vec![];
            if tx.write(&mut b).is_ok() {
                match zcash_primitives::transaction::Transaction::read(&b[..], tx.consensus_branch_id()) {
                    Ok(t2) if t2.txid() == tx.txid() => c.r.count("extracted_tx_reparsed", 1),
                    _ => viol(c, "extract:wire-form-changes-txid", "".into(), stage_json("extract", made)),
                }
            }
        }
        Ok(Err(e)) => c.r.count(&format!("extract_err:{}", format!("{e:?}").chars().take(40).collect::<String>()), 1),
        Err(pn) => viol(c, &format!("extract:panic:{}", panic_class(&pn)), pn, stage_json("extract", made)),
    }
}

fn run_case(c: &mut Ctx, rng: &mut ChaCha20Rng, made: Made, real: bool, ops: &[RedOp], thorough: bool) {
    let sig = (
        made.req.shape(),
        made.deferred,
        real,
    );
    c.r.case(&sig, true);
    c.r.count(if made.deferred { "pczts:deferred_builder" } else { "pczts:builder" }, 1);
    c.r.count(&format!("pczts:tx_v{}", made.p.global().tx_version()), 1);
    for (k, n) in [
        ("transparent", made.p.transparent().inputs().len() + made.p.transparent().outputs().len()),
        ("sapling", made.p.sapling().spends().len() + made.p.sapling().outputs().len()),
        ("orchard", made.p.orchard().actions().len()),
        ("ironwood", made.p.ironwood().actions().len()),
    ] {
        if n > 0 {
            c.r.count(&format!("pczts_with:{k}"), 1);
        }
    }
    c.txid_moved = false;
    c.foreign = String::new();
    let mut made = made;
    // a third-party Constructor may have set effecting fields the workspace's builder never sets
    if rng.gen_bool(0.45) {
        if let Some((q, tags)) = inject_foreign(c, &made.p, rng) {
            made.p = q;
            c.foreign = tags;
            c.r.count("foreign_constructor_cases", 1);
        }
    }
    let made = made;
    let p0 = made.p.clone();
    c.fp0 = fingerprint(&p0).ok();
    let txid0 = txid_of(&p0);
    if txid0.is_err() {
        c.r.count("no_effects_at_creation", 1);
    }
    observe(c, "creator", &p0, &txid0, &made);
    growth_pairs(c, &p0, rng, &made);

    // Stage A: Updater essentials and IoFinalizer, in either order
    let upd_first = rng.gen_bool(0.5);
    let mut p = p0.clone();
    let step_upd = |c: &mut Ctx, p: Pczt, rng: &mut ChaCha20Rng| -> Pczt {
        let q = update(c, p, rng, 0, &made, true);
        observe(c, "updater", &q, &txid0, &made);
        q
    };
    let step_io = |c: &mut Ctx, p: Pczt| -> Option<Pczt> {
        match guard(|| IoFinalizer::new(p.clone()).finalize_io()) {
            Ok(Ok(q)) => {
                observe(c, "io_finalizer", &q, &txid0, &made);
                Some(q)
            }
            Ok(Err(e)) => {
                c.r.count(&format!("io_finalizer_err:{}", format!("{e:?}").chars().take(30).collect::<String>()), 1);
                None
            }
            Err(pn) => {
                viol(c, &format!("io_finalizer:panic:{}", panic_class(&pn)), pn, stage_json("io_finalizer", &made));
                None
            }
        }
    };
    if upd_first {
        p = step_upd(c, p, rng);
        if rng.gen_bool(0.5) {
            memo_compaction(c, &p, "updater", &txid0, &made, rng);
        }
        // a Signer may come before the IO Finalizer if the API lets it
        let early = duties(&made);
        if !early.is_empty() && rng.gen_bool(0.35) {
            match guard(|| sign(c, p.clone(), &early[..1], &made)) {
                Ok(Ok(x)) => {
                    c.r.count("signer_before_io_finalizer_permitted", 1);
                    observe(c, "signer", &x, &txid0, &made);
                    p = x;
                }
                Ok(Err(_)) => c.r.count("signer_before_io_finalizer_refused", 1),
                Err(pn) => viol(c, &format!("signer:panic:{}", panic_class(&pn)), pn, stage_json("signer", &made)),
            }
        }
        let Some(q) = step_io(c, p) else { return };
        p = q;
    } else {
        let Some(q) = step_io(c, p) else { return };
        p = step_upd(c, q, rng);
    }
    let pa = p;
    strip_and_restore(c, &pa, &txid0, &made);
    memo_compaction(c, &pa, "io_finalizer", &txid0, &made, rng);
    field_pairs(c, &pa, rng, &made, if thorough { 5 } else { 3 });

    // Redactor: every applicable operation once on a fork (all items or one item)
    {
        let ta = tree(&pa).expect("tree");
        let mut applicable: Vec<&RedOp> = ops.iter().filter(|o| op_items(&ta, o) > 0).collect();
        applicable.shuffle(rng);
        let take = if thorough { applicable.len() } else { applicable.len().min(14) };
        for op in applicable.into_iter().take(take) {
            let n = op_items(&ta, op);
            let idx = if op.list.is_empty() || rng.gen_bool(0.5) { None } else { Some(rng.gen_range(0..n)) };
            let q = redact_checked(c, &pa, op, idx, &made);
            check_txid(c, "redactor", &q, &txid0, &made, true);
            check_roundtrip(c, &q, "redactor", &made);
        }
    }

    // Parties
    let all_duties = duties(&made);
    let n_parties = if thorough { rng.gen_range(2..=4usize) } else { *[2usize, 3, 3, 4].choose(rng).unwrap() };
    let mut assignment: Vec<Vec<Duty>> = vec![vec![]; n_parties];
    for d in &all_duties {
        assignment[rng.gen_range(0..n_parties)].push(d.clone());
    }
    let has_sapling = !pa.sapling().spends().is_empty() || !pa.sapling().outputs().is_empty();
    let has_o = !pa.orchard().actions().is_empty();
    let has_i = !pa.ironwood().actions().is_empty();
    let mut proofs: Vec<Vec<Proof>> = vec![vec![]; n_parties];
    if has_sapling {
        proofs[rng.gen_range(0..n_parties)].push(if real { Proof::SaplingReal } else { Proof::SaplingMock });
    }
    if real && has_o {
        proofs[rng.gen_range(0..n_parties)].push(Proof::Orchard);
    }
    if real && has_i {
        proofs[rng.gen_range(0..n_parties)].push(Proof::Ironwood);
    }
    let mut copies: Vec<Pczt> = vec![];
    for j in 0..n_parties {
        let mut q = pa.clone();
        if rng.gen_bool(0.5) {
            // hand-over through the wire
            if let Ok(b) = q.clone().serialize() {
                if let Ok(x) = Pczt::parse(&b) {
                    q = x;
                    c.r.count("handover_through_bytes", 1);
                }
            }
        }
        // the party's jobs in random order
        let mut jobs: Vec<u8> = vec![0, 1, 2]; // 0 update, 1 sign, 2 prove
        jobs.shuffle(rng);
        for job in jobs {
            match job {
                0 => {
                    q = update(c, q, rng, j as u8 + 1, &made, false);
                    observe(c, "updater", &q, &txid0, &made);
                }
                1 => {
                    if assignment[j].is_empty() {
                        continue;
                    }
                    match guard(|| sign(c, q.clone(), &assignment[j], &made)) {
                        Ok(Ok(x)) => {
                            q = x;
                            observe(c, "signer", &q, &txid0, &made);
                        }
                        Ok(Err(e)) => c.r.count(&format!("signer_new_err:{}", e.chars().take(40).collect::<String>()), 1),
                        Err(pn) => viol(c, &format!("signer:panic:{}", panic_class(&pn)), pn, stage_json("signer", &made)),
                    }
                }
                _ => {
                    for pr in proofs[j].clone() {
                        match guard(|| prove(c, q.clone(), pr, &made)) {
                            Ok(Ok(x)) => {
                                q = x;
                                c.r.count(&format!("proved:{pr:?}"), 1);
                                observe(c, "prover", &q, &txid0, &made);
                            }
                            Ok(Err(e)) => c.r.count(&format!("prover_err:{pr:?}:{}", e.chars().take(40).collect::<String>()), 1),
                            Err(pn) => viol(c, &format!("prover:panic:{}", panic_class(&pn)), pn, stage_json("prover", &made)),
                        }
                    }
                }
            }
        }
        // the party strips what the others do not need
        let tq = tree(&q).expect("tree");
        let mut applicable: Vec<&RedOp> = ops.iter().filter(|o| op_items(&tq, o) > 0).collect();
        applicable.shuffle(rng);
        let k = rng.gen_range(0..=6usize.min(applicable.len()));
        for op in applicable.into_iter().take(k) {
            // results of this party's own work stay (otherwise nobody carries them)
            if op.name.contains("zkproof") || op.name.contains("spend_auth_sig") || op.name.contains("partial_signatures") {
                continue;
            }
            let n = op_items(&tq, op);
            let idx = if op.list.is_empty() || rng.gen_bool(0.5) { None } else { Some(rng.gen_range(0..n)) };
            q = (op.apply)(Redactor::new(q), idx).finish();
            c.r.count("party_redactions", 1);
        }
        check_txid(c, "redactor", &q, &txid0, &made, true);
        check_roundtrip(c, &q, "party-copy", &made);
        copies.push(q);
    }

    // (b) Combiner over every order and grouping
    let combined = combine_all(c, &copies, "parties", &made);

    // conflicts
    {
        let mut x = copies[0].clone();
        let mut y = copies[n_parties - 1].clone();
        let kind = rng.gen_range(0..6);
        let mut made_conflict = None;
        match kind {
            0 => {
                x = Updater::new(x).update_global_with(|mut g| g.set_proprietary("clash".into(), vec![1])).finish();
                y = Updater::new(y).update_global_with(|mut g| g.set_proprietary("clash".into(), vec![2])).finish();
                made_conflict = Some("global.proprietary");
            }
            1 if !pa.transparent().outputs().is_empty() => {
                let f = |p: Pczt, s: &str| {
                    Updater::new(p)
                        .update_transparent_with(|mut u| u.update_output_with(0, |mut o| { o.set_user_address(s.into()); Ok(()) }))
                        .map(|u| u.finish())
                };
                if let (Ok(a), Ok(b)) = (f(x.clone(), "t1aaa"), f(y.clone(), "t1bbb")) {
                    x = a;
                    y = b;
                    made_conflict = Some("transparent.output.user_address");
                }
            }
            2 if !pa.sapling().outputs().is_empty() => {
                let f = |p: Pczt, n: u32| {
                    Updater::new(p)
                        .update_sapling_with(|mut u| {
                            u.update_output_with(0, |mut o| {
                                o.set_zip32_derivation(sapling::pczt::Zip32Derivation::parse(fp(9), vec![0x8000_0000 | n]).expect("zip32"));
                                Ok(())
                            })
                        })
                        .map(|u| u.finish())
                };
                if let (Ok(a), Ok(b)) = (f(x.clone(), 1), f(y.clone(), 2)) {
                    x = a;
                    y = b;
                    made_conflict = Some("sapling.output.zip32_derivation");
                }
            }
            3 | 4 if has_o || has_i => {
                let iron = !has_o || (has_i && kind == 4);
                let spend_side = rng.gen_bool(0.5);
                let f = |p: Pczt, n: u32| {
                    let g = |mut u: orchard::pczt::Updater<'_>| {
                        u.update_action_with(0, |mut a| {
                            let z = orchard::pczt::Zip32Derivation::parse(fp(8), vec![0x8000_0000 | n]).expect("zip32");
                            if spend_side {
                                a.set_spend_zip32_derivation(z);
                            } else {
                                a.set_output_user_address(format!("u1clash{n}"));
                            }
                            Ok(())
                        })
                    };
                    if iron { Updater::new(p).update_ironwood_with(g) } else { Updater::new(p).update_orchard_with(g) }.map(|u| u.finish())
                };
                if let (Ok(a), Ok(b)) = (f(x.clone(), 1), f(y.clone(), 2)) {
                    x = a;
                    y = b;
                    made_conflict = Some(if spend_side { "orchard.spend.zip32_derivation" } else { "orchard.output.user_address" });
                }
            }
            _ => {
                // two independent (randomised) signatures for the same shielded spend
                if let Some(d) = all_duties.iter().find(|d| !matches!(d, Duty::T(_))) {
                    let strip = |p: Pczt| -> Pczt {
                        // both start unsigned for that spend
                        Redactor::new(p)
                            .redact_sapling_with(|mut s| s.redact_spends(|mut a| a.clear_spend_auth_sig()))
                            .redact_orchard_with(|mut o| o.redact_actions(|mut a| a.clear_spend_auth_sig()))
                            .redact_ironwood_with(|mut o| o.redact_actions(|mut a| a.clear_spend_auth_sig()))
                            .finish()
                    };
                    let base = strip(pa.clone());
                    if let (Ok(a), Ok(b)) = (sign(c, base.clone(), std::slice::from_ref(d), &made), sign(c, base, std::slice::from_ref(d), &made)) {
                        x = a;
                        y = b;
                        made_conflict = Some("double-signature");
                    }
                }
            }
        }
        if let Some(kindname) = made_conflict {
            let tx_ = tree(&x).expect("tree");
            let ty_ = tree(&y).expect("tree");
            if union(&tx_, &ty_, "").is_err() {
                c.r.count(&format!("conflict_cases:{kindname}"), 1);
                let mut set = vec![x, y];
                if n_parties > 2 && rng.gen_bool(0.6) {
                    set.push(copies[1].clone());
                }
                combine_all(c, &set, "conflict", &made);
            } else {
                c.r.count("conflict_attempt_not_conflicting", 1);
            }
        }
    }

    // the serde route: alter one optional field that no role can set differently
    if let Some(r) = &combined {
        if rng.gen_bool(0.5) {
            let mut t = tree(r).expect("tree");
            let mut changed = None;
            for pool in ["orchard", "ironwood", "sapling"] {
                let Some(b) = get_mut(&mut t, pool) else { continue };
                if matches!(b, V::Null) {
                    continue;
                }
                let list = if pool == "sapling" { "outputs" } else { "actions" };
                let Some(item) = get_mut(b, list).and_then(|l| idx_mut(l, 0)) else { continue };
                let tgt = if pool == "sapling" { Some(item) } else { get_mut(item, "output") };
                if let Some(o) = tgt {
                    if let Some(v) = get_mut(o, "value") {
                        if let V::Integer(i) = v {
                            let n = i128::from(*i) as u64;
                            *v = V::Integer((n ^ 1).into());
                            changed = Some(format!("{pool}.{list}[].value"));
                            break;
                        }
                    }
                }
            }
            if let Some(what) = changed {
                match from_tree(&t) {
                    Ok(altered) => {
                        c.r.count("serde_route_conflicts", 1);
                        let _ = what;
                        combine_all(c, &[r.clone(), altered], "conflict-serde", &made);
                    }
                    Err(e) => c.r.count(&format!("serde_route_err:{}", e.chars().take(30).collect::<String>()), 1),
                }
            }
        }
    }

    // finish the pipeline from the combined PCZT
    let Some(mut p) = combined else { return };
    if rng.gen_bool(0.5) {
        field_pairs(c, &p, rng, &made, 2);
    }
    // if every party stripped something the effects need (e.g. an anchor), nobody carries it any
    // more: that is the parties' doing, not the Combiner's (which was compared with the union)
    let lenient = txid_of(&p).is_err();
    check_txid(c, "combiner", &p, &txid0, &made, lenient);
    check_roundtrip(c, &p, "combiner", &made);
    if !made.req.t_in.is_empty() {
        match guard(|| SpendFinalizer::new(p.clone()).finalize_spends()) {
            Ok(Ok(q)) => {
                p = q;
                c.r.count("spend_finalized", 1);
                check_txid(c, "spend_finalizer", &p, &txid0, &made, lenient);
                check_roundtrip(c, &p, "spend_finalizer", &made);
            }
            Ok(Err(e)) => c.r.count(&format!("spend_finalizer_err:{}", format!("{e:?}").chars().take(40).collect::<String>()), 1),
            Err(pn) => viol(c, &format!("spend_finalizer:panic:{}", panic_class(&pn)), pn, stage_json("spend_finalizer", &made)),
        }
    }
    if made.deferred {
        // ZIP 374: anchors and witnesses are installed after signing, right before proving
        match guard(|| install_anchors_and_witnesses(p.clone(), &made)) {
            Ok(Ok(q)) => {
                p = q;
                c.r.count("deferred_anchors_installed", 1);
                check_txid(c, "updater-anchors-after-signing", &p, &txid0, &made, lenient);
                check_roundtrip(c, &p, "updater-anchors-after-signing", &made);
                if real {
                    for pr in [Proof::Orchard, Proof::Ironwood] {
                        let n = if pr == Proof::Orchard { p.orchard().actions().len() } else { p.ironwood().actions().len() };
                        if n == 0 {
                            continue;
                        }
                        match guard(|| prove(c, p.clone(), pr, &made)) {
                            Ok(Ok(x)) => {
                                p = x;
                                c.r.count(&format!("proved_after_deferral:{pr:?}"), 1);
                                check_txid(c, "prover", &p, &txid0, &made, lenient);
                            }
                            Ok(Err(e)) => c.r.count(&format!("prover_err:{pr:?}:{}", e.chars().take(40).collect::<String>()), 1),
                            Err(pn) => viol(c, &format!("prover:panic:{}", panic_class(&pn)), pn, stage_json("prover", &made)),
                        }
                    }
                }
            }
            Ok(Err(e)) => c.r.count(&format!("deferred_install_err:{}", e.chars().take(40).collect::<String>()), 1),
            Err(pn) => viol(c, &format!("updater:panic:{}", panic_class(&pn)), pn, stage_json("updater", &made)),
        }
    }
    extract(c, &p, &txid0, &made, real);
    c.r.sample(
        &format!("case:v{}:{}", made.p.global().tx_version(), if real { "real-proofs" } else { "volume" }),
        json!({"request": made.req.to_json(), "parties": n_parties, "duties": format!("{all_duties:?}")}),
    );
}

fn witnesses(made: &Made) -> (Vec<(usize, orchard::tree::MerklePath)>, Vec<(usize, orchard::tree::MerklePath)>, Vec<(usize, sapling::MerklePath)>) {
    let o = (0..made.req.o_spend.len())
        .filter_map(|k| made.ometa.spend_action_index(k).map(|i| (i, made.m.o_notes[k].path.clone())))
        .collect();
    let i = (0..made.req.i_spend.len())
        .filter_map(|k| made.imeta.spend_action_index(k).map(|i| (i, made.m.i_notes[k].path.clone())))
        .collect();
    let s = (0..made.req.s_spend.len())
        .filter_map(|k| made.smeta.spend_index(k).map(|i| (i, made.m.s_notes[k].path.clone())))
        .collect();
    (o, i, s)
}

fn install_anchors_and_witnesses(p: Pczt, made: &Made) -> Result<Pczt, String> {
    let (ow, iw, _) = witnesses(made);
    let mut u = Updater::new(p);
    if !made.req.o_spend.is_empty() || !u_has_actions(&u, false) {
        // nothing
    }
    let e = |x: &dyn std::fmt::Debug| format!("{x:?}");
    if !ow.is_empty() {
        u = u.set_orchard_anchor(made.m.o_anchor).map_err(|x| e(&x))?;
        u = u.set_orchard_spend_witnesses(ow).map_err(|x| e(&x))?;
    } else {
        u = u.set_orchard_anchor(made.m.o_anchor).map_err(|x| e(&x))?;
    }
    if !iw.is_empty() {
        u = u.set_ironwood_anchor(made.m.i_anchor).map_err(|x| e(&x))?;
        u = u.set_ironwood_spend_witnesses(iw).map_err(|x| e(&x))?;
    } else {
        u = u.set_ironwood_anchor(made.m.i_anchor).map_err(|x| e(&x))?;
    }
    Ok(u.finish())
}

fn u_has_actions(_u: &Updater, _iron: bool) -> bool {
    true
}

/// v6 only: strip anchors and spend witnesses (what a signer does not need), then put them back
/// with the Updater: the PCZT must be the same value again and imply the same txid throughout.
fn strip_and_restore(c: &mut Ctx, pa: &Pczt, txid0: &Result<TxId, String>, made: &Made) {
    if *pa.global().tx_version() != 6 || made.deferred {
        return;
    }
    let (ow, iw, sw) = witnesses(made);
    let want = tree(pa).expect("tree");
    let mut q = Redactor::new(pa.clone());
    let (has_s, has_o, has_i) = (pa.sapling().anchor().is_some(), pa.orchard().anchor().is_some(), pa.ironwood().anchor().is_some());
    if has_s {
        q = q.redact_sapling_with(|mut r| {
            r.clear_anchor();
            for (i, _) in &sw {
                r.redact_spend(*i, |mut s| s.clear_witness());
            }
        });
    }
    if has_o {
        q = q.redact_orchard_with(|mut r| {
            r.clear_anchor();
            for (i, _) in &ow {
                r.redact_action(*i, |mut a| a.clear_spend_witness());
            }
        });
    }
    if has_i {
        q = q.redact_ironwood_with(|mut r| {
            r.clear_anchor();
            for (i, _) in &iw {
                r.redact_action(*i, |mut a| a.clear_spend_witness());
            }
        });
    }
    let stripped = q.finish();
    check_txid(c, "redactor-anchors", &stripped, txid0, made, false);
    check_roundtrip(c, &stripped, "redactor-anchors", made);
    let restore = || -> Result<Pczt, String> {
        let e = |x: &dyn std::fmt::Debug| format!("{x:?}");
        let mut u = Updater::new(stripped.clone());
        if has_s {
            u = u.set_sapling_anchor(made.m.s_anchor).map_err(|x| e(&x))?;
            u = u.set_sapling_spend_witnesses(sw.clone()).map_err(|x| e(&x))?;
        }
        if has_o {
            u = u.set_orchard_anchor(made.m.o_anchor).map_err(|x| e(&x))?;
            u = u.set_orchard_spend_witnesses(ow.clone()).map_err(|x| e(&x))?;
        }
        if has_i {
            u = u.set_ironwood_anchor(made.m.i_anchor).map_err(|x| e(&x))?;
            u = u.set_ironwood_spend_witnesses(iw.clone()).map_err(|x| e(&x))?;
        }
        Ok(u.finish())
    };
    match guard(restore) {
        Ok(Ok(r)) => {
            c.r.count("anchors_stripped_and_restored", 1);
            check_txid(c, "updater-anchors", &r, txid0, made, false);
            let got = tree(&r).expect("tree");
            if !same(&want, &got) {
                let mut d = vec![];
                diff(&want, &got, "", &mut d, 4);
                let g = d.first().map(|x| generic_path(x)).unwrap_or_default();
                viol(
                    c,
                    &format!("updater:restore-differs:{}", g.split(' ').next().unwrap_or("")),
                    format!("after clearing and re-installing anchors/witnesses the PCZT differs at {d:?}"),
                    stage_json("updater-anchors", made),
                );
            }
        }
        Ok(Err(e)) => c.r.count(&format!("anchor_restore_err:{}", e.chars().take(40).collect::<String>()), 1),
        Err(pn) => viol(c, &format!("updater:panic:{}", panic_class(&pn)), pn, stage_json("updater-anchors", made)),
    }
}

/// Hand-made PCZTs from `Creator::new` (no builder): anchors present / absent / all-zero.
fn creator_probes(c: &mut Ctx) {
    use zcash_protocol::consensus::BranchId;
    let dummy = |c: &mut Ctx| make_dummy(c);
    let _ = dummy;
    for (branch, sa, oa) in [
        (BranchId::Nu6, Some([7u8; 32]), Some([9u8; 32])),
        (BranchId::Nu6_2, None, Some([9u8; 32])),
        (BranchId::Nu6_2, Some([7u8; 32]), None),
        (BranchId::Nu6_3, None, None),
        (BranchId::Nu6_3, Some([7u8; 32]), Some([9u8; 32])),
        (BranchId::Nu5, Some([0u8; 32]), Some([0u8; 32])),
        (BranchId::Nu6_3, Some([0u8; 32]), Some([0u8; 32])),
    ] {
        let Ok(mut cr) = Creator::new(branch.into(), 1_000_000, 133, sa, oa) else { continue };
        if branch == BranchId::Nu6_3 && oa == Some([0u8; 32]) {
            cr = cr.with_ironwood_anchor([0u8; 32]).expect("v6");
        }
        let Ok(p) = cr.build() else { continue };
        c.r.count("creator_new_probes", 1);
        let made = make_dummy(c);
        let mut made = made;
        made.p = p.clone();
        check_roundtrip(c, &p, &format!("creator-new:{branch:?}:anchors={}{}", anchor_kind(sa), anchor_kind(oa)), &made);
    }
}

/// Content that only the v2 encoding can carry, grafted into a v5 PCZT through the value tree
/// (no role can produce it): an Ironwood bundle that is not canonically empty, an Orchard bundle
/// with note version 3.
fn v5_with_v2_only_content(c: &mut Ctx) {
    use zcash_protocol::consensus::BranchId;
    let v6 = Creator::new(BranchId::Nu6_3.into(), 1_000_000, 133, Some([7; 32]), Some([9; 32]))
        .and_then(|cr| cr.with_ironwood_anchor([5; 32]))
        .and_then(|cr| cr.build());
    let v5 = Creator::new(BranchId::Nu6.into(), 1_000_000, 133, Some([7; 32]), Some([9; 32])).and_then(|cr| cr.build());
    let (Ok(v6), Ok(v5)) = (v6, v5) else { return };
    let (Ok(t6), Ok(t5)) = (tree(&v6), tree(&v5)) else { return };
    let made = make_dummy(c);
    // (1) Ironwood data in a v5 PCZT
    if let Some(iw) = get(&t6, "ironwood").cloned() {
        let mut t = t5.clone();
        if let Some(slot) = get_mut(&mut t, "ironwood") {
            *slot = iw;
        }
        if let Ok(p) = from_tree(&t) {
            let mut m = make_dummy(c);
            m.p = p.clone();
            c.r.count("v5_with_ironwood_data_probes", 1);
            check_roundtrip(c, &p, "probe:v5-with-ironwood-data", &m);
        }
    }
    // (2) Orchard note version 3 in a v5 PCZT
    {
        let mut t = t5.clone();
        if let Some(nv) = get_mut(&mut t, "orchard").and_then(|o| get_mut(o, "note_version")) {
            *nv = V::Text("V3".into());
        }
        if let Ok(p) = from_tree(&t) {
            let mut m = make_dummy(c);
            m.p = p.clone();
            c.r.count("v5_with_note_v3_probes", 1);
            check_roundtrip(c, &p, "probe:v5-with-orchard-note-v3", &m);
        }
    }
    let _ = made;
}

fn anchor_kind(a: Option<[u8; 32]>) -> &'static str {
    match a {
        None => "absent",
        Some(x) if x == [0u8; 32] => "zero",
        Some(_) => "set",
    }
}

fn make_dummy(c: &mut Ctx) -> Made {
    let mut rng = vh_common::rng(1, 1);
    loop {
        if let Some(m) = make(c, &mut rng, true, false) {
            return m;
        }
    }
}

fn main() {
    vh_common::install_panic_hook();
    let args = Args::parse();
    let r = Reporter::new("C13", &args);
    let mut rng = vh_common::rng(args.shard_seed(), 13);
    let mut wrng = vh_common::rng(args.shard_seed(), 1300);
    let mut c = Ctx {
        r,
        w: World::new(&mut wrng),
        sapling_prover: OnceLock::new(),
        pks: vec![],
        vks: vec![],
        txid_moved: false,
        fp0: None,
        foreign: String::new(),
    };
    let thorough = args.tier == Tier::Thorough;
    let ops = red_ops();
    let max_cases = args.get_u64("cases", if thorough { 2_000 } else { 200 });
    let real_cases = args.get_u64("real", if thorough { 12 } else { 1 });
    let real_share = if thorough { 0.4 } else { 0.5 };

    if args.shard == 0 {
        creator_probes(&mut c);
        v5_with_v2_only_content(&mut c);
    }
    if args.shard == 1 % args.nshards {
        empty_bundle_field_probes(&mut c);
    }
    let mut n = 0;
    while n < max_cases && c.r.frac_left() > real_share {
        n += 1;
        let deferred = rng.gen_bool(0.12);
        let Some(made) = make(&mut c, &mut rng, false, deferred) else {
            c.r.inconclusive("request-generator-gave-up");
            continue;
        };
        run_case(&mut c, &mut rng, made, false, &ops, thorough);
    }
    c.r.count("volume_cases", n);

    // really-proved sample: one Orchard circuit generation per shard
    let gens: [(u32, u32); 3] = [(H_NU5, H_NU6_2 - 1), (H_NU6_2, H_NU6_3 - 1), (H_NU6_3, 50_000)];
    let (lo, hi) = gens[(args.shard as usize + args.seed as usize) % 3];
    let mut done = 0;
    let mut tries = 0;
    while done < real_cases && tries < real_cases * 60 && c.r.time_left() {
        tries += 1;
        let deferred = lo >= H_NU6_3 && tries % 2 == 0;
        let Some(made) = make(&mut c, &mut rng, true, deferred) else { continue };
        if made.req.height < lo || made.req.height > hi {
            continue;
        }
        let shielded = !made.p.sapling().outputs().is_empty() || !made.p.sapling().spends().is_empty() || !made.p.orchard().actions().is_empty() || !made.p.ironwood().actions().is_empty();
        if !shielded {
            continue;
        }
        let before = c.r.counter("extracted_with_real_proofs");
        run_case(&mut c, &mut rng, made, true, &ops, thorough);
        if c.r.counter("extracted_with_real_proofs") > before {
            done += 1;
        }
    }
    c.r.count("real_proof_attempts", tries);
    c.r.finish();
}
