//! A generic value-tree view of a PCZT (its lossless v2 serde form routed through
//! `ciborium::Value`), and the oracles that work on it: field-wise union (what a Combiner
//! must produce), structural diff (what a role changed), v1-representability.
#![allow(dead_code)]

use ciborium::Value;
use pczt::Pczt;

pub fn tree(p: &Pczt) -> Result<Value, String> {
    let v2 = pczt::v2::Pczt::try_from(p.clone()).map_err(|e| format!("v2 encoding refused: {e:?}"))?;
    Value::serialized(&v2).map_err(|e| format!("value tree: {e}"))
}

/// Rebuilds a PCZT from a (possibly edited) tree, through the real v2 parser.
pub fn from_tree(v: &Value) -> Result<Pczt, String> {
    let v2: pczt::v2::Pczt = v.deserialized().map_err(|e| format!("deserialize: {e}"))?;
    Pczt::parse(&v2.serialize()).map_err(|e| format!("parse: {e:?}"))
}

fn key_str(k: &Value) -> String {
    match k {
        Value::Text(s) => s.clone(),
        Value::Integer(i) => format!("{}", i128::from(*i)),
        Value::Array(a) => format!(
            "[{}]",
            a.iter()
                .map(|x| match x {
                    Value::Integer(i) => format!("{:02x}", i128::from(*i) as u8),
                    _ => "?".into(),
                })
                .collect::<String>()
        ),
        other => format!("{other:?}"),
    }
}

pub fn get<'a>(v: &'a Value, key: &str) -> Option<&'a Value> {
    match v {
        Value::Map(m) => m.iter().find(|(k, _)| matches!(k, Value::Text(s) if s == key)).map(|(_, v)| v),
        _ => None,
    }
}

pub fn get_mut<'a>(v: &'a mut Value, key: &str) -> Option<&'a mut Value> {
    match v {
        Value::Map(m) => m.iter_mut().find(|(k, _)| matches!(k, Value::Text(s) if s == key)).map(|(_, v)| v),
        _ => None,
    }
}

pub fn idx_mut(v: &mut Value, i: usize) -> Option<&mut Value> {
    match v {
        Value::Array(a) => a.get_mut(i),
        _ => None,
    }
}

#[derive(Clone, Copy, Debug)]
pub enum Step<'s> {
    K(&'s str),
    I(usize),
}

pub fn at_mut<'a>(v: &'a mut Value, path: &[Step<'_>]) -> Option<&'a mut Value> {
    let mut cur = v;
    for s in path {
        cur = match s {
            Step::K(k) => get_mut(cur, k)?,
            Step::I(i) => idx_mut(cur, *i)?,
        };
    }
    Some(cur)
}

pub fn at<'a>(v: &'a Value, path: &[Step<'_>]) -> Option<&'a Value> {
    let mut cur = v;
    for s in path {
        cur = match s {
            Step::K(k) => get(cur, k)?,
            Step::I(i) => match cur {
                Value::Array(a) => a.get(*i)?,
                _ => return None,
            },
        };
    }
    Some(cur)
}

pub fn uint(n: u64) -> Value {
    Value::Integer(n.into())
}

pub fn as_u64(v: &Value) -> Option<u64> {
    match v {
        Value::Integer(i) => u64::try_from(i128::from(*i)).ok(),
        _ => None,
    }
}

pub fn arr_len(v: &Value) -> usize {
    match v {
        Value::Array(a) => a.len(),
        _ => 0,
    }
}

fn is_scalar_array(a: &[Value]) -> bool {
    a.iter().all(|x| matches!(x, Value::Integer(_)))
}

/// Field-wise union of two copies that describe the same transaction: a field absent (`null`,
/// or a key missing from a map) in one copy is taken from the other; a field present in both
/// must be equal. `tx_modifiable` merges bitwise as documented on `Global` (bits 0, 1, 7 towards
/// false, bit 2 towards true). `Err(path)` names the first conflicting field.
pub fn union(a: &Value, b: &Value, path: &str) -> Result<Value, String> {
    match (a, b) {
        (Value::Null, x) | (x, Value::Null) => Ok(x.clone()),
        (Value::Map(x), Value::Map(y)) => {
            let mut out: Vec<(Value, Value)> = vec![];
            for (k, va) in x {
                match y.iter().find(|(k2, _)| k2 == k) {
                    Some((_, vb)) => {
                        let ks = key_str(k);
                        let p = format!("{path}.{ks}");
                        if ks == "tx_modifiable" {
                            let (Value::Integer(ia), Value::Integer(ib)) = (va, vb) else {
                                return Err(p);
                            };
                            let (fa, fb) = (i128::from(*ia) as u8, i128::from(*ib) as u8);
                            if (fa | fb) & 0b0111_1000 != 0 {
                                return Err(p);
                            }
                            let and_bits = 0b1000_0011u8;
                            let merged = (fa & fb & and_bits) | ((fa | fb) & 0b0000_0100);
                            out.push((k.clone(), Value::Integer(merged.into())));
                        } else {
                            out.push((k.clone(), union(va, vb, &p)?));
                        }
                    }
                    None => out.push((k.clone(), va.clone())),
                }
            }
            for (k, vb) in y {
                if !x.iter().any(|(k2, _)| k2 == k) {
                    out.push((k.clone(), vb.clone()));
                }
            }
            // canonical order (BTreeMap order of the serialised form): sort by key encoding
            out.sort_by(|l, r| cmp_key(&l.0, &r.0));
            Ok(Value::Map(out))
        }
        (Value::Array(x), Value::Array(y)) => {
            if is_scalar_array(x) && is_scalar_array(y) {
                return if x == y { Ok(a.clone()) } else { Err(path.to_string()) };
            }
            if x.len() != y.len() {
                return Err(format!("{path}.len"));
            }
            let mut out = Vec::with_capacity(x.len());
            for (i, (va, vb)) in x.iter().zip(y.iter()).enumerate() {
                out.push(union(va, vb, &format!("{path}[{i}]"))?);
            }
            Ok(Value::Array(out))
        }
        (x, y) => {
            if x == y {
                Ok(x.clone())
            } else {
                Err(path.to_string())
            }
        }
    }
}

fn cmp_key(a: &Value, b: &Value) -> std::cmp::Ordering {
    match (a, b) {
        (Value::Text(x), Value::Text(y)) => x.cmp(y),
        (Value::Array(x), Value::Array(y)) => {
            let f = |v: &Vec<Value>| -> Vec<u8> {
                v.iter()
                    .map(|e| match e {
                        Value::Integer(i) => i128::from(*i) as u8,
                        _ => 0,
                    })
                    .collect()
            };
            f(x).cmp(&f(y))
        }
        _ => format!("{a:?}").cmp(&format!("{b:?}")),
    }
}

/// Struct maps keep declaration order when serialised while `union` sorts; compare
/// order-insensitively.
pub fn same(a: &Value, b: &Value) -> bool {
    match (a, b) {
        (Value::Map(x), Value::Map(y)) => {
            x.len() == y.len()
                && x.iter().all(|(k, va)| y.iter().find(|(k2, _)| k2 == k).is_some_and(|(_, vb)| same(va, vb)))
        }
        (Value::Array(x), Value::Array(y)) => x.len() == y.len() && x.iter().zip(y).all(|(p, q)| same(p, q)),
        _ => a == b,
    }
}

/// Paths at which two trees differ (at most `cap`).
pub fn diff(a: &Value, b: &Value, path: &str, out: &mut Vec<String>, cap: usize) {
    if out.len() >= cap {
        return;
    }
    match (a, b) {
        (Value::Map(x), Value::Map(y)) => {
            for (k, va) in x {
                let p = format!("{path}.{}", key_str(k));
                match y.iter().find(|(k2, _)| k2 == k) {
                    Some((_, vb)) => diff(va, vb, &p, out, cap),
                    None => out.push(format!("{p} (removed)")),
                }
            }
            for (k, _) in y {
                if !x.iter().any(|(k2, _)| k2 == k) {
                    out.push(format!("{path}.{} (added)", key_str(k)));
                }
            }
        }
        (Value::Array(x), Value::Array(y)) if !(is_scalar_array(x) && is_scalar_array(y)) || x.len() != y.len() => {
            if x.len() != y.len() {
                out.push(format!("{path}.len {}→{}", x.len(), y.len()));
                return;
            }
            for (i, (va, vb)) in x.iter().zip(y).enumerate() {
                diff(va, vb, &format!("{path}[{i}]"), out, cap);
            }
        }
        _ => {
            if a != b {
                let kind = match (a, b) {
                    (Value::Null, _) => " (set)",
                    (_, Value::Null) => " (cleared)",
                    _ => " (changed)",
                };
                out.push(format!("{path}{kind}"));
            }
        }
    }
}

/// Strips indices and map keys from a diff path: `.orchard.actions[2].spend.alpha (cleared)` →
/// `orchard.actions[].spend.alpha (cleared)` — usable in violation class signatures.
pub fn generic_path(p: &str) -> String {
    let mut s = String::new();
    let mut in_br = false;
    for ch in p.trim_start_matches('.').chars() {
        match ch {
            '[' => {
                in_br = true;
                s.push('[');
            }
            ']' => {
                in_br = false;
                s.push(']');
            }
            _ if in_br => {}
            _ => s.push(ch),
        }
    }
    s
}

// ---------------------------------------------------------------------------------------------
// v1 representability, decided from the tree alone
// ---------------------------------------------------------------------------------------------

/// Can the v1 encoding (no Ironwood slot, no v6, Orchard: mandatory `anchor`/`cv_net`/`cmx`,
/// encrypted ciphertext only, note version 2; Sapling: mandatory anchor when there are spends or
/// outputs... ) represent this content? Derived from the published v1 layout, not from the
/// encoder's control flow. Returns (representable, reason-if-not).
pub fn v1_representable(t: &Value) -> (bool, &'static str) {
    let g = get(t, "global").expect("global");
    let txv = match get(g, "tx_version") {
        Some(Value::Integer(i)) => i128::from(*i) as u32,
        _ => 0,
    };
    if txv == 6 {
        return (false, "tx-version-6");
    }
    if !matches!(get(t, "ironwood"), Some(Value::Null) | None) {
        return (false, "ironwood-not-empty");
    }
    if let Some(o) = get(t, "orchard") {
        if !matches!(o, Value::Null) {
            if !matches!(get(o, "note_version"), Some(Value::Text(s)) if s == "V2") {
                return (false, "orchard-note-version");
            }
            let n = get(o, "actions").map(arr_len).unwrap_or(0);
            if matches!(get(o, "anchor"), Some(Value::Null)) && n > 0 {
                return (false, "orchard-anchor-absent");
            }
            if let Some(Value::Array(acts)) = get(o, "actions") {
                for a in acts {
                    if matches!(get(a, "cv_net"), Some(Value::Null)) {
                        return (false, "orchard-cv_net-absent");
                    }
                    let out = get(a, "output").expect("output");
                    if matches!(get(out, "cmx"), Some(Value::Null)) {
                        return (false, "orchard-cmx-absent");
                    }
                    match get(out, "enc_ciphertext") {
                        Some(Value::Map(m)) if m.iter().any(|(k, _)| matches!(k, Value::Text(s) if s == "Encrypted")) => {}
                        _ => return (false, "orchard-memo-plaintext"),
                    }
                }
            }
        }
    }
    if let Some(s) = get(t, "sapling") {
        if !matches!(s, Value::Null) {
            let ns = get(s, "spends").map(arr_len).unwrap_or(0);
            let no = get(s, "outputs").map(arr_len).unwrap_or(0);
            if matches!(get(s, "anchor"), Some(Value::Null)) && ns > 0 {
                return (false, "sapling-anchor-absent");
            }
            let _ = no;
        }
    }
    (true, "")
}
