//! C07 — fee and change computation conserves value and pays the ZIP 317 fee.
//!
//! Two monitors:
//!
//! 1. `fee_required` (primitives `zip317::FeeRule`, standard and non-standard, and the
//!    backend's `StandardFeeRule::Zip317`) is compared with
//!    `marginal * max(grace, max(ceil(tin/insz), ceil(tout/outsz)) + max(s_in, s_out) + orchard + ironwood)`
//!    recomputed in u128.
//! 2. `ChangeStrategy::compute_balance` of `SingleOutputChangeStrategy` and
//!    `MultiOutputChangeStrategy` is fed harness-defined bundle views. For a returned balance
//!    the oracle checks, in u128 and from the *final shape* (requested outputs + returned
//!    change + padding): exact conservation, fee >= / == the ZIP 317 fee of that shape, the
//!    dust policy on every change output, and the post-NU6.3 Orchard turnstile. For
//!    `InsufficientFunds` it checks that the refusal is justified by some shape the strategy
//!    may legally produce.
//!
//! Padded bundle sizes come from the dependency crates (`sapling-crypto`, `orchard`), which are
//! trusted; everything else is recomputed here from the property statement.

use std::num::{NonZeroU32, NonZeroUsize};

use vh_common::rand::Rng;
use vh_common::rand_chacha::ChaCha20Rng;
use vh_common::{guard, json, panic_class, Args, Reporter, Value};

use orchard::builder::BundleType as OBundleType;
use orchard::bundle::BundleVersion;
use sapling::builder::BundleType as SBundleType;

use zcash_client_backend::data_api::anchor_retention::{AnchorRetentionInterval, PoolMigrationParams};
use zcash_client_backend::data_api::testing::MockWalletDb;
use zcash_client_backend::data_api::wallet::TargetHeight;
use zcash_client_backend::data_api::{AccountMeta, PoolMeta};
use zcash_client_backend::fees::zip317::{
    MultiOutputChangeStrategy, SingleOutputChangeStrategy, Zip317FeeRule as BackendZip317,
};
use zcash_client_backend::fees::{
    orchard as ofees, sapling as sfees, ChangeError, ChangeStrategy, DustAction, DustOutputPolicy,
    EphemeralBalance, SplitPolicy, StandardFeeRule, TransactionBalance, TransparentChangePolicy,
};
use zcash_primitives::transaction::fees::transparent::{InputSize, InputView, OutputView};
use zcash_primitives::transaction::fees::zip317::{FeeError, FeeRule as PrimRule};
use zcash_primitives::transaction::fees::FeeRule;
use zcash_protocol::consensus::{
    BlockHeight, NetworkType, NetworkUpgrade, Parameters, MAIN_NETWORK, TEST_NETWORK,
};
use zcash_protocol::local_consensus::LocalNetwork;
use zcash_protocol::memo::MemoBytes;
use zcash_protocol::value::{BalanceError, Zatoshis};
use zcash_protocol::{PoolType, ShieldedPool};
use zcash_transparent::address::{Script, TransparentAddress};
use zcash_transparent::bundle::{OutPoint, TxOut};

const MAX_MONEY: u128 = 21_000_000 * 100_000_000;

// ---------------------------------------------------------------------------------------------
// Case description (plain data; everything the call and the oracle need)
// ---------------------------------------------------------------------------------------------

#[derive(Clone, Copy, Debug, PartialEq, Eq, Hash)]
enum Pool {
    T,
    S,
    O,
    I,
}

#[derive(Clone, Debug, PartialEq, Eq)]
enum TSize {
    /// P2PKH script, trait-default `serialized_size` (must come out as 150).
    P2pkhDefault,
    /// P2SH script, trait-default `serialized_size` (must come out as Unknown).
    P2shDefault,
    /// The view reports this size itself.
    Known(usize),
    /// The view reports an unknown size.
    Unknown,
}

#[derive(Clone, Debug)]
struct TIn {
    value: u64,
    size: TSize,
}

#[derive(Clone, Debug)]
struct TOut {
    value: u64,
    script_len: usize,
}

#[derive(Clone, Copy, Debug)]
enum NetSpec {
    Main,
    Test,
    /// nu5 activation, nu6.3 activation (None = never).
    Local(u32, Option<u32>),
}

#[derive(Clone, Copy, Debug)]
enum RuleSpec {
    /// `zcash_client_backend::fees::StandardFeeRule::Zip317`
    Standard,
    /// `zcash_primitives::...::zip317::FeeRule::standard()`
    PrimStandard,
    /// `FeeRule::non_standard(marginal, grace, in_size, out_size)`
    NonStd(u64, usize, usize, usize),
}

#[derive(Clone, Debug)]
struct Multi {
    target: usize,
    min_split: Option<u64>, // None only with target == 1 (`SplitPolicy::single_output()`)
    meta: [Option<(usize, u64)>; 3], // sapling, orchard, ironwood
}

#[derive(Clone, Debug)]
struct Case {
    net: NetSpec,
    target: u32,
    anchor: u32,
    interval: u32,
    t_in: Vec<TIn>,
    t_out: Vec<TOut>,
    s_in: Vec<u64>,
    s_out: Vec<u64>,
    s_required: bool,
    o_in: Vec<u64>,
    o_out: Vec<u64>,
    o_ver: u8,
    i_in: Vec<u64>,
    i_out: Vec<u64>,
    /// (is_input, value)
    eph: Option<(bool, u64)>,
    multi: Option<Multi>,
    rule: RuleSpec,
    fallback: Pool,
    dust_action: u8, // 0 Reject, 1 AllowDustChange, 2 AddDustToFee
    dust_threshold: Option<u64>,
    memo: bool,
    tcp_allowed: bool,
    /// How the input total was placed (generator bookkeeping; part of the evidence signature).
    placement: &'static str,
}

impl Case {
    fn to_json(&self) -> Value {
        json!({
            "net": match self.net { NetSpec::Main => json!("main"), NetSpec::Test => json!("test"),
                NetSpec::Local(a, b) => json!({"local_nu5": a, "local_nu6_3": b}) },
            "target_height": self.target, "anchor_height": self.anchor, "anchor_interval": self.interval,
            "t_in": self.t_in.iter().map(|i| json!({"value": i.value, "size": format!("{:?}", i.size)})).collect::<Vec<_>>(),
            "t_out": self.t_out.iter().map(|o| json!({"value": o.value, "script_len": o.script_len})).collect::<Vec<_>>(),
            "sapling_in": self.s_in, "sapling_out": self.s_out, "sapling_bundle_required": self.s_required,
            "orchard_in": self.o_in, "orchard_out": self.o_out, "orchard_bundle_version": self.o_ver,
            "ironwood_in": self.i_in, "ironwood_out": self.i_out,
            "ephemeral": self.eph.map(|(inp, v)| json!({"is_input": inp, "value": v})),
            "strategy": match &self.multi { None => json!("single"),
                Some(m) => json!({"multi_target": m.target, "min_split": m.min_split,
                    "meta_sapling": m.meta[0], "meta_orchard": m.meta[1], "meta_ironwood": m.meta[2]}) },
            "rule": format!("{:?}", self.rule),
            "fallback": format!("{:?}", self.fallback),
            "dust_action": (["Reject", "AllowDustChange", "AddDustToFee"][self.dust_action as usize]),
            "dust_threshold": self.dust_threshold,
            "change_memo": self.memo,
            "transparent_change_allowed": self.tcp_allowed,
            "placement": self.placement,
        })
    }
}

// ---------------------------------------------------------------------------------------------
// Harness-defined views
// ---------------------------------------------------------------------------------------------

#[derive(Debug)]
struct DefIn {
    outpoint: OutPoint,
    coin: TxOut,
}
impl InputView for DefIn {
    fn outpoint(&self) -> &OutPoint {
        &self.outpoint
    }
    fn coin(&self) -> &TxOut {
        &self.coin
    }
}

#[derive(Debug)]
struct HIn {
    inner: DefIn,
    size: Option<InputSize>,
}
impl InputView for HIn {
    fn outpoint(&self) -> &OutPoint {
        &self.inner.outpoint
    }
    fn coin(&self) -> &TxOut {
        &self.inner.coin
    }
    fn serialized_size(&self) -> InputSize {
        match &self.size {
            Some(s) => s.clone(),
            None => self.inner.serialized_size(),
        }
    }
}

#[derive(Debug)]
struct HOut {
    value: Zatoshis,
    script: Script,
}
impl OutputView for HOut {
    fn value(&self) -> Zatoshis {
        self.value
    }
    fn script_pubkey(&self) -> &Script {
        &self.script
    }
}

struct Note {
    id: u32,
    value: Zatoshis,
}
impl sfees::InputView<u32> for Note {
    fn note_id(&self) -> &u32 {
        &self.id
    }
    fn value(&self) -> Zatoshis {
        self.value
    }
}
impl ofees::InputView<u32> for Note {
    fn note_id(&self) -> &u32 {
        &self.id
    }
    fn value(&self) -> Zatoshis {
        self.value
    }
}

struct Pay(Zatoshis);
impl sfees::OutputView for Pay {
    fn value(&self) -> Zatoshis {
        self.0
    }
}
impl ofees::OutputView for Pay {
    fn value(&self) -> Zatoshis {
        self.0
    }
}

struct SView {
    bt: SBundleType,
    ins: Vec<Note>,
    outs: Vec<Pay>,
}
impl sfees::BundleView<u32> for SView {
    type In = Note;
    type Out = Pay;
    fn bundle_type(&self) -> SBundleType {
        self.bt
    }
    fn inputs(&self) -> &[Note] {
        &self.ins
    }
    fn outputs(&self) -> &[Pay] {
        &self.outs
    }
}

struct OView {
    ver: BundleVersion,
    ins: Vec<Note>,
    outs: Vec<Pay>,
}
impl ofees::BundleView<u32> for OView {
    type In = Note;
    type Out = Pay;
    fn bundle_version(&self) -> BundleVersion {
        self.ver
    }
    fn inputs(&self) -> &[Note] {
        &self.ins
    }
    fn outputs(&self) -> &[Pay] {
        &self.outs
    }
}

#[derive(Clone, Copy, Debug)]
enum Net {
    Main,
    Test,
    Local(LocalNetwork),
}
impl Parameters for Net {
    fn network_type(&self) -> NetworkType {
        match self {
            Net::Main => NetworkType::Main,
            Net::Test => NetworkType::Test,
            Net::Local(_) => NetworkType::Regtest,
        }
    }
    fn activation_height(&self, nu: NetworkUpgrade) -> Option<BlockHeight> {
        match self {
            Net::Main => MAIN_NETWORK.activation_height(nu),
            Net::Test => TEST_NETWORK.activation_height(nu),
            Net::Local(l) => l.activation_height(nu),
        }
    }
}

fn zat(v: u64) -> Zatoshis {
    Zatoshis::from_u64(v).expect("generator keeps every single value <= MAX_MONEY")
}

fn o_version(v: u8) -> BundleVersion {
    match v {
        1 => BundleVersion::orchard_insecure_v1(),
        2 => BundleVersion::orchard_v2(),
        _ => BundleVersion::orchard_v3(),
    }
}

fn make_net(n: NetSpec) -> Net {
    match n {
        NetSpec::Main => Net::Main,
        NetSpec::Test => Net::Test,
        NetSpec::Local(nu5, nu63) => {
            let one = Some(BlockHeight::from_u32(1));
            let h5 = Some(BlockHeight::from_u32(nu5));
            // NU6 .. NU6.2 sit between NU5 and NU6.3 (or at NU5 when NU6.3 is never active).
            let mid = h5;
            Net::Local(LocalNetwork {
                overwinter: one,
                sapling: one,
                blossom: one,
                heartwood: one,
                canopy: one,
                nu5: h5,
                nu6: mid,
                nu6_1: mid,
                nu6_2: mid,
                nu6_3: nu63.map(BlockHeight::from_u32),
            })
        }
    }
}

fn shielded_pool(p: Pool) -> ShieldedPool {
    match p {
        Pool::S => ShieldedPool::Sapling,
        Pool::O => ShieldedPool::Orchard,
        _ => ShieldedPool::Ironwood,
    }
}

type Outcome = Result<TransactionBalance, ChangeError<FeeError, u32>>;

/// Builds the views and calls the real `compute_balance`.
fn call_real(c: &Case) -> Outcome {
    let net = make_net(c.net);
    let p2pkh: Script = TransparentAddress::PublicKeyHash([7u8; 20]).script().into();
    let p2sh: Script = TransparentAddress::ScriptHash([9u8; 20]).script().into();
    let t_in: Vec<HIn> = c
        .t_in
        .iter()
        .enumerate()
        .map(|(n, i)| {
            let outpoint = OutPoint::new([0x11; 32], n as u32);
            let (script, size) = match &i.size {
                TSize::P2pkhDefault => (p2pkh.clone(), None),
                TSize::P2shDefault => (p2sh.clone(), None),
                TSize::Known(s) => (p2sh.clone(), Some(InputSize::Known(*s))),
                TSize::Unknown => (p2pkh.clone(), Some(InputSize::Unknown(outpoint.clone()))),
            };
            HIn {
                inner: DefIn {
                    outpoint,
                    coin: TxOut::new(zat(i.value), script),
                },
                size,
            }
        })
        .collect();
    let t_out: Vec<HOut> = c
        .t_out
        .iter()
        .map(|o| HOut {
            value: zat(o.value),
            script: Script(zcash_script::script::Code(vec![0x51; o.script_len])),
        })
        .collect();
    let notes = |vs: &[u64], base: u32| -> Vec<Note> {
        vs.iter()
            .enumerate()
            .map(|(n, v)| Note {
                id: base + n as u32,
                value: zat(*v),
            })
            .collect()
    };
    let pays = |vs: &[u64]| -> Vec<Pay> { vs.iter().map(|v| Pay(zat(*v))).collect() };
    let sv = SView {
        bt: SBundleType::Transactional {
            bundle_required: c.s_required,
        },
        ins: notes(&c.s_in, 1000),
        outs: pays(&c.s_out),
    };
    let ov = OView {
        ver: o_version(c.o_ver),
        ins: notes(&c.o_in, 2000),
        outs: pays(&c.o_out),
    };
    let iv = OView {
        ver: BundleVersion::ironwood_v3(),
        ins: notes(&c.i_in, 3000),
        outs: pays(&c.i_out),
    };
    let eph = c.eph.map(|(inp, v)| {
        if inp {
            EphemeralBalance::Input(zat(v))
        } else {
            EphemeralBalance::Output(zat(v))
        }
    });
    let zip318 = PoolMigrationParams::new(if c.interval == 144 {
        AnchorRetentionInterval::ZIP_318
    } else {
        AnchorRetentionInterval::custom(NonZeroU32::new(c.interval).expect("interval > 0"))
    });
    let dust = DustOutputPolicy::new(
        [DustAction::Reject, DustAction::AllowDustChange, DustAction::AddDustToFee][c.dust_action as usize],
        c.dust_threshold.map(zat),
    );
    let memo = c.memo.then(|| MemoBytes::from_bytes(b"c07 change memo").expect("short memo"));
    let tcp = if c.tcp_allowed {
        TransparentChangePolicy::TransparentChangeAllowed
    } else {
        TransparentChangePolicy::ShieldChange
    };
    let th = TargetHeight::from(c.target);
    let ah = BlockHeight::from_u32(c.anchor);
    let fb = shielded_pool(c.fallback);

    fn go<R>(
        rule: R,
        c: &Case,
        net: &Net,
        th: TargetHeight,
        ah: BlockHeight,
        zip318: &PoolMigrationParams,
        t_in: &[HIn],
        t_out: &[HOut],
        sv: &SView,
        ov: &OView,
        iv: &OView,
        eph: Option<EphemeralBalance>,
        memo: Option<MemoBytes>,
        fb: ShieldedPool,
        dust: DustOutputPolicy,
        tcp: TransparentChangePolicy,
    ) -> Outcome
    where
        R: BackendZip317 + FeeRule<Error = FeeError> + Clone,
    {
        match &c.multi {
            None => SingleOutputChangeStrategy::<R, MockWalletDb>::new(rule, memo, fb, dust)
                .with_transparent_change_policy(tcp)
                .compute_balance::<_, u32>(net, th, ah, zip318, t_in, t_out, sv, ov, iv, eph, &()),
            Some(m) => {
                let split = match m.min_split {
                    None => SplitPolicy::single_output(),
                    Some(v) => SplitPolicy::with_min_output_value(
                        NonZeroUsize::new(m.target).expect("target > 0"),
                        zat(v),
                    ),
                };
                let pm = |x: Option<(usize, u64)>| x.map(|(n, v)| PoolMeta::new(n, zat(v)));
                let meta = AccountMeta::new(pm(m.meta[0]), pm(m.meta[1]), pm(m.meta[2]));
                MultiOutputChangeStrategy::<R, MockWalletDb>::new(rule, memo, fb, dust, split)
                    .with_transparent_change_policy(tcp)
                    .compute_balance::<_, u32>(net, th, ah, zip318, t_in, t_out, sv, ov, iv, eph, &meta)
            }
        }
    }

    match c.rule {
        RuleSpec::Standard => go(
            StandardFeeRule::Zip317, c, &net, th, ah, &zip318, &t_in, &t_out, &sv, &ov, &iv, eph, memo, fb, dust, tcp,
        ),
        RuleSpec::PrimStandard => go(
            PrimRule::standard(), c, &net, th, ah, &zip318, &t_in, &t_out, &sv, &ov, &iv, eph, memo, fb, dust, tcp,
        ),
        RuleSpec::NonStd(m, g, a, b) => go(
            PrimRule::non_standard(zat(m), g, a, b).expect("non-zero sizes"),
            c, &net, th, ah, &zip318, &t_in, &t_out, &sv, &ov, &iv, eph, memo, fb, dust, tcp,
        ),
    }
}

// ---------------------------------------------------------------------------------------------
// Independent oracle
// ---------------------------------------------------------------------------------------------

#[derive(Clone, Copy, Debug)]
struct RuleP {
    marginal: u128,
    grace: u128,
    insz: u128,
    outsz: u128,
}

fn rule_params(r: RuleSpec) -> RuleP {
    match r {
        // ZIP 317: marginal_fee 5000, grace_actions 2, p2pkh_standard_input_size 150, output 34.
        RuleSpec::Standard | RuleSpec::PrimStandard => RuleP {
            marginal: 5000,
            grace: 2,
            insz: 150,
            outsz: 34,
        },
        RuleSpec::NonStd(m, g, a, b) => RuleP {
            marginal: m as u128,
            grace: g as u128,
            insz: a as u128,
            outsz: b as u128,
        },
    }
}

fn ceil_div(a: u128, b: u128) -> u128 {
    (a + b - 1) / b
}

fn zip317(rp: &RuleP, tin: u128, tout: u128, s_sp: u128, s_out: u128, o: u128, i: u128) -> u128 {
    let logical = ceil_div(tin, rp.insz).max(ceil_div(tout, rp.outsz)) + s_sp.max(s_out) + o + i;
    rp.marginal * rp.grace.max(logical)
}

fn compact_size_len(n: usize) -> usize {
    if n < 253 {
        1
    } else if n <= 0xffff {
        3
    } else if n <= 0xffff_ffff {
        5
    } else {
        9
    }
}

/// ZIP 318 canonical denomination: {1,2,5}*10^k within [0.01 ZEC, 10 000 ZEC].
fn canonical_denomination(v: u64) -> bool {
    if !(1_000_000..=1_000_000_000_000).contains(&v) {
        return false;
    }
    let mut n = v;
    while n % 10 == 0 {
        n /= 10;
    }
    matches!(n, 1 | 2 | 5)
}

/// Number of change outputs per pool (transparent change excludes the ephemeral output).
#[derive(Clone, Copy, Debug, Default, PartialEq, Eq, Hash)]
struct Chg {
    t: usize,
    s: usize,
    o: usize,
    i: usize,
}

impl Chg {
    fn of(p: Pool, k: usize) -> Chg {
        let mut c = Chg::default();
        match p {
            Pool::T => c.t = k,
            Pool::S => c.s = k,
            Pool::O => c.o = k,
            Pool::I => c.i = k,
        }
        c
    }
}

#[derive(Clone, Copy, Debug)]
struct Shape {
    fee: u128,
    s_out: usize,
    o_act: usize,
    i_act: usize,
    canonical: bool,
}

struct Orc<'a> {
    c: &'a Case,
    rp: RuleP,
    post: bool,
    tin_total: Option<u128>,
    tout_req: u128,
    sum_in: u128,
    /// requested outputs, ephemeral output excluded
    sum_out_req: u128,
    eph_out: u128,
    o_in: u128,
    o_out: u128,
    fully_transparent: bool,
    wants_t: bool,
    thr: u128,
    split_target: usize,
    overflow: bool,
}

impl<'a> Orc<'a> {
    fn new(c: &'a Case) -> Self {
        let rp = rule_params(c.rule);
        let nu63 = match c.net {
            NetSpec::Local(_, h) => h,
            // Trusted: the activation tables of zcash_protocol (not part of this property).
            NetSpec::Main => MAIN_NETWORK.activation_height(NetworkUpgrade::Nu6_3).map(u32::from),
            NetSpec::Test => TEST_NETWORK.activation_height(NetworkUpgrade::Nu6_3).map(u32::from),
        };
        let post = nu63.is_some_and(|h| c.target >= h);
        let mut tin_total = Some(0u128);
        for i in &c.t_in {
            let s = match i.size {
                TSize::P2pkhDefault => Some(150),
                TSize::Known(s) => Some(s as u128),
                TSize::P2shDefault | TSize::Unknown => None,
            };
            tin_total = match (tin_total, s) {
                (Some(a), Some(b)) => Some(a + b),
                _ => None,
            };
        }
        let tout_req: u128 = c
            .t_out
            .iter()
            .map(|o| (8 + compact_size_len(o.script_len) + o.script_len) as u128)
            .sum();
        let s = |v: &[u64]| v.iter().map(|x| *x as u128).sum::<u128>();
        let t_in_v: u128 = c.t_in.iter().map(|i| i.value as u128).sum();
        let t_out_v: u128 = c.t_out.iter().map(|o| o.value as u128).sum();
        let (eph_in, eph_out) = match c.eph {
            Some((true, v)) => (v as u128, 0),
            Some((false, v)) => (0, v as u128),
            None => (0, 0),
        };
        let sums = [
            t_in_v + eph_in,
            t_out_v + eph_out,
            s(&c.s_in),
            s(&c.s_out),
            s(&c.o_in),
            s(&c.o_out),
            s(&c.i_in),
            s(&c.i_out),
        ];
        let sum_in = sums[0] + sums[2] + sums[4] + sums[6];
        let sum_out = sums[1] + sums[3] + sums[5] + sums[7];
        let overflow = sums.iter().any(|x| *x > MAX_MONEY) || sum_in > MAX_MONEY || sum_out > MAX_MONEY;
        let shielded_value = sums[2..].iter().any(|x| *x > 0);
        // The change memo is dropped in the step that spends the ephemeral output.
        let memo_eff = c.memo && !matches!(c.eph, Some((true, _)));
        let fully_transparent = !shielded_value && !memo_eff;
        let wants_t = fully_transparent && c.tcp_allowed;
        let thr = c.dust_threshold.map(|v| v as u128).unwrap_or(rp.marginal);
        let split_target = c.multi.as_ref().map(|m| m.target).unwrap_or(1);
        Orc {
            c,
            rp,
            post,
            tin_total,
            tout_req,
            sum_in,
            sum_out_req: sum_out - eph_out,
            eph_out,
            o_in: sums[4],
            o_out: sums[5],
            fully_transparent,
            wants_t,
            thr,
            split_target,
            overflow,
        }
    }

    fn sum_out(&self) -> u128 {
        self.sum_out_req + self.eph_out
    }

    /// The documented canonical-crossing rule (a ZIP 318 migration-transfer look-alike): one
    /// Orchard spend, no Ironwood spend, a single Ironwood output of canonical denomination, no
    /// Ironwood change, at most one Orchard change output, no change in any other pool (the
    /// ephemeral output is transparent change), anchor on the bucket grid.
    fn canonical(&self, chg: Chg) -> bool {
        let c = self.c;
        let eph_out = matches!(c.eph, Some((false, _))) as usize;
        c.o_in.len() == 1
            && c.i_in.is_empty()
            && chg.i == 0
            && chg.o <= 1
            && chg.s == 0
            && chg.t + eph_out == 0
            && c.i_out.len() == 1
            && canonical_denomination(c.i_out[0])
            && c.anchor % c.interval == 0
    }

    /// ZIP 317 fee of the shape "request + `chg` change outputs", Ironwood padded per `unpadded`.
    fn shape_with(&self, chg: Chg, unpadded: bool) -> Option<Shape> {
        let c = self.c;
        let (eph_in, eph_out) = match c.eph {
            Some((true, _)) => (1u128, 0u128),
            Some((false, _)) => (0, 1),
            None => (0, 0),
        };
        let tin = self.tin_total? + 150 * eph_in;
        let tout = self.tout_req + 34 * (chg.t as u128) + 34 * eph_out;
        let sbt = SBundleType::Transactional {
            bundle_required: c.s_required,
        };
        let s_sp = sbt.num_spends(c.s_in.len()).ok()?;
        let s_out = sbt.num_outputs(c.s_in.len(), c.s_out.len() + chg.s).ok()?;
        let o_act = OBundleType::DEFAULT
            .num_actions(o_version(c.o_ver).default_flags(), c.o_in.len(), c.o_out.len() + chg.o)
            .ok()?;
        let ibt = if unpadded {
            OBundleType::UNPADDED
        } else {
            OBundleType::DEFAULT
        };
        let i_act = ibt
            .num_actions(
                BundleVersion::ironwood_v3().default_flags(),
                c.i_in.len(),
                c.i_out.len() + chg.i,
            )
            .ok()?;
        Some(Shape {
            fee: zip317(&self.rp, tin, tout, s_sp as u128, s_out as u128, o_act as u128, i_act as u128),
            s_out,
            o_act,
            i_act,
            canonical: unpadded,
        })
    }

    fn shape(&self, chg: Chg) -> Option<Shape> {
        self.shape_with(chg, self.canonical(chg))
    }

    /// With-change shapes the strategy may legally produce: one transparent change output when
    /// the flows are fully transparent and the policy allows it, otherwise 1..=target outputs in
    /// one shielded pool.
    fn candidates(&self) -> Vec<Chg> {
        if self.wants_t {
            vec![Chg::of(Pool::T, 1)]
        } else {
            let mut v = vec![];
            for p in [Pool::S, Pool::O, Pool::I] {
                for k in 1..=self.split_target {
                    v.push(Chg::of(p, k));
                }
            }
            v
        }
    }
}

// ---------------------------------------------------------------------------------------------
// Checks
// ---------------------------------------------------------------------------------------------

struct Ctx {
    r: Reporter,
}

impl Ctx {
    fn viol(&mut self, sig: &str, detail: String, c: &Case, outcome: &str) {
        self.r.violation(
            sig,
            detail,
            json!({"case": c.to_json(), "outcome": outcome}),
        );
    }
}

fn pool_of(p: PoolType) -> Pool {
    match p {
        PoolType::Transparent => Pool::T,
        PoolType::Shielded(ShieldedPool::Sapling) => Pool::S,
        PoolType::Shielded(ShieldedPool::Orchard) => Pool::O,
        PoolType::Shielded(ShieldedPool::Ironwood) => Pool::I,
    }
}

/// Result classification used for the evidence signature.
#[derive(Hash, Debug, Clone, PartialEq, Eq)]
enum Branch {
    OkNoChange,
    OkExact,
    OkZeroChange,
    OkDustFolded,
    OkDustKept,
    OkNormal,
    InsufficientMin,
    InsufficientWithChange,
    InsufficientDust,
    DustInputs,
    StrategyError,
    Other,
}

/// Compact rendering of a balance (memos are 512 bytes in Debug form).
fn show_balance(b: &TransactionBalance) -> String {
    let ch: Vec<String> = b
        .proposed_change()
        .iter()
        .map(|cv| {
            format!(
                "{}{:?}:{}{}",
                if cv.is_ephemeral() { "ephemeral-" } else { "" },
                pool_of(cv.output_pool()),
                u64::from(cv.value()),
                if cv.memo().is_some() { "+memo" } else { "" }
            )
        })
        .collect();
    format!(
        "Ok(change=[{}], fee={}, dummy_outputs={})",
        ch.join(", "),
        u64::from(b.fee_required()),
        match b.dummy_outputs() {
            Some(d) => format!("(sapling {}, orchard {}, ironwood {})", d.sapling(), d.orchard(), d.ironwood()),
            None => "None".into(),
        }
    )
}

fn check_ok(x: &mut Ctx, c: &Case, o: &Orc, b: &TransactionBalance) -> (Branch, Chg) {
    let out_s = show_balance(b);
    let fee = u64::from(b.fee_required()) as u128;
    let mut chg = Chg::default();
    let mut chg_sum = 0u128;
    let mut o_chg = 0u128;
    let mut vals: Vec<(Pool, u128)> = vec![];
    for cv in b.proposed_change() {
        let v = u64::from(cv.value()) as u128;
        chg_sum += v;
        if cv.is_ephemeral() {
            continue;
        }
        let p = pool_of(cv.output_pool());
        match p {
            Pool::T => chg.t += 1,
            Pool::S => chg.s += 1,
            Pool::O => {
                chg.o += 1;
                o_chg += v;
            }
            Pool::I => chg.i += 1,
        }
        vals.push((p, v));
    }
    let n_change = vals.len();

    // (1) conservation: inputs == requested outputs + change (incl. the ephemeral output) + fee
    if o.sum_in != o.sum_out_req + chg_sum + fee {
        x.viol(
            "C07:balance:conservation",
            format!(
                "inputs {} != requested outputs {} + proposed change {} + fee {}",
                o.sum_in, o.sum_out_req, chg_sum, fee
            ),
            c,
            &out_s,
        );
    }
    if u64::from(b.total()) as u128 != chg_sum + fee {
        x.viol(
            "C07:balance:total-mismatch",
            format!("total() = {} but change {} + fee {}", u64::from(b.total()), chg_sum, fee),
            c,
            &out_s,
        );
    }

    // (2) fee vs the final shape
    let mut branch = Branch::OkNormal;
    if o.tin_total.is_none() {
        x.r.count("ok_with_unknown_input_size", 1);
    } else if let Some(fin) = o.shape(chg) {
        // The shape the builder will produce: real outputs + the dummy outputs the balance records.
        let rec = b.dummy_outputs();
        let (rs, ro, ri) = match rec {
            Some(d) => (
                c.s_out.len() + chg.s + d.sapling(),
                c.o_out.len() + chg.o + d.orchard(),
                c.i_out.len() + chg.i + d.ironwood(),
            ),
            None => (fin.s_out, fin.o_act, fin.i_act),
        };
        if (rs, ro, ri) != (fin.s_out, fin.o_act, fin.i_act) {
            let which = if ri != fin.i_act {
                "ironwood"
            } else if ro != fin.o_act {
                "orchard"
            } else {
                "sapling"
            };
            x.viol(
                &format!("C07:balance:recorded-padding-not-the-final-shape:{which}"),
                format!(
                    "recorded padded sizes (sapling outputs, orchard actions, ironwood actions) = {:?}, the final shape (canonical crossing = {}) has {:?}",
                    (rs, ro, ri), fin.canonical, (fin.s_out, fin.o_act, fin.i_act)
                ),
                c,
                &out_s,
            );
        }
        // fee of the recorded shape (what the builder will actually build)
        let (eph_in, eph_out) = match c.eph {
            Some((true, _)) => (1u128, 0u128),
            Some((false, _)) => (0, 1),
            None => (0, 0),
        };
        let sbt = SBundleType::Transactional {
            bundle_required: c.s_required,
        };
        let s_sp = sbt.num_spends(c.s_in.len()).unwrap_or(0) as u128;
        let fee_rec = zip317(
            &o.rp,
            o.tin_total.unwrap() + 150 * eph_in,
            o.tout_req + 34 * (chg.t as u128) + 34 * eph_out,
            s_sp,
            rs as u128,
            ro as u128,
            ri as u128,
        );
        if fin.canonical {
            x.r.count("ok_canonical_crossing_unpadded", 1);
        }
        if fee < fee_rec {
            // The one situation in which the fee model and the recorded shape are computed from
            // different change manifests: an ephemeral output beside an otherwise canonical crossing.
            let core = c.o_in.len() == 1
                && c.i_in.is_empty()
                && c.i_out.len() == 1
                && canonical_denomination(c.i_out[0])
                && c.anchor % c.interval == 0
                && chg.i == 0
                && chg.o <= 1
                && chg.s == 0
                && chg.t == 0;
            let suffix = if eph_out == 1 && core {
                ":canonical-crossing-with-ephemeral-output"
            } else {
                ""
            };
            x.viol(
                &format!("C07:balance:fee-below-final-shape{suffix}"),
                format!("fee {fee} < ZIP 317 fee {fee_rec} of the final shape (change {chg:?}, padded sizes {:?})", (rs, ro, ri)),
                c,
                &out_s,
            );
        } else if fee > fee_rec {
            // Only legitimate when dust was deliberately folded into the fee: policy AddDustToFee,
            // no value left in change, and for some legal with-change shape the would-be change
            // is below the dust threshold.
            let folded = c.dust_action == 2
                && vals.iter().all(|(_, v)| *v == 0)
                && o.candidates().iter().any(|k| {
                    o.shape(*k).is_some_and(|s| {
                        let need = o.sum_out() + s.fee;
                        o.sum_in >= need && o.sum_in - need < o.thr
                    })
                });
            if folded {
                branch = Branch::OkDustFolded;
            } else {
                let exact_with_phantom_output = o.wants_t
                    && chg.t == 0
                    && o.shape(Chg::of(Pool::T, 1)).is_some_and(|s| s.fee == fee && o.sum_in == o.sum_out() + s.fee);
                let suffix = if exact_with_phantom_output {
                    ":zero-transparent-change-omitted"
                } else if c.dust_action == 2 {
                    ":add-dust-to-fee-above-threshold"
                } else {
                    ""
                };
                x.viol(
                    &format!("C07:balance:fee-exceeds-final-shape-without-dust-folding{suffix}"),
                    format!("fee {fee} > ZIP 317 fee {fee_rec} of the final shape (change {chg:?}) and no dust fold explains it (threshold {})", o.thr),
                    c,
                    &out_s,
                );
            }
        } else {
            x.r.count("ok_fee_exact", 1);
            if n_change == 0 {
                branch = if o.sum_in == o.sum_out() + fee_rec {
                    Branch::OkExact
                } else {
                    Branch::OkNoChange
                };
            } else if vals.iter().all(|(_, v)| *v == 0) {
                branch = Branch::OkZeroChange;
            }
        }
    } else {
        x.r.inconclusive("oracle-shape-unavailable");
    }

    // (3) dust: no change output below the threshold unless the policy allows it
    // (zero-valued change is documented as always allowed).
    for (p, v) in &vals {
        if *v > 0 && *v < o.thr {
            match c.dust_action {
                0 => {
                    let total: u128 = vals.iter().map(|v| v.1).sum();
                    let kind = if n_change == 1 {
                        "single-output"
                    } else if total >= o.thr {
                        "split-output-while-total-change-reaches-threshold"
                    } else {
                        "split-output-total-below-threshold"
                    };
                    x.viol(
                        &format!("C07:balance:dust-change-under-reject-policy:{kind}"),
                        format!("change output {v} in {p:?} is below the dust threshold {} under DustAction::Reject ({n_change} change outputs)", o.thr),
                        c,
                        &out_s,
                    );
                }
                1 => {
                    x.r.count("ok_dust_change_allowed", 1);
                    if branch == Branch::OkNormal {
                        branch = Branch::OkDustKept;
                    }
                }
                _ => {
                    x.r.count("ok_dust_change_kept_under_add_to_fee", 1);
                    if branch == Branch::OkNormal {
                        branch = Branch::OkDustKept;
                    }
                }
            }
        }
    }

    // (4) turnstile: after NU6.3 the Orchard pool never gains value (unless the request itself
    // already asks for more Orchard output value than it spends).
    if o.post {
        x.r.count("ok_post_nu6_3", 1);
        if chg.o > 0 {
            x.r.count("ok_orchard_change_post_nu6_3", 1);
        }
        if (!c.o_in.is_empty() || !c.o_out.is_empty() || c.fallback == Pool::O) && chg.i > 0 {
            x.r.count("ok_ironwood_change_where_orchard_was_preferred", 1);
        }
        if o.o_out <= o.o_in && o.o_out + o_chg > o.o_in {
            let kind = if o_chg > o.o_in {
                "change-exceeds-orchard-inputs"
            } else {
                "requested-orchard-outputs-plus-change-exceed-orchard-inputs"
            };
            x.viol(
                &format!("C07:turnstile:orchard-pool-gains-value:{kind}"),
                format!(
                    "NU6.3 active at target height: orchard inputs {} < orchard outputs {} + orchard change {}",
                    o.o_in, o.o_out, o_chg
                ),
                c,
                &out_s,
            );
        }
    } else {
        x.r.count("ok_pre_nu6_3", 1);
    }

    // bookkeeping
    for (p, n) in [(Pool::T, chg.t), (Pool::S, chg.s), (Pool::O, chg.o), (Pool::I, chg.i)] {
        if n > 0 {
            x.r.count(
                match p {
                    Pool::T => "ok_change_transparent",
                    Pool::S => "ok_change_sapling",
                    Pool::O => "ok_change_orchard",
                    Pool::I => "ok_change_ironwood",
                },
                1,
            );
        }
    }
    if n_change > 1 {
        x.r.count("ok_split_change", 1);
        x.r.set_max("max_change_outputs", n_change as u64);
        if n_change < o.split_target {
            x.r.count("ok_split_fewer_than_target", 1);
        }
        // remainder placement: outputs differ by the remainder only
        let lo = vals.iter().map(|v| v.1).min().unwrap();
        let hi = vals.iter().map(|v| v.1).max().unwrap();
        if hi != lo {
            x.r.count("ok_split_with_remainder", 1);
        }
    }
    match branch {
        Branch::OkExact => x.r.count("ok_exact_no_change", 1),
        Branch::OkNoChange => x.r.count("ok_no_change", 1),
        Branch::OkZeroChange => x.r.count("ok_zero_valued_change", 1),
        Branch::OkDustFolded => x.r.count("ok_dust_folded_into_fee", 1),
        _ => {}
    }
    if c.eph.is_some() {
        x.r.count("ok_with_ephemeral_balance", 1);
    }
    (branch, chg)
}

fn check_insufficient(x: &mut Ctx, c: &Case, o: &Orc, available: u128, required: u128) -> Branch {
    let out_s = format!("Err(InsufficientFunds {{ available: {available}, required: {required} }})");
    if available != o.sum_in {
        x.viol(
            "C07:insufficient:available-is-not-the-input-total",
            format!("available {available} != sum of inputs {}", o.sum_in),
            c,
            &out_s,
        );
    }
    if o.tin_total.is_none() {
        return Branch::Other;
    }
    let Some(s0) = o.shape(Chg::default()) else {
        x.r.inconclusive("oracle-shape-unavailable");
        return Branch::Other;
    };
    let out = o.sum_out();
    let cands = o.candidates();
    // Where an ephemeral output is the only thing separating the request from a canonical
    // crossing, a refusal is accepted under either Ironwood padding (the disagreement between the
    // fee model and the recorded shape is reported once, on the balances: class
    // fee-below-final-shape:with-ephemeral-output).
    let ambiguous_padding = matches!(c.eph, Some((false, _)))
        && c.o_in.len() == 1
        && c.i_in.is_empty()
        && c.i_out.len() == 1
        && canonical_denomination(c.i_out[0])
        && c.anchor % c.interval == 0;
    let variants = |k: Chg| -> Vec<Shape> {
        let mut v: Vec<Shape> = o.shape(k).into_iter().collect();
        if ambiguous_padding && k.i == 0 && k.o <= 1 && k.s == 0 && k.t == 0 {
            v.extend(o.shape_with(k, true));
        }
        v
    };
    let degenerate_split = c.multi.as_ref().is_some_and(|m| m.min_split == Some(0));
    let mut insufficient_some = false;
    let mut dust_some = false;
    let mut legal_required: Vec<u128> = variants(Chg::default()).iter().map(|s| out + s.fee).collect();
    for (k, s) in cands.iter().flat_map(|k| variants(*k).into_iter().map(move |s| (k, s))) {
        let need = out + s.fee;
        legal_required.push(need);
        let n = k.t + k.s + k.o + k.i;
        // The strategy documents a fall-back to fewer change outputs, so only the cheapest
        // with-change shape (one output) can justify a refusal for lack of funds. (A split
        // policy with min_split_output_value == 0 never falls back: there every k counts.)
        if o.sum_in < need && (n == 1 || degenerate_split) {
            insufficient_some = true;
        }
        if c.dust_action == 0 {
            legal_required.push(need + o.thr);
            if o.sum_in >= need && o.sum_in - need > 0 && o.sum_in - need < o.thr {
                dust_some = true;
            }
        }
    }
    // An exactly balanced no-change transaction exists and is a legal outcome (fully
    // transparent flows, no change memo): refusing it is never justified.
    let exact0 = o.fully_transparent && o.sum_in == out + s0.fee;
    let branch = if o.sum_in < out + s0.fee {
        Branch::InsufficientMin
    } else if insufficient_some {
        Branch::InsufficientWithChange
    } else {
        Branch::InsufficientDust
    };
    if exact0 {
        x.viol(
            "C07:insufficient:refused-exactly-balanced-transparent-transaction",
            format!("inputs {} == outputs {} + ZIP 317 fee {} of the changeless shape, flows fully transparent", o.sum_in, out, s0.fee),
            c,
            &out_s,
        );
    } else if !(insufficient_some || dust_some) {
        let max_need = cands.iter().filter_map(|k| o.shape(*k)).map(|s| out + s.fee).max().unwrap_or(0);
        x.viol(
            "C07:insufficient:refused-although-funds-suffice",
            format!(
                "inputs {} cover outputs {} + fee for every one-change shape (largest requirement over all legal shapes {}), dust threshold {} does not explain it",
                o.sum_in, out, max_need, o.thr
            ),
            c,
            &out_s,
        );
    }
    if required <= available {
        x.viol(
            "C07:insufficient:required-not-above-available",
            format!("required {required} <= available {available}"),
            c,
            &out_s,
        );
    } else if !legal_required.contains(&required) {
        x.viol(
            "C07:insufficient:required-is-not-outputs-plus-fee-of-a-legal-shape",
            format!("required {required}; outputs {out}; legal totals {:?}", {
                let mut l = legal_required.clone();
                l.sort();
                l.dedup();
                l
            }),
            c,
            &out_s,
        );
    }
    match branch {
        Branch::InsufficientMin => x.r.count("insufficient_below_min_fee", 1),
        Branch::InsufficientWithChange => x.r.count("insufficient_below_fee_with_change", 1),
        _ => x.r.count("insufficient_dust_change_rejected", 1),
    }
    branch
}

// ---------------------------------------------------------------------------------------------
// Generator
// ---------------------------------------------------------------------------------------------

type R = ChaCha20Rng;

fn pick<T: Copy>(rng: &mut R, xs: &[T]) -> T {
    xs[rng.gen_range(0..xs.len())]
}

fn small_count(rng: &mut R) -> usize {
    match rng.gen_range(0..100) {
        0..=54 => 1,
        55..=79 => 2,
        80..=91 => 3,
        92..=97 => rng.gen_range(4..=6),
        _ => rng.gen_range(7..=12),
    }
}

fn out_value(rng: &mut R, thr: u64) -> u64 {
    match rng.gen_range(0..100) {
        0..=4 => 0,
        5..=7 => 1,
        8..=10 => thr.saturating_sub(1),
        11..=13 => thr,
        14..=16 => thr + 1,
        17..=20 => 5000,
        21..=24 => 10_000,
        25..=54 => rng.gen_range(1..200_000),
        55..=84 => rng.gen_range(100_000..100_000_000),
        85..=94 => pick(rng, &[1_000_000u64, 2_000_000, 5_000_000, 10_000_000, 100_000_000, 500_000_000]),
        95..=98 => rng.gen_range(1_000_000_000..100_000_000_000_000),
        _ => MAX_MONEY as u64 - pick(rng, &[0u64, 1, 10_000, 1_000_000_000_000_000]),
    }
}

fn gen_heights(rng: &mut R) -> (NetSpec, u32) {
    match rng.gen_range(0..100) {
        0..=19 => {
            let nu5 = u32::from(MAIN_NETWORK.activation_height(NetworkUpgrade::Nu5).unwrap());
            let nu63 = u32::from(MAIN_NETWORK.activation_height(NetworkUpgrade::Nu6_3).unwrap());
            let t = match rng.gen_range(0..8) {
                0 => nu5 - 1,
                1 => nu5,
                2 => nu63 - 1,
                3 => nu63,
                4 => nu63 + 1,
                5 => rng.gen_range(nu5..nu63),
                _ => rng.gen_range(nu63..nu63 + 2_000_000),
            };
            (NetSpec::Main, t)
        }
        20..=39 => {
            let nu5 = u32::from(TEST_NETWORK.activation_height(NetworkUpgrade::Nu5).unwrap());
            let nu63 = u32::from(TEST_NETWORK.activation_height(NetworkUpgrade::Nu6_3).unwrap());
            let t = match rng.gen_range(0..8) {
                0 => nu5 - 1,
                1 => nu5,
                2 => nu63 - 1,
                3 => nu63,
                4 => nu63 + 1,
                5 => rng.gen_range(nu5..nu63),
                _ => rng.gen_range(nu63..nu63 + 2_000_000),
            };
            (NetSpec::Test, t)
        }
        40..=44 => {
            let nu5 = rng.gen_range(2..2000);
            (NetSpec::Local(nu5, None), rng.gen_range(1..10_000))
        }
        _ => {
            let nu5 = rng.gen_range(2..2000u32);
            let nu63 = nu5 + rng.gen_range(0..2000u32);
            let t = match rng.gen_range(0..10) {
                0 => nu5 - 1,
                1 => nu5,
                2 => nu63.saturating_sub(1).max(1),
                3 => nu63,
                4 => nu63 + 1,
                5 => rng.gen_range(1..=nu63),
                _ => rng.gen_range(nu63..nu63 + 5000),
            };
            (NetSpec::Local(nu5, Some(nu63)), t)
        }
    }
}

/// Splits `total` over `n` slots. `floor` is given to every slot first when affordable.
fn distribute(rng: &mut R, total: u128, n: usize, floor: u128) -> Vec<u64> {
    if n == 0 {
        return vec![];
    }
    let cap = MAX_MONEY;
    let mut v = vec![0u128; n];
    let mut rest = total;
    if total >= floor * n as u128 {
        for s in v.iter_mut() {
            *s = floor;
        }
        rest -= floor * n as u128;
    }
    match rng.gen_range(0..3) {
        0 => {
            let k = rng.gen_range(0..n);
            v[k] += rest;
        }
        _ => {
            // random cut points
            for k in 0..n {
                let share = if k == n - 1 { rest } else { rng.gen_range(0..=rest) };
                v[k] += share;
                rest -= share;
            }
        }
    }
    // keep every single value representable; any excess is simply dropped (the case is then
    // no longer on its boundary, which the generator accepts).
    v.into_iter().map(|x| x.min(cap) as u64).collect()
}

fn gen_case(rng: &mut R) -> Case {
    let (net, target) = gen_heights(rng);
    let interval: u32 = match rng.gen_range(0..100) {
        0..=79 => 144,
        80..=84 => 1,
        85..=89 => 2,
        90..=94 => 10,
        _ => 100,
    };
    let anchor = {
        let below = target.saturating_sub(rng.gen_range(1..300));
        let on = below - below % interval;
        match rng.gen_range(0..10) {
            0..=4 => on,
            5 => on + 1,
            6 => on.saturating_sub(1),
            _ => below,
        }
    };
    let rule = match rng.gen_range(0..100) {
        0..=44 => RuleSpec::Standard,
        45..=79 => RuleSpec::PrimStandard,
        _ => RuleSpec::NonStd(
            pick(rng, &[0u64, 1, 1000, 5000, 5000, 7000, 20_000]),
            pick(rng, &[0usize, 1, 2, 2, 3, 5]),
            pick(rng, &[1usize, 100, 150, 150, 200]),
            pick(rng, &[1usize, 20, 34, 34, 50]),
        ),
    };
    let rp = rule_params(rule);
    let dust_threshold = match rng.gen_range(0..100) {
        0..=49 => None,
        50..=54 => Some(0),
        55..=59 => Some(1),
        60..=66 => Some(4999),
        67..=73 => Some(5000),
        74..=80 => Some(5001),
        81..=88 => Some(20_000),
        89..=94 => Some(150_000),
        _ => Some(rng.gen_range(1..2_000_000)),
    };
    let thr = dust_threshold.unwrap_or(rp.marginal as u64);
    let dust_action = pick(rng, &[0u8, 0, 1, 2]);
    let multi = if rng.gen_bool(0.5) {
        let target_n = match rng.gen_range(0..10) {
            0 => 1,
            1..=4 => 2,
            5..=6 => 3,
            7 => 4,
            _ => rng.gen_range(5..=8),
        };
        let min_split = if target_n == 1 && rng.gen_bool(0.5) {
            None
        } else {
            Some(match rng.gen_range(0..100) {
                0..=2 => 0,
                3..=9 => 1,
                10..=24 => rng.gen_range(1..10_000),
                25..=49 => pick(rng, &[5000u64, 10_000, 50_000]),
                50..=79 => pick(rng, &[100_000u64, 500_000, 1_000_000]),
                _ => rng.gen_range(10_000..10_000_000),
            })
        };
        let mut meta = [None; 3];
        for m in meta.iter_mut() {
            if rng.gen_bool(0.6) {
                let n = match rng.gen_range(0..10) {
                    0..=5 => 0,
                    6..=7 => 1,
                    8 => rng.gen_range(0..=target_n),
                    _ => rng.gen_range(0..20),
                };
                let v = if n == 0 { 0 } else { rng.gen_range(0..1_000_000_000u64) };
                *m = Some((n, v));
            }
        }
        Some(Multi {
            target: target_n,
            min_split: if target_n > 1 { min_split.or(Some(1)) } else { min_split },
            meta,
        })
    } else {
        None
    };

    // NU6.3 side as the generator sees it (only steers the scenario mix).
    let post = Orc::new(&Case {
        net, target, anchor, interval,
        t_in: vec![], t_out: vec![], s_in: vec![], s_out: vec![], s_required: false,
        o_in: vec![], o_out: vec![], o_ver: 2, i_in: vec![], i_out: vec![], eph: None,
        multi: None, rule, fallback: Pool::S, dust_action: 0, dust_threshold: None, memo: false,
        tcp_allowed: false, placement: "",
    })
    .post;

    let o_ver = if rng.gen_bool(0.9) {
        if post { 3 } else { pick(rng, &[1u8, 2, 2]) }
    } else {
        pick(rng, &[1u8, 2, 3])
    };

    // structure: how many inputs/outputs per pool
    let (mut nti, mut nto, mut nsi, mut nso, mut noi, mut noo, mut nii, mut nio) = (0, 0, 0, 0, 0, 0, 0, 0);
    let mut crossing = false;
    let scenario = rng.gen_range(0..100);
    match scenario {
        0..=13 => {
            // fully transparent
            nti = small_count(rng);
            nto = if rng.gen_bool(0.85) { small_count(rng) } else { 0 };
        }
        14..=27 => {
            // ZIP 318 crossing look-alike
            crossing = true;
            noi = 1;
            nio = 1;
            if rng.gen_bool(0.12) { nsi = 1; }
            if rng.gen_bool(0.08) { nto = 1; }
            if rng.gen_bool(0.08) { nti = 1; }
            if rng.gen_bool(0.06) { noi = 2; }
            if rng.gen_bool(0.06) { nii = 1; }
            if rng.gen_bool(0.06) { nio = 2; }
            if rng.gen_bool(0.05) { nso = 1; }
        }
        28..=41 => {
            // turnstile: orchard inputs plus other funding
            noi = small_count(rng);
            match rng.gen_range(0..3) {
                0 => nsi = small_count(rng),
                1 => nti = small_count(rng),
                _ => nii = small_count(rng),
            }
            match rng.gen_range(0..5) {
                0 => nto = small_count(rng),
                1 => nso = small_count(rng),
                2 => nio = small_count(rng),
                3 => noo = if post && rng.gen_bool(0.7) { 0 } else { 1 },
                _ => {}
            }
        }
        _ => {
            let p_in = 0.38;
            let p_out = 0.38;
            if rng.gen_bool(p_in) { nti = small_count(rng); }
            if rng.gen_bool(p_in) { nsi = small_count(rng); }
            if rng.gen_bool(p_in) { noi = small_count(rng); }
            if rng.gen_bool(p_in) { nii = small_count(rng); }
            if rng.gen_bool(p_out) { nto = small_count(rng); }
            if rng.gen_bool(p_out) { nso = small_count(rng); }
            if rng.gen_bool(if post { 0.12 } else { p_out }) { noo = small_count(rng); }
            if rng.gen_bool(p_out) { nio = small_count(rng); }
            if nti + nsi + noi + nii == 0 {
                match rng.gen_range(0..4) {
                    0 => nti = 1,
                    1 => nsi = 1,
                    2 => noi = 1,
                    _ => nii = 1,
                }
            }
        }
    }

    let eph = match rng.gen_range(0..100) {
        0..=4 => Some((true, out_value(rng, thr).max(1))),
        5..=11 => Some((false, out_value(rng, thr))),
        _ => None,
    };

    let t_sizes: Vec<TSize> = (0..nti)
        .map(|_| match rng.gen_range(0..100) {
            0..=64 => TSize::P2pkhDefault,
            65..=66 => TSize::P2shDefault,
            67..=68 => TSize::Unknown,
            69..=76 => TSize::Known(150),
            77..=82 => TSize::Known(pick(rng, &[0usize, 1, 149, 151, 300, 301])),
            83..=94 => TSize::Known(rng.gen_range(0..700)),
            _ => TSize::Known(rng.gen_range(0..=10_049)),
        })
        .collect();
    let t_out: Vec<TOut> = (0..nto)
        .map(|_| TOut {
            value: out_value(rng, thr),
            script_len: match rng.gen_range(0..100) {
                0..=59 => 25,
                60..=69 => 23,
                70..=74 => 0,
                75..=79 => pick(rng, &[24usize, 26, 59, 60, 252, 253]),
                80..=94 => rng.gen_range(0..200),
                _ => rng.gen_range(0..=10_000),
            },
        })
        .collect();
    let vals = |rng: &mut R, n: usize| -> Vec<u64> { (0..n).map(|_| out_value(rng, thr)).collect() };
    let s_out = vals(rng, nso);
    let o_out = vals(rng, noo);
    let mut i_out = vals(rng, nio);
    if crossing {
        let d = pick(rng, &[1_000_000u64, 2_000_000, 5_000_000, 10_000_000, 100_000_000, 500_000_000, 1_000_000_000_000]);
        i_out[0] = match rng.gen_range(0..10) {
            0 => d + 1,
            1 => d - 1,
            2 => pick(rng, &[500_000u64, 3_000_000, 2_000_000_000_000]),
            _ => d,
        };
    }

    let mut c = Case {
        net,
        target,
        anchor,
        interval,
        t_in: t_sizes.into_iter().map(|size| TIn { value: 0, size }).collect(),
        t_out,
        s_in: vec![0; nsi],
        s_out,
        s_required: rng.gen_bool(0.04),
        o_in: vec![0; noi],
        o_out,
        o_ver,
        i_in: vec![0; nii],
        i_out,
        eph,
        multi,
        rule,
        fallback: pick(rng, &[Pool::S, Pool::O, Pool::I]),
        dust_action,
        dust_threshold,
        memo: rng.gen_bool(0.25),
        tcp_allowed: rng.gen_bool(0.35),
        placement: "free",
    };
    if crossing && rng.gen_bool(0.8) {
        // keep the look-alike on the grid most of the time
        let below = target.saturating_sub(rng.gen_range(1..300));
        c.anchor = below - below % interval;
        if rng.gen_bool(0.15) {
            c.anchor += 1;
        }
    }

    // ---- place the input total -------------------------------------------------------------
    let n_slots = nti + nsi + noi + nii;
    let (fee0, cand_fee, out_total) = {
        let o = Orc::new(&c);
        let cands = o.candidates();
        // steer towards the pool the strategy documents it prefers, without relying on it
        let prefer = if o.wants_t {
            Pool::T
        } else if noi + noo > 0 {
            if o.post && rng.gen_bool(0.5) { Pool::I } else { Pool::O }
        } else if nii + nio > 0 {
            Pool::I
        } else if nsi + nso > 0 {
            Pool::S
        } else if c.fallback == Pool::O && o.post {
            Pool::I
        } else {
            c.fallback
        };
        let k = cands[rng.gen_range(0..cands.len())];
        let k = if rng.gen_bool(0.75) && !o.wants_t {
            Chg::of(prefer, k.t + k.s + k.o + k.i)
        } else {
            k
        };
        (
            o.shape(Chg::default()).map(|s| s.fee),
            o.shape(k).map(|s| (s.fee, k.t + k.s + k.o + k.i)),
            o.sum_out(),
        )
    };
    let marginal = rp.marginal;
    let d = pick(rng, &[-1i128, 0, 1]);
    let min_split = c.multi.as_ref().and_then(|m| m.min_split).unwrap_or(0) as i128;
    let (total, placement): (i128, &'static str) = match (fee0, cand_fee) {
        (Some(f0), Some((fc, k))) => {
            let (f0, fc, out) = (f0 as i128, fc as i128, out_total as i128);
            match rng.gen_range(0..100) {
                0..=13 => (out + f0 + d, "out+min_fee+-1"),
                14..=33 => (out + fc + d, "out+fee_with_change+-1"),
                34..=45 => (out + fc + thr as i128 + d, "out+fee_with_change+dust+-1"),
                46..=55 => (out + fc + (k as i128) * min_split.max(1) + d, "out+fee_with_change+k*min_split+-1"),
                56..=62 => (out + fc + rng.gen_range(0..(thr as i128 + 2)), "out+fee_with_change+below_dust"),
                63..=72 => (out + fc + rng.gen_range(0..300_000), "out+fee_with_change+small"),
                73..=90 => (out + fc + rng.gen_range(0..5_000_000_000i128), "out+fee_with_change+large"),
                91..=93 => (rng.gen_range(0..=(out + fc).max(1)), "below"),
                94..=96 => (MAX_MONEY as i128 - rng.gen_range(0..3), "max_money"),
                _ => (rng.gen_range(0..=MAX_MONEY as i128), "random"),
            }
        }
        _ => (out_total as i128 + rng.gen_range(0..1_000_000), "unknown-size"),
    };
    let total = total.clamp(0, MAX_MONEY as i128 + 5) as u128;
    c.placement = placement;

    // distribute over the slots (ephemeral input is one more transparent slot)
    let eph_in = matches!(c.eph, Some((true, _)));
    let slots = n_slots + eph_in as usize;
    let economic = rng.gen_bool(0.88);
    let floor = if economic { marginal + 1 } else { 0 };
    let mut values: Vec<u64>;
    let others = nti + nsi + nii + eph_in as usize;
    if (28..=41).contains(&scenario) && noi > 0 && others > 0 && fee0.is_some() && rng.gen_bool(0.7) {
        // turnstile boundary: the non-Orchard inputs cover outputs + minimum fee -1/0/+1, so the
        // upper bound on the change equals the Orchard input total -1/0/+1.
        let y = (out_total as i128 + fee0.unwrap() as i128 + d).max(0) as u128;
        let x = match rng.gen_range(0..4) {
            0 => (marginal + 1) * noi as u128,
            1 => rng.gen_range(0..200_000u128),
            _ => rng.gen_range(0..5_000_000_000u128),
        };
        let ov = distribute(rng, x, noi, floor);
        let yv = distribute(rng, y.min(MAX_MONEY), others, floor);
        // order: t, s, o, i, eph
        values = vec![];
        let mut yi = yv.into_iter();
        for _ in 0..nti { values.push(yi.next().unwrap()); }
        for _ in 0..nsi { values.push(yi.next().unwrap()); }
        values.extend(ov);
        for _ in 0..nii { values.push(yi.next().unwrap()); }
        if eph_in { values.push(yi.next().unwrap()); }
        c.placement = "turnstile:max_change=orchard_in+-1";
    } else {
        values = distribute(rng, total, slots, floor);
    }
    if rng.gen_bool(0.01) && values.len() > 1 {
        // MAX_MONEY-scale inputs whose sum leaves the valid range
        for v in values.iter_mut() {
            *v = MAX_MONEY as u64 - pick(rng, &[0u64, 1, 1_000_000, 1_500_000_000_000_000]);
        }
        c.placement = "overflowing-inputs";
    }
    if rng.gen_bool(0.04) && !values.is_empty() {
        // an uneconomic input somewhere
        let k = rng.gen_range(0..values.len());
        values[k] = pick(rng, &[0u64, 1, marginal as u64, (marginal as u64).saturating_sub(1)]);
    }
    let mut it = values.into_iter();
    for i in c.t_in.iter_mut() { i.value = it.next().unwrap(); }
    for v in c.s_in.iter_mut() { *v = it.next().unwrap(); }
    for v in c.o_in.iter_mut() { *v = it.next().unwrap(); }
    for v in c.i_in.iter_mut() { *v = it.next().unwrap(); }
    if eph_in {
        c.eph = Some((true, it.next().unwrap()));
    }
    c
}

// ---------------------------------------------------------------------------------------------
// fee_required monitor
// ---------------------------------------------------------------------------------------------

fn fee_required_case(x: &mut Ctx, rng: &mut R) {
    let rule = match rng.gen_range(0..10) {
        0..=2 => RuleSpec::Standard,
        3..=5 => RuleSpec::PrimStandard,
        _ => RuleSpec::NonStd(
            match rng.gen_range(0..10) {
                0 => 0,
                1 => 1,
                2..=5 => 5000,
                6 => MAX_MONEY as u64,
                7 => (MAX_MONEY / 3) as u64,
                _ => rng.gen_range(0..10_000_000),
            },
            pick(rng, &[0usize, 1, 2, 2, 3, 10, 1000]),
            pick(rng, &[1usize, 2, 149, 150, 151, 10_000]),
            pick(rng, &[1usize, 2, 33, 34, 35, 10_000]),
        ),
    };
    let rp = rule_params(rule);
    let count = |rng: &mut R| -> usize {
        match rng.gen_range(0..20) {
            0..=7 => 0,
            8..=13 => rng.gen_range(1..4),
            14..=17 => rng.gen_range(0..30),
            18 => rng.gen_range(0..5000),
            _ => rng.gen_range(0..1_000_000),
        }
    };
    let nin = match rng.gen_range(0..10) { 0..=3 => 0, 4..=8 => rng.gen_range(1..5), _ => rng.gen_range(0..60) };
    let nout = match rng.gen_range(0..10) { 0..=3 => 0, 4..=8 => rng.gen_range(1..5), _ => rng.gen_range(0..60) };
    let mut unknown: Vec<OutPoint> = vec![];
    let ins: Vec<InputSize> = (0..nin)
        .map(|n| match rng.gen_range(0..40) {
            0 => {
                let op = OutPoint::new([n as u8; 32], n as u32);
                unknown.push(op.clone());
                InputSize::Unknown(op)
            }
            1..=20 => InputSize::STANDARD_P2PKH,
            21..=30 => InputSize::Known(pick(rng, &[0usize, 1, 149, 150, 151, 299, 300, 301])),
            _ => InputSize::Known(rng.gen_range(0..=10_049)),
        })
        .collect();
    let outs: Vec<usize> = (0..nout)
        .map(|_| match rng.gen_range(0..10) {
            0..=4 => 34,
            5..=6 => pick(rng, &[0usize, 1, 9, 32, 33, 35, 67, 68, 69]),
            _ => rng.gen_range(0..=10_011),
        })
        .collect();
    let (s_in, s_out, o, i) = (count(rng), count(rng), count(rng), count(rng));
    let tin: u128 = ins.iter().map(|s| match s { InputSize::Known(s) => *s as u128, _ => 0 }).sum();
    let tout: u128 = outs.iter().map(|s| *s as u128).sum();
    let want: Result<u128, &str> = if !unknown.is_empty() {
        Err("unknown")
    } else {
        let f = zip317(&rp, tin, tout, s_in as u128, s_out as u128, o as u128, i as u128);
        if f > MAX_MONEY { Err("overflow") } else { Ok(f) }
    };
    let h = BlockHeight::from_u32(rng.gen_range(0..5_000_000));
    let net = if rng.gen_bool(0.5) { Net::Main } else { Net::Test };
    let got = guard(|| match rule {
        RuleSpec::Standard => StandardFeeRule::Zip317.fee_required(&net, h, ins.clone(), outs.clone(), s_in, s_out, o, i),
        RuleSpec::PrimStandard => PrimRule::standard().fee_required(&net, h, ins.clone(), outs.clone(), s_in, s_out, o, i),
        RuleSpec::NonStd(m, g, a, b) => PrimRule::non_standard(zat(m), g, a, b)
            .expect("non-zero sizes")
            .fee_required(&net, h, ins.clone(), outs.clone(), s_in, s_out, o, i),
    });
    x.r.evals(1);
    x.r.count("fee_required_calls", 1);
    let replay = || {
        json!({"op": "fee_required", "rule": format!("{rule:?}"), "input_sizes": format!("{ins:?}"), "output_sizes": outs,
               "sapling_inputs": s_in, "sapling_outputs": s_out, "orchard_actions": o, "ironwood_actions": i})
    };
    let dominant = {
        let t = ceil_div(tin, rp.insz).max(ceil_div(tout, rp.outsz));
        let l = t + (s_in.max(s_out) + o + i) as u128;
        (
            ceil_div(tin, rp.insz) > ceil_div(tout, rp.outsz),
            s_in > s_out,
            o > 0,
            i > 0,
            l <= rp.grace,
            l == rp.grace + 1,
        )
    };
    x.r.sig(&("fee_required", std::mem::discriminant(&rule), dominant, unknown.is_empty(), want.is_ok()));
    match (got, want) {
        (Err(p), _) => x.r.violation(
            &format!("C07:fee_required:panic:{}", panic_class(&p)),
            format!("panicked: {p}"),
            replay(),
        ),
        (Ok(Ok(z)), Ok(f)) => {
            if u64::from(z) as u128 != f {
                x.r.violation(
                    "C07:fee_required:wrong-fee",
                    format!("returned {} but marginal*max(grace, logical_actions) = {f}", u64::from(z)),
                    replay(),
                );
            } else {
                x.r.count("fee_required_ok", 1);
                if i > 0 {
                    x.r.count("fee_required_with_ironwood_actions", 1);
                }
                if dominant.4 {
                    x.r.count("fee_required_grace_floor", 1);
                }
            }
        }
        (Ok(Ok(z)), Err(why)) => x.r.violation(
            &format!("C07:fee_required:fee-returned-where-{why}-expected"),
            format!("returned {}", u64::from(z)),
            replay(),
        ),
        (Ok(Err(FeeError::UnknownP2shInputs(ops))), Err("unknown")) => {
            x.r.count("fee_required_unknown_inputs", 1);
            if ops != unknown {
                x.r.violation(
                    "C07:fee_required:unknown-outpoints-differ",
                    format!("{ops:?} vs {unknown:?}"),
                    replay(),
                );
            }
        }
        (Ok(Err(FeeError::Balance(BalanceError::Overflow))), Err("overflow")) => {
            x.r.count("fee_required_overflow", 1);
        }
        (Ok(Err(e)), w) => x.r.violation(
            "C07:fee_required:unexpected-error",
            format!("{e:?}, expected {w:?}"),
            replay(),
        ),
    }
}

// ---------------------------------------------------------------------------------------------

fn run_case(x: &mut Ctx, c: &Case) {
    let o = Orc::new(c);
    let res = guard(|| call_real(c));
    let pools_in = (!c.t_in.is_empty() || matches!(c.eph, Some((true, _)))) as u8
        | ((!c.s_in.is_empty()) as u8) << 1
        | ((!c.o_in.is_empty()) as u8) << 2
        | ((!c.i_in.is_empty()) as u8) << 3;
    let pools_out = (!c.t_out.is_empty() || matches!(c.eph, Some((false, _)))) as u8
        | ((!c.s_out.is_empty()) as u8) << 1
        | ((!c.o_out.is_empty()) as u8) << 2
        | ((!c.i_out.is_empty()) as u8) << 3;
    let (branch, chg) = match &res {
        Err(p) => {
            x.viol(
                &format!("C07:compute_balance:panic:{}", panic_class(p)),
                format!("panicked: {p}"),
                c,
                "panic",
            );
            (Branch::Other, Chg::default())
        }
        Ok(Ok(b)) => {
            x.r.count("ok_balances", 1);
            if o.overflow {
                x.r.count("ok_despite_overflowing_totals", 1);
            }
            check_ok(x, c, &o, b)
        }
        Ok(Err(ChangeError::InsufficientFunds { available, required })) => {
            x.r.count("insufficient_funds", 1);
            let b = check_insufficient(
                x,
                c,
                &o,
                u64::from(*available) as u128,
                u64::from(*required) as u128,
            );
            (b, Chg::default())
        }
        Ok(Err(ChangeError::DustInputs { .. })) => {
            x.r.count("dust_inputs_refusals", 1);
            (Branch::DustInputs, Chg::default())
        }
        Ok(Err(ChangeError::StrategyError(e))) => {
            match e {
                FeeError::Balance(_) => x.r.count("strategy_error_balance", 1),
                FeeError::UnknownP2shInputs(_) => x.r.count("strategy_error_unknown_p2sh", 1),
            }
            (Branch::StrategyError, Chg::default())
        }
        Ok(Err(_)) => {
            x.r.count("other_errors", 1);
            (Branch::Other, Chg::default())
        }
    };
    let boundary = c.placement != "free"
        && c.placement != "random"
        && c.placement != "unknown-size"
        && !c.placement.ends_with("large");
    let n_pools = (pools_in | pools_out).count_ones();
    let sig = (
        c.multi.is_some(),
        std::mem::discriminant(&c.rule),
        pools_in,
        pools_out,
        (chg.t.min(1), chg.s.min(8), chg.o.min(8), chg.i.min(8)),
        branch.clone(),
        c.dust_action,
        o.post,
        c.eph.map(|e| e.0),
        c.placement,
    );
    x.r.case(&sig, n_pools >= 2 || boundary);
    if boundary {
        x.r.count("boundary_total_cases", 1);
    }
    if c.placement.starts_with("turnstile") {
        x.r.count("turnstile_boundary_cases", 1);
    }
    if c.anchor % c.interval == 0 {
        x.r.count("anchor_on_grid_cases", 1);
    } else {
        x.r.count("anchor_off_grid_cases", 1);
    }
    if c.multi.is_some() {
        x.r.count("multi_output_strategy_cases", 1);
    } else {
        x.r.count("single_output_strategy_cases", 1);
    }
    let outcome = match &res {
        Ok(Ok(b)) => show_balance(b),
        Ok(Err(e)) => format!("Err({e:?})"),
        Err(p) => p.clone(),
    };
    x.r.sample(
        &format!("{branch:?}"),
        json!({"case": c.to_json(), "outcome": outcome}),
    );
}

/// Deterministic boundary lattice: for a family of base requests, every policy, and input
/// totals walking across out+min_fee and out+fee_with_change.
fn lattice(x: &mut Ctx) {
    let nets = [
        (NetSpec::Local(10, Some(100)), 50u32),
        (NetSpec::Local(10, Some(100)), 99),
        (NetSpec::Local(10, Some(100)), 100),
        (NetSpec::Local(10, Some(100)), 101),
    ];
    let mut n = 0u64;
    // pool pair: (input pool, output pool)
    for ip in [Pool::T, Pool::S, Pool::O, Pool::I] {
        for op in [Pool::T, Pool::S, Pool::O, Pool::I] {
            for (net, target) in nets {
                for dust_action in 0..3u8 {
                    for thr in [None, Some(0u64), Some(5001)] {
                        for tcp in [false, true] {
                            for target_n in [0usize, 3] {
                                let base = Case {
                                    net,
                                    target,
                                    anchor: 0,
                                    interval: 144,
                                    t_in: if ip == Pool::T { vec![TIn { value: 0, size: TSize::P2pkhDefault }] } else { vec![] },
                                    t_out: if op == Pool::T { vec![TOut { value: 40_000, script_len: 25 }] } else { vec![] },
                                    s_in: if ip == Pool::S { vec![0] } else { vec![] },
                                    s_out: if op == Pool::S { vec![40_000] } else { vec![] },
                                    s_required: false,
                                    o_in: if ip == Pool::O { vec![0] } else { vec![] },
                                    o_out: if op == Pool::O { vec![40_000] } else { vec![] },
                                    o_ver: if target >= 100 { 3 } else { 2 },
                                    i_in: if ip == Pool::I { vec![0] } else { vec![] },
                                    i_out: if op == Pool::I { vec![40_000] } else { vec![] },
                                    eph: None,
                                    multi: (target_n > 0).then(|| Multi {
                                        target: target_n,
                                        min_split: Some(2_000),
                                        meta: [Some((0, 0)), None, None],
                                    }),
                                    rule: RuleSpec::Standard,
                                    fallback: Pool::O,
                                    dust_action,
                                    dust_threshold: thr,
                                    memo: false,
                                    tcp_allowed: tcp,
                                    placement: "lattice",
                                };
                                let fees: Vec<u128> = {
                                    let o = Orc::new(&base);
                                    let mut f: Vec<u128> = o
                                        .candidates()
                                        .iter()
                                        .chain(std::iter::once(&Chg::default()))
                                        .filter_map(|k| o.shape(*k).map(|s| s.fee))
                                        .collect();
                                    f.sort();
                                    f.dedup();
                                    f
                                };
                                let t = thr.unwrap_or(5000) as i128;
                                for f in &fees {
                                    for d in [-1i128, 0, 1, t - 1, t, t + 1, 3 * 2000 - 1, 3 * 2000, 3 * 2000 + 1, 1_000_000] {
                                        let total = 40_000i128 + *f as i128 + d;
                                        if total < 0 {
                                            continue;
                                        }
                                        let mut c = base.clone();
                                        let v = total as u64;
                                        match ip {
                                            Pool::T => c.t_in[0].value = v,
                                            Pool::S => c.s_in[0] = v,
                                            Pool::O => c.o_in[0] = v,
                                            Pool::I => c.i_in[0] = v,
                                        }
                                        run_case(x, &c);
                                        n += 1;
                                    }
                                }
                            }
                        }
                    }
                }
            }
        }
    }
    x.r.count("lattice_cases", n);
}

/// Small hand-written requests, run first by shard 0 (and printed by `--repro 1`): the plainest
/// member of every situation the property text singles out.
fn pinned_cases() -> Vec<(&'static str, Case)> {
    let base = Case {
        net: NetSpec::Local(10, Some(100)),
        target: 200,
        anchor: 144,
        interval: 144,
        t_in: vec![],
        t_out: vec![],
        s_in: vec![],
        s_out: vec![],
        s_required: false,
        o_in: vec![],
        o_out: vec![],
        o_ver: 3,
        i_in: vec![],
        i_out: vec![],
        eph: None,
        multi: None,
        rule: RuleSpec::Standard,
        fallback: Pool::S,
        dust_action: 0,
        dust_threshold: None,
        memo: false,
        tcp_allowed: false,
        placement: "pinned",
    };
    let mut v = vec![];
    // split change: total 6000 >= threshold 5000, two outputs of 3000 each
    let mut c = base.clone();
    c.s_in = vec![61_000];
    c.s_out = vec![40_000];
    c.multi = Some(Multi { target: 2, min_split: Some(1000), meta: [Some((0, 0)), None, None] });
    v.push(("split-change-under-reject", c));
    // canonical crossing look-alike plus an ephemeral (ZIP 320) output
    let mut c = base.clone();
    c.o_in = vec![1_170_000];
    c.i_out = vec![1_000_000];
    c.eph = Some((false, 50_000));
    v.push(("canonical-crossing-with-ephemeral-output", c));
    // the same without the ephemeral output: a canonical crossing, unpadded Ironwood bundle
    let mut c = base.clone();
    c.o_in = vec![1_115_000];
    c.i_out = vec![1_000_000];
    v.push(("canonical-crossing", c));
    // transparent change allowed, inputs == outputs + fee of the shape with a change output
    let mut c = base.clone();
    c.tcp_allowed = true;
    c.t_in = vec![TIn { value: 115_000, size: TSize::P2pkhDefault }];
    c.t_out = vec![TOut { value: 50_000, script_len: 25 }, TOut { value: 50_000, script_len: 25 }];
    v.push(("zero-transparent-change", c));
    // Orchard outputs requested after NU6.3, funded partly from Sapling
    let mut c = base.clone();
    c.o_in = vec![100_000];
    c.o_out = vec![80_000];
    c.s_in = vec![60_000];
    v.push(("orchard-outputs-after-nu6_3", c));
    // turnstile: Orchard note plus Sapling funding, change bound == Orchard input total
    let mut c = base.clone();
    c.o_in = vec![100_000];
    c.s_in = vec![60_000];
    c.s_out = vec![40_000];
    v.push(("turnstile-change-bound-equals-orchard-inputs", c));
    let mut c = base.clone();
    c.o_in = vec![100_000];
    c.s_in = vec![59_999];
    c.s_out = vec![40_000];
    v.push(("turnstile-change-bound-below-orchard-inputs", c));
    v
}

fn main() {
    vh_common::install_panic_hook();
    let args = Args::parse();
    if args.extra.contains_key("repro") {
        for (name, c) in pinned_cases() {
            let res = guard(|| call_real(&c));
            let outcome = match &res {
                Ok(Ok(b)) => show_balance(b),
                Ok(Err(e)) => format!("Err({e:?})"),
                Err(p) => format!("panic: {p}"),
            };
            println!("{name}\n  case: {}\n  outcome: {outcome}", c.to_json());
        }
        return;
    }
    let mut x = Ctx {
        r: Reporter::new("C07", &args),
    };
    if args.shard == 0 {
        for (_, c) in pinned_cases() {
            run_case(&mut x, &c);
        }
        lattice(&mut x);
    }
    let mut rng = vh_common::rng(args.shard_seed(), 7);
    let n = args.get_u64("cases", args.pick(500_000u64, 30_000_000u64));
    let mut i = 0u64;
    while i < n && x.r.time_left() {
        i += 1;
        let c = gen_case(&mut rng);
        run_case(&mut x, &c);
        if i % 4 == 0 {
            fee_required_case(&mut x, &mut rng);
        }
    }
    x.r.count("random_cases", i);
    x.r.finish();
}
