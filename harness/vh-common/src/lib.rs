//! Shared plumbing for the verification harness binaries.
//!
//! Every harness binary is one *shard* of one property check. The driver
//! (`/verif/check`) starts N shards in parallel, each with
//! `--seed S --shard I --nshards N --tier T --out FILE [--events FILE] [--budget-s X]`,
//! and folds the JSON result files. A shard never decides the exit status of
//! the check: it records what it observed (evaluations, distinct non-trivial
//! case signatures, named counters, samples, violations with a class signature)
//! and exits 0. A non-zero exit of a shard means "the harness itself broke" and
//! is reported as such (never as a property violation).

use std::cell::RefCell;
use std::collections::{BTreeMap, BTreeSet, HashMap};
use std::hash::{Hash, Hasher};
use std::io::Write;
use std::panic::{self, AssertUnwindSafe};
use std::path::PathBuf;
use std::time::{Duration, Instant};

pub use rand;
pub use rand_chacha;
pub use rand_core;
pub use serde_json;
pub use serde_json::{json, Value};

use rand_chacha::ChaCha20Rng;
use rand_core::SeedableRng;

#[derive(Clone, Copy, Debug, PartialEq, Eq)]
pub enum Tier {
    Quick,
    Thorough,
}

#[derive(Clone, Debug)]
pub struct Args {
    pub seed: u64,
    pub shard: u64,
    pub nshards: u64,
    pub tier: Tier,
    pub out: PathBuf,
    pub events: Option<PathBuf>,
    pub budget_s: f64,
    pub extra: HashMap<String, String>,
}

impl Args {
    /// `--key value` pairs; unknown keys land in `extra`.
    pub fn parse() -> Self {
        let mut a = Args {
            seed: 0,
            shard: 0,
            nshards: 1,
            tier: Tier::Quick,
            out: PathBuf::from("/dev/stdout"),
            events: None,
            budget_s: 60.0,
            extra: HashMap::new(),
        };
        let argv: Vec<String> = std::env::args().skip(1).collect();
        let mut i = 0;
        while i < argv.len() {
            let k = argv[i].trim_start_matches("--").to_string();
            let v = argv.get(i + 1).cloned().unwrap_or_default();
            match k.as_str() {
                "seed" => a.seed = v.parse().expect("seed"),
                "shard" => a.shard = v.parse().expect("shard"),
                "nshards" => a.nshards = v.parse().expect("nshards"),
                "tier" => {
                    a.tier = match v.as_str() {
                        "quick" => Tier::Quick,
                        "thorough" => Tier::Thorough,
                        _ => panic!("tier"),
                    }
                }
                "out" => a.out = PathBuf::from(v),
                "events" => a.events = Some(PathBuf::from(v)),
                "budget-s" => a.budget_s = v.parse().expect("budget"),
                _ => {
                    a.extra.insert(k, v);
                }
            }
            i += 2;
        }
        a
    }

    /// Per-shard seed: distinct shards explore distinct streams.
    pub fn shard_seed(&self) -> u64 {
        self.seed.wrapping_mul(1000).wrapping_add(self.shard)
    }

    pub fn get_u64(&self, key: &str, default: u64) -> u64 {
        self.extra
            .get(key)
            .map(|v| v.parse().expect("numeric extra arg"))
            .unwrap_or(default)
    }

    pub fn pick<T>(&self, quick: T, thorough: T) -> T {
        match self.tier {
            Tier::Quick => quick,
            Tier::Thorough => thorough,
        }
    }
}

/// Deterministic RNG for `(seed, stream)`.
pub fn rng(seed: u64, stream: u64) -> ChaCha20Rng {
    let mut s = [0u8; 32];
    s[..8].copy_from_slice(&seed.to_le_bytes());
    s[8..16].copy_from_slice(&stream.to_le_bytes());
    s[16..24].copy_from_slice(b"vh-verif");
    ChaCha20Rng::from_seed(s)
}

/// A proptest runner whose randomness derives from `(seed, stream)`.
pub fn proptest_runner(seed: u64, stream: u64) -> proptest::test_runner::TestRunner {
    use proptest::test_runner::{Config, RngAlgorithm, TestRng, TestRunner};
    let mut s = [0u8; 32];
    s[..8].copy_from_slice(&seed.to_le_bytes());
    s[8..16].copy_from_slice(&stream.to_le_bytes());
    s[16..24].copy_from_slice(b"vh-propt");
    TestRunner::new_with_rng(
        Config::default(),
        TestRng::from_seed(RngAlgorithm::ChaCha, &s),
    )
}

/// Draws one value from a proptest strategy.
pub fn draw<S: proptest::strategy::Strategy>(
    runner: &mut proptest::test_runner::TestRunner,
    s: &S,
) -> Option<S::Value> {
    use proptest::strategy::ValueTree;
    s.new_tree(runner).ok().map(|t| t.current())
}

thread_local! {
    static LAST_PANIC: RefCell<Option<String>> = const { RefCell::new(None) };
    static QUIET: RefCell<bool> = const { RefCell::new(false) };
}

/// Installs a panic hook that records `message @ file:line` for `guard` and
/// stays silent while a guarded closure runs (panics outside `guard` still print).
pub fn install_panic_hook() {
    let default = panic::take_hook();
    panic::set_hook(Box::new(move |info| {
        let msg = if let Some(s) = info.payload().downcast_ref::<&str>() {
            s.to_string()
        } else if let Some(s) = info.payload().downcast_ref::<String>() {
            s.clone()
        } else {
            "<non-string panic>".to_string()
        };
        let loc = info
            .location()
            .map(|l| format!("{}:{}", l.file(), l.line()))
            .unwrap_or_else(|| "?".into());
        LAST_PANIC.with(|p| *p.borrow_mut() = Some(format!("{msg} @ {loc}")));
        if !QUIET.with(|q| *q.borrow()) {
            default(info);
        }
    }));
}

/// Runs `f`, converting a panic into `Err("message @ file:line")`.
pub fn guard<T>(f: impl FnOnce() -> T) -> Result<T, String> {
    let prev = QUIET.with(|q| q.replace(true));
    let r = panic::catch_unwind(AssertUnwindSafe(f));
    QUIET.with(|q| *q.borrow_mut() = prev);
    match r {
        Ok(v) => Ok(v),
        Err(_) => Err(LAST_PANIC
            .with(|p| p.borrow_mut().take())
            .unwrap_or_else(|| "<panic>".into())),
    }
}

/// Strips the line number and anything variable from a panic string so it can
/// serve as part of a violation class signature: keeps `file` and the first
/// 60 chars of the message with digits collapsed.
pub fn panic_class(p: &str) -> String {
    let (msg, loc) = p.rsplit_once(" @ ").unwrap_or((p, "?"));
    let file = loc.rsplit_once(':').map(|x| x.0).unwrap_or(loc);
    let file = file
        .rsplit_once("/src/")
        .map(|(a, b)| {
            format!(
                "{}/src/{}",
                a.rsplit('/').next().unwrap_or(""),
                b
            )
        })
        .unwrap_or_else(|| file.to_string());
    let mut m = String::new();
    let mut last_digit = false;
    for c in msg.chars().take(80) {
        if c.is_ascii_digit() {
            if !last_digit {
                m.push('N');
            }
            last_digit = true;
        } else {
            last_digit = false;
            m.push(c);
        }
    }
    format!("{m} @ {file}")
}

pub fn hash64<T: Hash + ?Sized>(t: &T) -> u64 {
    // FNV-1a over the std Hash stream: stable across runs (no random keys).
    struct Fnv(u64);
    impl Hasher for Fnv {
        fn finish(&self) -> u64 {
            self.0
        }
        fn write(&mut self, bytes: &[u8]) {
            for b in bytes {
                self.0 ^= *b as u64;
                self.0 = self.0.wrapping_mul(0x100000001b3);
            }
        }
    }
    let mut h = Fnv(0xcbf29ce484222325);
    t.hash(&mut h);
    h.finish()
}

const MAX_SIGS: usize = 200_000;
const MAX_VIOLATIONS_PER_SIG: usize = 3;
const MAX_VIOLATION_SIGS: usize = 100;
const MAX_SAMPLES: usize = 12;

pub struct Reporter {
    property: String,
    args: Args,
    start: Instant,
    evaluations: u64,
    inconclusive: BTreeMap<String, u64>,
    sigs: BTreeSet<u64>,
    sigs_overflow: u64,
    counters: BTreeMap<String, u64>,
    samples: Vec<Value>,
    sample_classes: BTreeSet<String>,
    violations: BTreeMap<String, (u64, Vec<Value>)>,
    events: Option<std::io::BufWriter<std::fs::File>>,
    exhaustive: Option<bool>,
    notes: Vec<String>,
}

impl Reporter {
    pub fn new(property: &str, args: &Args) -> Self {
        let events = args.events.as_ref().map(|p| {
            std::io::BufWriter::with_capacity(
                1 << 20,
                std::fs::File::create(p).expect("create events file"),
            )
        });
        Reporter {
            property: property.to_string(),
            args: args.clone(),
            start: Instant::now(),
            evaluations: 0,
            inconclusive: BTreeMap::new(),
            sigs: BTreeSet::new(),
            sigs_overflow: 0,
            counters: BTreeMap::new(),
            samples: Vec::new(),
            sample_classes: BTreeSet::new(),
            violations: BTreeMap::new(),
            events,
            exhaustive: None,
            notes: Vec::new(),
        }
    }

    pub fn args(&self) -> &Args {
        &self.args
    }

    /// One executed case; `nontrivial` per the property's stated rule,
    /// `sig` its structural signature (distinctness is measured on it).
    pub fn case<S: Hash + ?Sized>(&mut self, sig: &S, nontrivial: bool) {
        self.evaluations += 1;
        if nontrivial {
            self.sig(sig);
        }
    }

    /// Registers a distinct non-trivial signature without counting an evaluation.
    pub fn sig<S: Hash + ?Sized>(&mut self, sig: &S) {
        if self.sigs.len() < MAX_SIGS {
            self.sigs.insert(hash64(sig));
        } else {
            self.sigs_overflow += 1;
        }
    }

    pub fn evals(&mut self, n: u64) {
        self.evaluations += n;
    }

    pub fn count(&mut self, name: &str, n: u64) {
        *self.counters.entry(name.to_string()).or_insert(0) += n;
    }

    pub fn set_max(&mut self, name: &str, n: u64) {
        let e = self.counters.entry(name.to_string()).or_insert(0);
        if n > *e {
            *e = n;
        }
    }

    pub fn counter(&self, name: &str) -> u64 {
        self.counters.get(name).copied().unwrap_or(0)
    }

    /// Keeps at most one sample per `class` and `MAX_SAMPLES` overall.
    pub fn sample(&mut self, class: &str, v: Value) {
        if self.samples.len() < MAX_SAMPLES && self.sample_classes.insert(class.to_string()) {
            self.samples.push(json!({"class": class, "case": v}));
        }
    }

    /// A refuting observation. `sig` is the *class* signature that
    /// `known_findings.json` is keyed on: it must name the specific failing
    /// input class / call site, never just the property.
    pub fn violation(&mut self, sig: &str, detail: impl Into<String>, replay: Value) {
        let n = self.violations.len();
        let e = match self.violations.get_mut(sig) {
            Some(e) => e,
            None => {
                if n >= MAX_VIOLATION_SIGS {
                    self.count("violations_dropped_beyond_cap", 1);
                    return;
                }
                self.violations.entry(sig.to_string()).or_insert((0, vec![]))
            }
        };
        e.0 += 1;
        if e.1.len() < MAX_VIOLATIONS_PER_SIG {
            e.1.push(json!({"detail": detail.into(), "replay": replay}));
        }
    }

    pub fn violation_count(&self) -> u64 {
        self.violations.values().map(|v| v.0).sum()
    }

    pub fn inconclusive(&mut self, why: &str) {
        *self.inconclusive.entry(why.to_string()).or_insert(0) += 1;
    }

    pub fn note(&mut self, s: impl Into<String>) {
        let s = s.into();
        if self.notes.len() < 50 && !self.notes.contains(&s) {
            self.notes.push(s);
        }
    }

    pub fn set_exhaustive(&mut self, e: bool) {
        self.exhaustive = Some(match self.exhaustive {
            Some(prev) => prev && e,
            None => e,
        });
    }

    /// Appends one JSON line to the event log consumed by the Python oracle.
    pub fn event(&mut self, v: &Value) {
        if let Some(w) = self.events.as_mut() {
            serde_json::to_writer(&mut *w, v).expect("write event");
            w.write_all(b"\n").expect("write event");
        }
    }

    pub fn has_events(&self) -> bool {
        self.events.is_some()
    }

    pub fn elapsed(&self) -> Duration {
        self.start.elapsed()
    }

    /// True while the shard's wall-clock budget is not used up. Workloads are
    /// capped by operations *and* by this; running out of budget only means
    /// fewer cases (the coverage floors of the driver decide if that is enough).
    pub fn time_left(&self) -> bool {
        self.start.elapsed().as_secs_f64() < self.args.budget_s
    }

    pub fn frac_left(&self) -> f64 {
        1.0 - (self.start.elapsed().as_secs_f64() / self.args.budget_s).min(1.0)
    }

    pub fn finish(mut self) {
        if let Some(w) = self.events.as_mut() {
            w.flush().expect("flush events");
        }
        let violations: Vec<Value> = self
            .violations
            .iter()
            .map(|(sig, (n, ex))| json!({"sig": sig, "count": n, "examples": ex}))
            .collect();
        let out = json!({
            "property": self.property,
            "seed": self.args.seed,
            "shard": self.args.shard,
            "nshards": self.args.nshards,
            "tier": match self.args.tier { Tier::Quick => "quick", Tier::Thorough => "thorough" },
            "evaluations": self.evaluations,
            "inconclusive": self.inconclusive,
            "sigs": self.sigs.iter().map(|s| format!("{s:016x}")).collect::<Vec<_>>(),
            "sigs_overflow": self.sigs_overflow,
            "counters": self.counters,
            "samples": self.samples,
            "violations": violations,
            "exhaustive": self.exhaustive,
            "notes": self.notes,
            "wall_s": self.start.elapsed().as_secs_f64(),
        });
        let s = serde_json::to_string(&out).expect("serialize result");
        std::fs::write(&self.args.out, s).expect("write result file");
    }
}

/// Reader wrapper that counts consumed bytes (for "never reads past what it
/// reports as consumed").
pub struct CountingReader<'a> {
    pub data: &'a [u8],
    pub pos: usize,
    pub max_request: usize,
}

impl<'a> CountingReader<'a> {
    pub fn new(data: &'a [u8]) -> Self {
        CountingReader {
            data,
            pos: 0,
            max_request: 0,
        }
    }
}

impl std::io::Read for CountingReader<'_> {
    fn read(&mut self, buf: &mut [u8]) -> std::io::Result<usize> {
        self.max_request = self.max_request.max(buf.len());
        let n = buf.len().min(self.data.len() - self.pos);
        buf[..n].copy_from_slice(&self.data[self.pos..self.pos + n]);
        self.pos += n;
        Ok(n)
    }
}

pub fn hexs(b: &[u8]) -> String {
    hex::encode(b)
}

/// Root of the repository under test (`/repo`, or the scratch worktree named by `VERIF_REPO`).
pub fn repo_root() -> PathBuf {
    PathBuf::from(std::env::var("VERIF_REPO").unwrap_or_else(|_| "/repo".to_string()))
}
