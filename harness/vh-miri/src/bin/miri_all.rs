//! Miri-sized workloads: the undefined-behaviour interpreter is the monitor (UB, uninitialised
//! reads, out-of-bounds, invalid values, arithmetic overflow and debug assertions in every crate
//! reached, dependencies included). Each section also keeps a cheap functional oracle so that the
//! run is not vacuous. `--section <name>` selects one section; `--ops N` bounds it.

use std::num::{NonZeroU64, NonZeroUsize};

use rand::{Rng, RngCore};
use vh_common::{guard, json, panic_class, Args, Reporter};

fn value(r: &mut Reporter, rng: &mut impl Rng, ops: u64) {
    use zcash_protocol::value::{ZatBalance, Zatoshis, MAX_MONEY};
    let m = MAX_MONEY as i128;
    let pts: [i128; 12] = [0, 1, -1, m, -m, m - 1, m + 1, -(m + 1), i64::MAX as i128, i64::MIN as i128, u64::MAX as i128, m / 2];
    for i in 0..ops {
        let x = if i % 3 == 0 { pts[rng.gen_range(0..pts.len())] } else { rng.gen_range(-m - 5..=m + 5) };
        let y = pts[rng.gen_range(0..pts.len())];
        r.case(&("value", x.signum(), y.signum()), true);
        if let (Ok(a), Ok(b)) = (i64::try_from(x), i64::try_from(y)) {
            if let (Ok(a), Ok(b)) = (ZatBalance::from_i64(a), ZatBalance::from_i64(b)) {
                let s = (a + b).map(i64::from).map(|v| v as i128);
                let want = if (-m..=m).contains(&(x + y)) { Some(x + y) } else { None };
                if s != want {
                    r.violation("C09:miri:ZatBalance+ZatBalance:wrong", format!("{x}+{y} -> {s:?}"), json!({"x": x.to_string(), "y": y.to_string()}));
                }
                let _ = a - b;
                let _ = -a;
                let _ = a * (rng.r#gen::<u32>() as usize);
                let _ = a.to_i64_le_bytes();
            }
        }
        if let Ok(u) = u64::try_from(x) {
            if let Ok(z) = Zatoshis::from_u64(u) {
                let k = rng.gen_range(0..5u64);
                let p = (z * k).map(|v| v.into_u64() as i128);
                let want = if (0..=m).contains(&(x * k as i128)) { Some(x * k as i128) } else { None };
                if p != want {
                    r.violation("C09:miri:Zatoshis*u64:wrong", format!("{x}*{k} -> {p:?}"), json!({"x": x.to_string()}));
                }
                let _ = z.div_with_remainder(NonZeroU64::new(k + 1).unwrap());
                let mut w = vec![];
                z.write(&mut w).unwrap();
                if Zatoshis::read(&w[..]).ok() != Some(z) {
                    r.violation("C09:miri:Zatoshis:write-read", format!("{x}"), json!({}));
                }
            }
            let _ = Zatoshis::from_u64_le_bytes(u.to_le_bytes());
        }
    }
}

fn encoding(r: &mut Reporter, rng: &mut impl Rng, ops: u64) {
    use zcash_encoding5::{CompactSize, Optional, Vector};
    let edges: [u64; 10] = [0, 252, 253, 0xffff, 0x10000, 0xffff_ffff, 0x1_0000_0000, 0x0200_0000, 0x0200_0001, u64::MAX];
    for i in 0..ops {
        let n = if i % 2 == 0 { edges[rng.gen_range(0..edges.len())] } else { rng.r#gen::<u64>() >> rng.gen_range(0..64) };
        r.case(&("encoding", n.checked_ilog2()), true);
        let mut w = vec![];
        match CompactSize::write(&mut w, n as usize) {
            Ok(()) => {
                let back = CompactSize::read(&w[..]);
                if n <= 0x0200_0000 && back.ok() != Some(n) {
                    r.violation("C03:miri:CompactSize:roundtrip", format!("{n}"), json!({"n": n}));
                }
            }
            Err(_) => {
                if n <= 0x0200_0000 {
                    r.violation("C03:miri:CompactSize:write-refused-in-range", format!("{n}"), json!({"n": n}));
                }
            }
        }
        let mut w2 = vec![];
        let _ = CompactSize::write_unbounded(&mut w2, n);
        if CompactSize::read_unbounded(&w2[..]).ok() != Some(n) {
            r.violation("C03:miri:CompactSize:unbounded-roundtrip", format!("{n}"), json!({"n": n}));
        }
        // arbitrary bytes
        let len = rng.gen_range(0..12);
        let bytes: Vec<u8> = (0..len).map(|_| if rng.gen_bool(0.4) { [0xfd, 0xfe, 0xff, 0][rng.gen_range(0..4)] } else { rng.r#gen() }).collect();
        if let Ok(v) = CompactSize::read(&bytes[..]) {
            let mut w3 = vec![];
            CompactSize::write(&mut w3, v as usize).unwrap();
            if !bytes.starts_with(&w3) {
                r.violation("C03:miri:CompactSize:non-canonical-accepted", format!("{bytes:02x?}"), json!({}));
            }
        }
        let _ = Vector::read(&bytes[..], |rd| { let mut b = [0u8; 1]; std::io::Read::read_exact(rd, &mut b).map(|_| b[0]) });
        let _ = Optional::read(&bytes[..], |mut rd| { let mut b = [0u8; 2]; std::io::Read::read_exact(&mut rd, &mut b).map(|_| b) });
        let items: Vec<u8> = bytes.clone();
        let mut w4 = vec![];
        Vector::write(&mut w4, &items, |w, b| std::io::Write::write_all(w, &[*b])).unwrap();
        let back = Vector::read(&w4[..], |rd| { let mut b = [0u8; 1]; std::io::Read::read_exact(rd, &mut b).map(|_| b[0]) }).unwrap();
        if back != items {
            r.violation("C03:miri:Vector:roundtrip", format!("{items:?}"), json!({}));
        }
    }
}

fn address(r: &mut Reporter, rng: &mut impl Rng, ops: u64) {
    use zcash_address::ZcashAddress;
    let mut runner = vh_common::proptest_runner(rng.r#gen(), 1);
    let seeds = [
        "t1Hsc1LR8yKnbbe3twRp88p6vFfC5t7DLbs",
        "zs1qqqqqqqqqqqqqqqqqqqqqqqqqqqqqqqqqqqqqqqqqqqqqqqqqqqqqqqqqqqqqqqqqqqqpq6d8g",
        "tex1s2rt77ggv6q989lr49rkgzmh5slsksa9khdgte",
        "u1qpatys4zruk99pg59gcscrt7y6akvl9vrhcfyhm9yxvxz7h87q6n8cgrzzpe9zru68uq39uhmlpp5uefxu0su5uqyqfe5zp3tycn0ecl",
    ];
    for i in 0..ops {
        let s = if i % 3 == 0 {
            vh_common::draw(&mut runner, &zcash_address::testing::arb_address(zcash_protocol::consensus::NetworkType::Main)).map(|a| a.encode())
        } else {
            None
        }
        .unwrap_or_else(|| {
            // near-valid: mutate one character of a valid string, or garbage
            let mut b: Vec<char> = seeds[rng.gen_range(0..seeds.len())].chars().collect();
            match rng.gen_range(0..4) {
                0 => { let j = rng.gen_range(0..b.len()); b[j] = (b'a' + rng.gen_range(0..26)) as char; }
                1 => { b.truncate(rng.gen_range(0..b.len())); }
                2 => { b.push('q'); }
                _ => { b = (0..rng.gen_range(0..40)).map(|_| char::from_u32(rng.gen_range(0x20..0x2fff)).unwrap_or('x')).collect(); }
            }
            b.into_iter().collect()
        });
        r.case(&("address", s.len() / 8, s.chars().next()), true);
        match guard(|| ZcashAddress::try_from_encoded(&s)) {
            Err(p) => r.violation(&format!("C10:miri:parse-panic:{}", panic_class(&p)), p, json!({"s": s})),
            Ok(Ok(a)) => {
                r.count("addresses_accepted", 1);
                let e = a.encode();
                if ZcashAddress::try_from_encoded(&e).ok().as_ref() != Some(&a) {
                    r.violation("C10:miri:encode-does-not-parse-back", s.clone(), json!({"s": s}));
                }
            }
            Ok(Err(_)) => r.count("addresses_rejected", 1),
        }
        if i % 8 == 0 {
            let len = [48usize, 49, 64, 128, 200][rng.gen_range(0..5)];
            let mut m = vec![0u8; len];
            rng.fill_bytes(&mut m);
            let j = f4jumble::f4jumble(&m).unwrap();
            if f4jumble::f4jumble_inv(&j).unwrap() != m {
                r.violation("C10:miri:f4jumble:not-inverse", format!("len {len}"), json!({}));
            }
            r.count("f4jumble_roundtrips", 1);
        }
    }
}

fn zip321(r: &mut Reporter, rng: &mut impl Rng, ops: u64) {
    use zip321::TransactionRequest;
    // hand-built requests (the proptest strategy is far too slow under Miri)
    let addrs = ["tmEZhbWHTpdKMw5it8YDspUXSMGQyFwovpU", "ztestsapling10yy2ex5dcqkclhc7z7yrnjq2z6feyjad56ptwlfgmy77dmaqqrl9gyhprdx59qgmsnyfska2kez"];
    let amounts = ["0", "1", "0.00000001", "1.5", "20999999.99999999", "21000000", "0.1", "123.456"];
    let labels = ["", "a%20b", "%E2%82%AC", "x&y", "p%26q%3Dr", "lunch"];
    for i in 0..ops {
        r.case(&("zip321", i % 4), true);
        let n = rng.gen_range(1..4);
        let mut uri = String::from("zcash:?");
        for j in 0..n {
            let sfx = if j == 0 { String::new() } else { format!(".{j}") };
            let a = addrs[rng.gen_range(0..addrs.len())];
            if j > 0 { uri.push('&'); }
            uri.push_str(&format!("address{sfx}={a}&amount{sfx}={}", amounts[rng.gen_range(0..amounts.len())]));
            if rng.gen_bool(0.5) { uri.push_str(&format!("&label{sfx}={}", labels[rng.gen_range(0..labels.len())])); }
            if a.starts_with('z') && rng.gen_bool(0.5) { uri.push_str(&format!("&memo{sfx}=VGhpcyBpcyBhIG1lbW8")); }
        }
        if i % 2 == 1 {
            let mut b: Vec<u8> = uri.bytes().collect();
            for _ in 0..rng.gen_range(1..3) {
                let j = rng.gen_range(0..b.len());
                match rng.gen_range(0..3) {
                    0 => b[j] = b"%&=.?0129aZ+"[rng.gen_range(0..12)],
                    1 => { b.remove(j); }
                    _ => b.insert(j, b"%&=.?0"[rng.gen_range(0..6)]),
                }
            }
            uri = String::from_utf8_lossy(&b).into_owned();
        }
        match guard(|| TransactionRequest::from_uri(&uri)) {
            Err(p) => r.violation(&format!("C12:miri:parse-panic:{}", panic_class(&p)), p, json!({"uri": uri})),
            Ok(Ok(req)) => {
                r.count("zip321_accepted", 1);
                let again = TransactionRequest::from_uri(&req.to_uri());
                if again.ok().as_ref() != Some(&req) {
                    r.violation("C12:miri:accepted-uri-does-not-rerender", uri.clone(), json!({"uri": uri}));
                }
                if req.payments().iter().any(|(_, p)| p.amount().map_or(false, |a| a.into_u64() > 2_100_000_000_000_000)) {
                    r.violation("C12:miri:amount-out-of-range-accepted", uri.clone(), json!({"uri": uri}));
                }
            }
            Ok(Err(_)) => r.count("zip321_rejected", 1),
        }
    }
}

fn spanning(r: &mut Reporter, rng: &mut impl Rng, ops: u64) {
    use zcash_client_backend::data_api::scanning::{spanning_tree::SpanningTree, ScanPriority, ScanRange};
    use zcash_protocol::consensus::BlockHeight;
    let prios = [ScanPriority::Ignored, ScanPriority::Scanned, ScanPriority::Historic, ScanPriority::OpenAdjacent, ScanPriority::FoundNote, ScanPriority::ChainTip, ScanPriority::Verify];
    let mk = |rng: &mut dyn RngCore| {
        let a = rng.next_u32() % 12;
        let b = a + 1 + rng.next_u32() % 6;
        ScanRange::from_parts(BlockHeight::from_u32(a)..BlockHeight::from_u32(b), prios[(rng.next_u32() % 7) as usize])
    };
    for _ in 0..ops {
        let mut t = SpanningTree::Leaf(mk(rng));
        let n = rng.gen_range(1..7);
        for _ in 0..n {
            let ins = mk(rng);
            let force = rng.gen_bool(0.3);
            t = t.insert(ins, force);
        }
        let v = t.into_vec();
        r.case(&("spanning", n, v.len()), true);
        for w in v.windows(2) {
            if w[0].block_range().end != w[1].block_range().start || w[0].priority() == w[1].priority() {
                r.violation("C15:miri:partition-broken", format!("{v:?}"), json!({}));
            }
        }
    }
}

fn equihash_s(r: &mut Reporter, rng: &mut impl Rng, ops: u64) {
    for i in 0..ops {
        let (n, k) = [(48u32, 5u32), (96, 5), (96, 3), (200, 9), (144, 5)][rng.gen_range(0..5)];
        let len = if i % 2 == 0 { ((1usize << k) * (n as usize / (k as usize + 1) + 1)) / 8 } else { rng.gen_range(0..200) };
        let mut soln = vec![0u8; len];
        rng.fill_bytes(&mut soln);
        let mut input = vec![0u8; 108];
        rng.fill_bytes(&mut input);
        r.case(&("equihash", n, k, len), true);
        match guard(|| equihash::is_valid_solution(n, k, &input, &[1u8; 32], &soln)) {
            Err(p) => r.violation(&format!("C19:miri:panic:{}", panic_class(&p)), p, json!({"n": n, "k": k, "len": len})),
            Ok(Ok(())) => r.violation("C19:miri:random-bytes-accepted", format!("n={n} k={k}"), json!({})),
            Ok(Err(_)) => r.count("equihash_rejections", 1),
        }
    }
}

fn history(r: &mut Reporter, rng: &mut impl Rng, ops: u64) {
    use zcash_history::{Entry, NodeData, Tree, V1};
    let leaf = |h: u64, rng: &mut dyn RngCore| NodeData {
        consensus_branch_id: 0x2bb40e60,
        subtree_commitment: { let mut b = [0u8; 32]; rng.fill_bytes(&mut b); b },
        start_time: h as u32 * 75,
        end_time: h as u32 * 75,
        start_target: 0x1f07ffff,
        end_target: 0x1f07ffff,
        start_sapling_root: [h as u8; 32],
        end_sapling_root: [h as u8; 32],
        subtree_total_work: primitive_types::U256::from(rng.next_u64()),
        start_height: h,
        end_height: h,
        sapling_tx: rng.next_u64() % 50,
    };
    for _ in 0..ops.div_ceil(20).max(1) {
        let first = leaf(1, rng);
        let mut tree: Tree<V1> = Tree::new(1, vec![(0, Entry::new_leaf(first))], vec![]);
        let mut roots: Vec<Vec<u8>> = vec![];
        let n = rng.gen_range(3..18u64);
        for h in 2..=n {
            roots.push(tree.root_node().unwrap().data().to_bytes());
            if tree.append_leaf(leaf(h, rng)).is_err() {
                r.violation("C20:miri:append-failed", format!("h={h}"), json!({}));
            }
            r.case(&("history-append", h), true);
        }
        while let Some(prev) = roots.pop() {
            if tree.truncate_leaf().is_err() {
                r.violation("C20:miri:truncate-failed", String::new(), json!({}));
                break;
            }
            r.case(&("history-truncate", roots.len()), true);
            let now = tree.root_node().unwrap().data().to_bytes();
            if now != prev {
                r.violation("C20:miri:append-then-truncate-does-not-restore-root", format!("at {} leaves", roots.len() + 1), json!({}));
            }
            // node record round trip
            match NodeData::from_bytes(0x2bb40e60, &now[..]) {
                Ok(nd) if nd.to_bytes() == now => {}
                other => r.violation("C20:miri:node-roundtrip", format!("{:?}", other.is_ok()), json!({})),
            }
        }
    }
}

fn tx(r: &mut Reporter, rng: &mut impl Rng, ops: u64) {
    use zcash_primitives::transaction::Transaction;
    use zcash_protocol::consensus::BranchId;
    // transparent-only v4/v5 shells built by hand (shielded parsing is far too slow under Miri)
    let v5_empty = |lock: u32, exp: u32| {
        let mut b = vec![];
        b.extend_from_slice(&(5u32 | 1 << 31).to_le_bytes());
        b.extend_from_slice(&0x26A7270Au32.to_le_bytes());
        b.extend_from_slice(&u32::from(BranchId::Nu5).to_le_bytes());
        b.extend_from_slice(&lock.to_le_bytes());
        b.extend_from_slice(&exp.to_le_bytes());
        b.extend_from_slice(&[0, 0, 0, 0, 0]); // tin, tout, sapling spends, sapling outputs, orchard actions
        b
    };
    for _ in 0..ops {
        let mut bytes = v5_empty(rng.r#gen(), rng.r#gen::<u32>() % 500_000_000);
        let mutate = rng.gen_range(0..4);
        match mutate {
            0 => {}
            1 => { let j = rng.gen_range(0..bytes.len()); bytes[j] ^= 1 << rng.gen_range(0..8); }
            2 => { bytes.truncate(rng.gen_range(0..bytes.len())); }
            _ => { let j = rng.gen_range(20..bytes.len()); bytes[j] = [0xfd, 0xfe, 0xff][rng.gen_range(0..3)]; }
        }
        r.case(&("tx", mutate, bytes.len()), true);
        match guard(|| Transaction::read(&bytes[..], BranchId::Nu5)) {
            Err(p) => r.violation(&format!("C03:miri:tx-read-panic:{}", panic_class(&p)), p, json!({"hex": vh_common::hexs(&bytes)})),
            Ok(Ok(t)) => {
                let mut w = vec![];
                t.write(&mut w).unwrap();
                r.count("txs_accepted", 1);
                if !bytes.starts_with(&w) {
                    r.violation("C03:miri:tx-accepted-but-reserialises-differently", vh_common::hexs(&bytes), json!({}));
                }
            }
            Ok(Err(_)) => r.count("txs_rejected", 1),
        }
    }
}

fn planner(r: &mut Reporter, rng: &mut impl Rng, ops: u64) {
    use zcash_pool_migration::denomination::plan_denominations;
    use zcash_protocol::value::Zatoshis;
    for _ in 0..ops {
        let total = match rng.gen_range(0..4) {
            0 => [1_000_000u64, 999_999, 1_015_000, 100_000_000, 2_100_000_000_000_000][rng.gen_range(0..5)],
            _ => rng.gen_range(0..5_000_000_000u64),
        };
        let cap = rng.gen_range(1..20usize);
        let buffer = [0u64, 15_000, 100_000][rng.gen_range(0..3)];
        let fee = [0u64, 5_000, 80_000][rng.gen_range(0..3)];
        let behaviour = rng.gen_range(0..4);
        let oracle = move |notes: &[Zatoshis]| -> Option<usize> {
            match behaviour {
                0 => Some(notes.len().div_ceil(8)),
                1 => None,
                2 => Some(usize::MAX),
                _ => Some(notes.len() * 3),
            }
        };
        r.case(&("planner", cap, behaviour, total.checked_ilog10()), true);
        let mut rng2 = vh_common::rng(total, 5);
        let res = guard(|| plan_denominations(Zatoshis::from_u64(total).unwrap(), rng.gen_range(0..4), NonZeroUsize::new(cap).unwrap(), Zatoshis::from_u64(buffer).unwrap(), Zatoshis::from_u64(fee).unwrap(), &oracle, &mut rng2));
        match res {
            Err(p) => r.violation(&format!("C16:miri:plan-panic:{}", panic_class(&p)), p, json!({"total": total, "cap": cap, "buffer": buffer, "fee": fee, "oracle": behaviour})),
            Ok(_) => r.count("plans", 1),
        }
    }
}

fn main() {
    vh_common::install_panic_hook();
    let args = Args::parse();
    let section = args.extra.get("section").cloned().unwrap_or_else(|| "none".into());
    let ops = args.get_u64("ops", 50);
    let prop = match section.as_str() {
        "value" => "C09", "encoding" | "tx" => "C03", "address" => "C10", "zip321" => "C12", "spanning" => "C15",
        "equihash" => "C19", "history" => "C20", "planner" => "C16", _ => "none",
    };
    let mut r = Reporter::new(prop, &args);
    let mut rng = vh_common::rng(args.shard_seed(), 77);
    match section.as_str() {
        "value" => value(&mut r, &mut rng, ops),
        "encoding" => encoding(&mut r, &mut rng, ops),
        "address" => address(&mut r, &mut rng, ops),
        "zip321" => zip321(&mut r, &mut rng, ops),
        "spanning" => spanning(&mut r, &mut rng, ops),
        "equihash" => equihash_s(&mut r, &mut rng, ops),
        "history" => history(&mut r, &mut rng, ops),
        "tx" => tx(&mut r, &mut rng, ops),
        "planner" => planner(&mut r, &mut rng, ops),
        _ => {}
    }
    r.count(&format!("miri_section_{section}_ops"), ops);
    r.finish();
}
