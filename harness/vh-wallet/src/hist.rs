//! History engine: generates and executes random wallet histories (mine / scan in any order and
//! chunking / tip updates / rewinds with a different continuation) against the real wallet, and
//! calls the property monitors after every operation.

use std::collections::BTreeSet;

use rand::seq::SliceRandom;
use rand::Rng;
use rand_chacha::ChaCha20Rng;
use vh_common::{json, Reporter, Value};
use zcash_client_backend::data_api::chain::ChainState;
use zcash_primitives::block::BlockHash;
use zcash_protocol::{consensus::BlockHeight, local_consensus::LocalNetwork};

use crate::sim::{BuiltTx, ChainSim, Pool, POOLS};
use crate::wallet::{WalletConfig, WalletUnderTest};

/// Tracks the trigger condition of known finding F1 (shardtree 0.7.0 `truncate_to_position`
/// keeps stale parent annotations): a frontier inserted by an earlier `put_blocks` decomposes
/// `[0, size)` into aligned complete subtrees whose hashes are stored as annotations; if a later
/// truncation position falls strictly inside one of them, that annotation survives although
/// leaves under it were removed.
#[derive(Clone, Debug, Default)]
pub struct F1Tracker {
    /// per pool: aligned subtrees `[a, b)` (b - a >= 2) carried by inserted frontiers
    blocks: [BTreeSet<(u64, u64)>; 3],
    pub tainted: [bool; 3],
}

impl F1Tracker {
    pub fn on_frontier(&mut self, pool: Pool, size: u64) {
        let mut a = 0u64;
        for l in (0..63).rev() {
            if (size >> l) & 1 == 1 {
                let b = a + (1u64 << l);
                if l >= 1 {
                    self.blocks[pool.idx()].insert((a, b));
                }
                a = b;
            }
        }
    }

    /// Returns true if the truncation to `position` (tree size kept) exposes F1 in this pool.
    pub fn on_truncate(&mut self, pool: Pool, position: u64) -> bool {
        let s = &mut self.blocks[pool.idx()];
        let straddle = s.iter().any(|(a, b)| *a < position && position < *b);
        s.retain(|(_, b)| *b <= position);
        if straddle {
            self.tainted[pool.idx()] = true;
        }
        straddle
    }

    pub fn on_subtree_root(&mut self, pool: Pool, index: u64) {
        self.blocks[pool.idx()].insert((index << 16, (index + 1) << 16));
    }

    pub fn any_tainted(&self) -> bool {
        self.tainted.iter().any(|t| *t)
    }
}

#[derive(Clone, Debug)]
pub struct HistCfg {
    pub pools: Vec<Pool>,
    pub n_accounts: usize,
    pub nu6_3: bool,
    pub retention: Option<u32>,
    pub file_backed: bool,
    pub initial_len: u32,
    pub max_batch: u32,
    pub out_of_order: bool,
    pub max_rewinds: u32,
    pub steps: u32,
    pub spend_bias: f64,
    /// start heights this far above activation (so the chain state before is empty)
    pub base_offset: u32,
    /// bias rewinds towards ones that do not trigger known finding F1
    pub avoid_f1: bool,
    /// never scan above the height the wallet knows as chain tip: tell it the tip first (the
    /// scan-queue property quantifies over scans inside the wallet's known extent)
    pub tip_before_scan: bool,
    /// extra foreign outputs per transaction (dense blocks: batches with more than 1024
    /// commitments per pool take the parallel subtree-building path)
    pub dense_outputs: u32,
    /// start next to a 2^16 subtree boundary (random prior frontier + prior subtree roots), so that
    /// shards complete during the history and `put_*_subtree_roots` is exercised with true roots
    pub shard_start: bool,
    /// NU6.3 activates this many blocks ABOVE the base height (0 = active from the start): the
    /// retention floor and the first Ironwood commitments then fall inside the scanned chain
    pub nu6_3_late: u32,
    /// a pool that receives its first commitment only this many blocks above the base
    pub late_pool: Option<(Pool, u32)>,
    /// also hand the wallet transparent coins (put_received_transparent_utxo)
    pub coins: bool,
    /// probability that a mined block carries no transaction at all (commitment-free blocks)
    pub sparse: f64,
    /// in the late-pool shape, scan the initial chain in ONE batch (no intermediate frontier is
    /// inserted, so the rewind that follows cannot meet known finding F1)
    pub late_one_batch: bool,
    /// blocks on the retention grid carry no transaction and every other block carries at least one
    pub empty_on_grid: bool,
    /// with `empty_on_grid`: only about half of the grid blocks are empty (the others keep their
    /// commitments and so stay retained anchors BELOW later empty boundaries)
    pub empty_on_grid_half: bool,
    /// scan the whole initial chain in ONE batch first (a batch deeper than the pruning window)
    pub initial_one_batch: bool,
    /// now and then `rewind_to_chain_state` to a target MORE than the pruning depth below the
    /// highest scanned block (the chain itself does not change: the wallet forgets and re-scans)
    pub deep_state_rewinds: bool,
    /// now and then tell the wallet a chain tip exactly around 100 blocks above its highest scanned
    /// block (the edge of the "last scanned block is stable" rule of `update_chain_tip`)
    pub tip_at_stability_edge: bool,
}

impl HistCfg {
    pub fn random(rng: &mut ChaCha20Rng, thorough: bool) -> Self {
        let all = rng.gen_bool(0.5);
        let mut pools: Vec<Pool> = if all {
            POOLS.to_vec()
        } else {
            let k = rng.gen_range(1..=2);
            let mut p = POOLS.to_vec();
            p.shuffle(rng);
            p.truncate(k);
            p
        };
        pools.sort();
        let nu6_3 = pools.contains(&Pool::Ironwood) || rng.gen_bool(0.3);
        let initial_len = match rng.gen_range(0..10) {
            0..=3 => rng.gen_range(20..60),
            4..=7 => rng.gen_range(60..160),
            _ => {
                if thorough {
                    rng.gen_range(160..400)
                } else {
                    rng.gen_range(160..260)
                }
            }
        };
        HistCfg {
            pools,
            n_accounts: if rng.gen_bool(0.6) { 2 } else { 1 },
            nu6_3,
            retention: if nu6_3 && rng.gen_bool(0.7) {
                Some(rng.gen_range(5..38))
            } else {
                None
            },
            file_backed: false,
            initial_len,
            max_batch: *[3u32, 10, 30, 150].choose(rng).unwrap(),
            out_of_order: rng.gen_bool(0.75),
            max_rewinds: rng.gen_range(0..=3),
            steps: rng.gen_range(10..60),
            spend_bias: *[0.2, 0.5, 0.8].choose(rng).unwrap(),
            base_offset: rng.gen_range(0..50),
            avoid_f1: rng.gen_bool(0.6),
            tip_before_scan: false,
            dense_outputs: 0,
            shard_start: false,
            nu6_3_late: 0,
            late_pool: None,
            coins: false,
            sparse: 0.0,
            late_one_batch: false,
            empty_on_grid: false,
            empty_on_grid_half: false,
            initial_one_batch: false,
            deep_state_rewinds: false,
            tip_at_stability_edge: false,
        }
    }

    /// A short directed history (a few seconds): either NU6.3 activating inside the scanned chain
    /// with a dense retention grid over mostly empty blocks (`kind` even), or a pool whose first
    /// commitment arrives late, scanned in one batch, rewound to its empty tree and continued on a
    /// different chain (`kind` odd).
    pub fn micro(rng: &mut ChaCha20Rng, kind: u64) -> Self {
        let mut c = HistCfg::random(rng, false);
        c.base_offset = rng.gen_range(0..50);
        c.max_batch = 150;
        c.steps = rng.gen_range(4..10);
        c.shard_start = false;
        c.dense_outputs = 0;
        if kind % 3 == 2 {
            // one batch deeper than the pruning window, every block with commitments except the
            // blocks on the retention grid
            // (with the upgrade inactive in a third of them: no retention grid, but blocks whose only
            // commitments are in ANOTHER pool still get a synthesised checkpoint)
            c.nu6_3 = kind % 9 != 8;
            c.nu6_3_late = 0;
            c.retention = if c.nu6_3 { Some(rng.gen_range(8..20)) } else { None };
            c.initial_len = rng.gen_range(135..150);
            c.empty_on_grid = c.nu6_3;
            c.empty_on_grid_half = kind % 2 == 0;
            c.initial_one_batch = true;
            if c.nu6_3 {
                // one busy pool: more than 100 of its blocks are checkpointed inside the batch
                c.pools.truncate(1);
            } else {
                c.pools = vec![Pool::Sapling, Pool::Orchard];
            }
            c.max_rewinds = rng.gen_range(0..=1);
            c.out_of_order = false;
            c.steps = rng.gen_range(2..6);
            return c;
        }
        if kind % 2 == 0 {
            c.nu6_3 = true;
            c.nu6_3_late = rng.gen_range(2..25);
            c.retention = Some(rng.gen_range(2..7));
            c.initial_len = c.nu6_3_late + rng.gen_range(10..40);
            c.sparse = 0.6;
            c.max_rewinds = rng.gen_range(0..=1);
            c.out_of_order = rng.gen_bool(0.5);
        } else {
            if c.pools.len() < 2 {
                c.pools = POOLS.to_vec();
            }
            c.nu6_3 = c.nu6_3 || c.pools.contains(&Pool::Ironwood);
            let lp = *c.pools.last().unwrap();
            let k = rng.gen_range(4..13);
            c.late_pool = Some((lp, k));
            c.initial_len = k + rng.gen_range(8..30);
            c.late_one_batch = true;
            c.max_rewinds = 2;
            c.avoid_f1 = true;
            c.sparse = 0.1;
        }
        c
    }

    pub fn base_height(&self) -> u32 {
        100_000 + self.base_offset + if self.shard_start { 3000 } else { 0 }
    }

    /// Height at which NU6.3 (Ironwood, anchor retention) activates, if at all.
    pub fn nu6_3_activation(&self) -> Option<u32> {
        if !self.nu6_3 {
            None
        } else if self.nu6_3_late == 0 {
            Some(100_000)
        } else {
            Some(self.base_height() + self.nu6_3_late)
        }
    }

    pub fn network(&self) -> LocalNetwork {
        let act = Some(BlockHeight::from_u32(100_000));
        LocalNetwork {
            overwinter: Some(BlockHeight::from_u32(1)),
            sapling: act,
            blossom: act,
            heartwood: act,
            canopy: act,
            nu5: act,
            nu6: act,
            nu6_1: act,
            nu6_2: act,
            nu6_3: self.nu6_3_activation().map(BlockHeight::from_u32),
        }
    }

    pub fn to_json(&self) -> Value {
        json!({
            "pools": self.pools.iter().map(|p| p.name()).collect::<Vec<_>>(),
            "accounts": self.n_accounts, "nu6_3": self.nu6_3, "retention": self.retention,
            "initial_len": self.initial_len, "max_batch": self.max_batch,
            "out_of_order": self.out_of_order, "max_rewinds": self.max_rewinds, "steps": self.steps,
            "spend_bias": self.spend_bias, "avoid_f1": self.avoid_f1, "shard_start": self.shard_start, "dense_outputs": self.dense_outputs, "nu6_3_late": self.nu6_3_late,
            "late_pool": self.late_pool.map(|(p, k)| format!("{}@+{k}", p.name())),
            "sparse": self.sparse, "late_one_batch": self.late_one_batch, "empty_on_grid": self.empty_on_grid, "empty_on_grid_half": self.empty_on_grid_half, "initial_one_batch": self.initial_one_batch,
        })
    }
}

#[derive(Clone, Debug)]
pub enum Op {
    Mine { n: u32 },
    Scan { from: u32, limit: u32, ok: bool, err: Option<String> },
    Tip { h: u32 },
    Rewind { to: u32, actual: Option<u32>, f1: bool },
    /// `rewind_to_chain_state(state at to)`; `floor` = highest block the wallet still holds afterwards
    RewindToState { to: u32, ok: bool, floor: u32, err: Option<String> },
    PutRoots { pool: &'static str, index: u64 },
    Coin { account: usize, value: u64, height: u32 },
    Finish,
}

impl Op {
    pub fn to_json(&self) -> Value {
        match self {
            Op::Mine { n } => json!({"op":"mine","n":n}),
            Op::Scan { from, limit, ok, err } => json!({"op":"scan","from":from,"limit":limit,"ok":ok,"err":err}),
            Op::Tip { h } => json!({"op":"tip","h":h}),
            Op::Rewind { to, actual, f1 } => json!({"op":"rewind","to":to,"actual":actual,"f1":f1}),
            Op::RewindToState { to, ok, floor, err } => json!({"op":"rewind_to_chain_state","to":to,"ok":ok,"floor":floor,"err":err}),
            Op::PutRoots { pool, index } => json!({"op":"put_subtree_roots","pool":pool,"index":index}),
            Op::Coin { account, value, height } => json!({"op":"coin","account":account,"value":value,"height":height}),
            Op::Finish => json!({"op":"finish"}),
        }
    }
}

pub struct Hist {
    pub id: u64,
    pub cfg: HistCfg,
    pub sim: ChainSim,
    pub w: WalletUnderTest,
    pub f1: F1Tracker,
    pub rng: ChaCha20Rng,
    pub ops: Vec<Op>,
    /// events the monitors may want to count
    pub spend_before_receipt: u64,
    pub floor_batches: u64,
    pub dup_scans: u64,
    pub rewinds_done: u32,
    pub rewinds_f1: u32,
    pub rewinds_refused: u32,
    /// orphaned transactions available for re-mining
    pub orphan_pool: Vec<BuiltTx>,
    pub remined: u64,
    /// a scan failed in a way only explained by F1 (after a tainted truncation)
    pub f1_scan_failures: u64,
    pub aborted: Option<String>,
    /// completed subtrees whose true root has been handed to the wallet: (pool, index)
    pub roots_given: BTreeSet<(Pool, u64)>,
    pub subtree_roots_put: u64,
    pub deep_rewinds_attempted: u64,
    /// transparent coins handed to the wallet
    pub coins: Vec<Coin>,
    /// successful scan batches with NU6.3 activating strictly inside them while a retention policy is set
    pub batches_straddling_activation: u64,
    /// accepted rewinds that emptied the tree of a pool which had leaves in scanned blocks above
    pub rewinds_to_empty_tree: u64,
    pub state_rewinds_done: u64,
    pub state_rewinds_refused: u64,
    pub tips_at_stability_edge: u64,
}

#[derive(Clone, Debug)]
pub struct Coin {
    pub account: usize,
    pub value: u64,
    /// height it was reported mined at
    pub height: u32,
    /// false once a truncation below `height` un-mined it
    pub mined: bool,
}

pub trait Monitor {
    /// Called after every executed operation.
    fn after_op(&mut self, h: &mut Hist, r: &mut Reporter);
    /// Called once at the end, after the engine has tried to complete the scan.
    fn at_end(&mut self, h: &mut Hist, r: &mut Reporter);
}

impl Hist {
    pub fn new(cfg: HistCfg, mut rng: ChaCha20Rng) -> Self {
        let net = cfg.network();
        let base_h = 100_000 + cfg.base_offset;
        let mut hash = [0u8; 32];
        rand::RngCore::fill_bytes(&mut rng, &mut hash);
        let mut prior_roots: [Vec<[u8; 32]>; 3] = Default::default();
        let (base_h, base) = if cfg.shard_start {
            use incrementalmerkletree::frontier::Frontier;
            use std::num::NonZeroU8;
            let base_h = base_h + 3000;
            let d16 = NonZeroU8::new(16).unwrap();
            // every pool starts non-empty (as on a real chain); pools the history uses start just
            // below a subtree boundary
            let size = |rng: &mut ChaCha20Rng, used: bool| -> u64 {
                if used { (1u64 << 16) * rng.gen_range(1..=2) - rng.gen_range(3..60) } else { rng.gen_range(5..2000) }
            };
            let (sz_s, sz_o, sz_i) = (
                size(&mut rng, cfg.pools.contains(&Pool::Sapling)),
                size(&mut rng, cfg.pools.contains(&Pool::Orchard)),
                if cfg.nu6_3 { size(&mut rng, cfg.pools.contains(&Pool::Ironwood)) } else { 0 },
            );
            let (rs, fs) = Frontier::<sapling::Node, 32>::random_with_prior_subtree_roots(&mut rng, sz_s, d16);
            let (ro, fo) = Frontier::<orchard::tree::MerkleHashOrchard, 32>::random_with_prior_subtree_roots(&mut rng, sz_o, d16);
            let (ri, fi) = Frontier::<orchard::tree::MerkleHashOrchard, 32>::random_with_prior_subtree_roots(&mut rng, sz_i, d16);
            prior_roots[0] = rs.iter().map(|n| n.to_bytes()).collect();
            prior_roots[1] = ro.iter().map(|n| n.to_bytes()).collect();
            prior_roots[2] = ri.iter().map(|n| n.to_bytes()).collect();
            (base_h, ChainState::new(BlockHeight::from_u32(base_h), BlockHash(hash), fs, fo, fi))
        } else {
            (base_h, ChainState::empty(BlockHeight::from_u32(base_h), BlockHash(hash)))
        };
        let _ = base_h;
        let sim_rng = vh_common::rng(rng.r#gen(), 1);
        let mut sim = ChainSim::new(net, cfg.n_accounts, base, sim_rng);
        sim.prior_roots = prior_roots;
        let w = WalletUnderTest::new(
            &sim,
            WalletConfig {
                file_backed: cfg.file_backed,
                retention: cfg.retention,
            },
        );
        Hist {
            id: 0,
            cfg,
            sim,
            w,
            f1: F1Tracker::default(),
            rng,
            ops: vec![],
            spend_before_receipt: 0,
            floor_batches: 0,
            dup_scans: 0,
            rewinds_done: 0,
            rewinds_f1: 0,
            rewinds_refused: 0,
            orphan_pool: vec![],
            remined: 0,
            f1_scan_failures: 0,
            aborted: None,
            roots_given: BTreeSet::new(),
            subtree_roots_put: 0,
            deep_rewinds_attempted: 0,
            coins: vec![],
            batches_straddling_activation: 0,
            rewinds_to_empty_tree: 0,
            state_rewinds_done: 0,
            state_rewinds_refused: 0,
            tips_at_stability_edge: 0,
        }
    }

    pub fn ops_json(&self) -> Value {
        json!({"hist": self.id, "cfg": self.cfg.to_json(), "ops": self.ops.iter().map(|o| o.to_json()).collect::<Vec<_>>()})
    }

    fn mine(&mut self, n: u32) {
        for _ in 0..n {
            // occasionally re-mine an orphaned transaction whose spends are still valid
            let mut built: Vec<BuiltTx> = vec![];
            if !self.orphan_pool.is_empty() && self.rng.gen_bool(0.3) {
                let i = self.rng.gen_range(0..self.orphan_pool.len());
                let b = self.orphan_pool.swap_remove(i);
                let ok = b.spends.iter().zip(&b.spend_nfs).all(|(k, nf)| {
                    self.sim.live.get(k).map(|n| &n.nf) == Some(nf)
                        && !self.sim.spent.contains_key(k)
                }) && b
                    .notes
                    .iter()
                    .all(|n| {
                        !self.sim.live.contains_key(&crate::sim::NoteKey {
                            txid: b.txid,
                            pool: n.pool,
                            out_idx: n.out_idx,
                        })
                    });
                if ok {
                    built.push(b);
                    self.remined += 1;
                }
            }
            let height = self.sim.tip_height() + 1;
            let on_grid = self.cfg.empty_on_grid && self.cfg.retention.map_or(false, |n| height % n == 0) && (!self.cfg.empty_on_grid_half || self.rng.gen_bool(0.5));
            let empty = on_grid || (self.cfg.sparse > 0.0 && self.rng.gen_bool(self.cfg.sparse));
            let n_tx = match self.rng.gen_range(0..10) {
                _ if empty => 0,
                0..=1 if self.cfg.empty_on_grid => 1,
                // deep two-pool batches: mostly several transactions (both pools busy), now and then
                // a single one (a block with commitments in one pool only)
                0..=2 if self.cfg.initial_one_batch => 1,
                _ if self.cfg.initial_one_batch => 3,
                0..=1 => 0,
                2..=5 => 1,
                6..=7 => 2,
                8 => 3,
                _ => 4,
            };
            let mut used: Vec<crate::sim::NoteKey> =
                built.iter().flat_map(|b| b.spends.clone()).collect();
            let base = self.sim.base_height();
            let mut pools: Vec<Pool> = self.cfg.pools.iter().copied().filter(|p| {
                let late = self.cfg.late_pool.map_or(false, |(lp, k)| lp == *p && height < base + k);
                let pre_nu63 = *p == Pool::Ironwood && self.cfg.nu6_3_activation().map_or(true, |a| height < a);
                !late && !pre_nu63
            }).collect();
            if pools.is_empty() {
                pools = vec![Pool::Sapling];
            }
            for _ in 0..n_tx {
                let mut p = self.sim.random_tx_plan(&pools, self.cfg.spend_bias, &used);
                for _ in 0..self.cfg.dense_outputs {
                    let pool = pools[self.rng.gen_range(0..pools.len())];
                    p.outs.push(crate::sim::OutPlan::Foreign { pool, value: 1000 });
                }
                used.extend(p.spends.iter().copied());
                let b = self.sim.build_tx(&p, height);
                built.push(b);
            }
            self.sim.mine_built(built);
        }
        self.ops.push(Op::Mine { n });
    }

    /// Scan `[from, from+limit)`; bookkeeping for the monitors.
    pub fn scan(&mut self, from: u32, limit: u32) -> bool {
        let tip = self.sim.tip_height();
        let end = (from + limit).min(tip + 1);
        if self.cfg.tip_before_scan && self.w.chain_height().map_or(true, |c| end - 1 > c) {
            let _ = self.tip(tip);
        }
        // events of interest, computed before the wallet state changes
        let mut sbr = 0;
        for h in from..end {
            for tx in &self.sim.blocks[&h].txs {
                for k in &tx.spends {
                    let rh = self.sim.live[k].height;
                    let receipt_known = self.w.scanned.contains_key(&rh) || (from..=h).contains(&rh);
                    if !receipt_known {
                        sbr += 1;
                    }
                }
            }
        }
        let was_dup = (from..end).all(|h| self.w.scanned.contains_key(&h));
        let fully = self.fully_scanned_height();
        let extends_frontier = from == fully + 1 && end - from > 100;
        let r = self.w.scan(&self.sim, from, limit as usize);
        match r {
            Ok(_) => {
                self.spend_before_receipt += sbr;
                if was_dup {
                    self.dup_scans += 1;
                }
                if extends_frontier {
                    self.floor_batches += 1;
                }
                if self.cfg.retention.is_some() && self.cfg.nu6_3_late > 0 && self.cfg.nu6_3_activation().map_or(false, |a| from < a && a < end) {
                    self.batches_straddling_activation += 1;
                }
                let sizes = self.sim.sizes_at(from - 1);
                for p in POOLS {
                    self.f1.on_frontier(p, sizes[p.idx()]);
                }
                self.ops.push(Op::Scan { from, limit, ok: true, err: None });
                true
            }
            Err(e) => {
                self.ops.push(Op::Scan { from, limit, ok: false, err: Some(e.chars().take(300).collect()) });
                false
            }
        }
    }

    /// Highest height such that every block from the birthday up to it is scanned.
    pub fn fully_scanned_height(&self) -> u32 {
        let mut h = self.sim.base_height();
        while self.w.scanned.contains_key(&(h + 1)) {
            h += 1;
        }
        h
    }

    fn tip(&mut self, h: u32) -> Result<(), String> {
        let r = self.w.update_chain_tip(h);
        self.ops.push(Op::Tip { h });
        r
    }

    /// Reorg at `to`: the wallet is asked to truncate first; only if it accepts does the chain
    /// actually fork there (a refusal -- e.g. no checkpoint at or below that height -- is a legal
    /// outcome and simply means this reorg does not happen in this history).
    fn rewind(&mut self, to: u32) -> bool {
        let before = self.sim.sizes_at(self.w.scanned.keys().next_back().copied().unwrap_or(to));
        match self.w.truncate_to_height(to) {
            Ok(actual) => {
                // remember the orphaned transactions for possible re-mining
                let orphaned: Vec<BuiltTx> = self
                    .sim
                    .blocks
                    .range(to + 1..)
                    .flat_map(|(_, b)| b.txs.iter().map(|t| t.built.clone()))
                    .collect();
                self.sim.rewind(to);
                for c in self.coins.iter_mut() {
                    if c.height > actual {
                        c.mined = false;
                    }
                }
                let sizes = self.sim.sizes_at(actual);
                if POOLS.iter().any(|p| sizes[p.idx()] == 0 && before[p.idx()] > 0) {
                    self.rewinds_to_empty_tree += 1;
                }
                let mut f1 = false;
                for p in POOLS {
                    f1 |= self.f1.on_truncate(p, sizes[p.idx()]);
                }
                self.rewinds_done += 1;
                if f1 {
                    self.rewinds_f1 += 1;
                }
                self.orphan_pool.extend(orphaned);
                self.ops.push(Op::Rewind { to, actual: Some(actual), f1 });
                true
            }
            Err(_) => {
                self.rewinds_refused += 1;
                self.ops.push(Op::Rewind { to, actual: None, f1: false });
                false
            }
        }
    }

    /// Tells the wallet a chain tip exactly `delta` blocks above its highest scanned block (mining
    /// what is missing first) and calls the monitors.
    pub fn tell_tip_above_top(&mut self, delta: u32, mons: &mut [&mut dyn Monitor], r: &mut Reporter) {
        let Some(&top) = self.w.scanned.keys().next_back() else { return };
        let want = top + delta;
        let tip = self.sim.tip_height();
        if want > tip {
            self.mine(want - tip);
        }
        self.tips_at_stability_edge += 1;
        if let Err(e) = self.tip(want) {
            self.aborted = Some(format!("update_chain_tip({want}) failed: {e}"));
        }
        self.call(mons, r);
    }

    /// `rewind_to_chain_state` to the (unchanged) chain's state at `to`: the wallet forgets what it
    /// scanned above `to` as far down as its pruning floor and re-queues everything above `to`.
    pub fn rewind_to_state(&mut self, to: u32) -> bool {
        use zcash_client_backend::data_api::WalletWrite;
        let res = self.w.db.rewind_to_chain_state(self.sim.state_at(to), std::collections::HashSet::new());
        let floor: u32 = self.w.db.conn().query_row("SELECT MAX(height) FROM blocks", [], |r| r.get::<_, Option<u32>>(0)).ok().flatten().unwrap_or(to);
        match res {
            Ok(()) => {
                self.w.forget_above(to);
                // the trees were truncated at the floor (or at `to` when that is higher)
                let sizes = self.sim.sizes_at(floor.max(to).min(self.sim.tip_height()));
                let mut f1 = false;
                for p in POOLS {
                    f1 |= self.f1.on_truncate(p, sizes[p.idx()]);
                }
                if f1 {
                    self.rewinds_f1 += 1;
                }
                self.state_rewinds_done += 1;
                self.ops.push(Op::RewindToState { to, ok: true, floor, err: None });
                true
            }
            Err(e) => {
                self.state_rewinds_refused += 1;
                self.ops.push(Op::RewindToState { to, ok: false, floor, err: Some(format!("{e:?}").chars().take(200).collect()) });
                false
            }
        }
    }

    /// Hands the wallet the true roots of subtrees the chain has completed (as a light client
    /// learns them from the server), at an arbitrary moment relative to scanning.
    fn put_completed_roots(&mut self) {
        use zcash_client_backend::data_api::{chain::CommitmentTreeRoot, WalletCommitmentTrees};
        let todo: Vec<_> = self.sim.completed_shards.iter().filter(|s| !self.roots_given.contains(&(s.0, s.1))).cloned().collect();
        for (pool, idx, h, root) in todo {
            let bh = BlockHeight::from_u32(h);
            let r = match pool {
                Pool::Sapling => self.w.db.put_sapling_subtree_roots(idx, &[CommitmentTreeRoot::from_parts(bh, sapling::Node::from_bytes(root).unwrap())]).map_err(|e| format!("{e:?}")),
                Pool::Orchard => self.w.db.put_orchard_subtree_roots(idx, &[CommitmentTreeRoot::from_parts(bh, orchard::tree::MerkleHashOrchard::from_bytes(&root).unwrap())]).map_err(|e| format!("{e:?}")),
                Pool::Ironwood => self.w.db.put_ironwood_subtree_roots(idx, &[CommitmentTreeRoot::from_parts(bh, orchard::tree::MerkleHashOrchard::from_bytes(&root).unwrap())]).map_err(|e| format!("{e:?}")),
            };
            match r {
                Ok(()) => {
                    self.roots_given.insert((pool, idx));
                    self.subtree_roots_put += 1;
                    // the stored shard root is an annotation over [idx*2^16, (idx+1)*2^16): a later
                    // truncation inside it meets known finding F1
                    self.f1.on_subtree_root(pool, idx);
                    self.ops.push(Op::PutRoots { pool: pool.name(), index: idx });
                }
                Err(e) => self.aborted = Some(format!("put_{}_subtree_roots({idx}) failed: {e}", pool.name())),
            }
        }
    }

    /// Reports a transparent coin received by an account, mined at a height the wallet has scanned.
    fn add_coin(&mut self) {
        use zcash_client_backend::data_api::{WalletRead, WalletWrite};
        use zcash_client_backend::wallet::WalletTransparentOutput;
        use zcash_protocol::value::Zatoshis;
        use zcash_transparent::bundle::{OutPoint, TxOut};
        let Some((&height, _)) = self.w.scanned.iter().nth(self.rng.gen_range(0..self.w.scanned.len().max(1))) else { return };
        let account = self.rng.gen_range(0..self.w.accounts.len());
        let value = *[1u64, 4999, 5000, 5001, 60_000, 1_000_000, 123_456_789].choose(&mut self.rng).unwrap();
        let Ok(recv) = self.w.db.get_transparent_receivers(self.w.accounts[account], false, false) else { return };
        let mut addrs: Vec<_> = recv.keys().copied().collect();
        addrs.sort_by_key(|a| format!("{a:?}"));
        let Some(addr) = addrs.choose(&mut self.rng).copied() else { return };
        let mut txid = [0u8; 32];
        rand::RngCore::fill_bytes(&mut self.rng, &mut txid);
        let txout = TxOut::new(Zatoshis::from_u64(value).unwrap(), addr.script().into());
        let Some(out) = WalletTransparentOutput::from_parts(OutPoint::new(txid, self.rng.gen_range(0..3)), txout, Some(BlockHeight::from_u32(height)), None, None, None) else { return };
        match self.w.db.put_received_transparent_utxo(&out) {
            Ok(_) => {
                self.coins.push(Coin { account, value, height, mined: true });
                self.ops.push(Op::Coin { account, value, height });
            }
            Err(e) => self.aborted = Some(format!("put_received_transparent_utxo failed: {e:?}")),
        }
    }

    /// Would truncating to `to` trigger F1 (given the frontiers inserted so far)?
    fn rewind_would_taint(&self, to: u32) -> bool {
        // the wallet may pick a lower checkpoint; approximate with the requested height when it
        // is scanned (every scanned block end is a checkpoint)
        let sizes = self.sim.sizes_at(to);
        POOLS.iter().any(|p| {
            let mut t = self.f1.clone();
            t.on_truncate(*p, sizes[p.idx()])
        })
    }

    /// Unscanned maximal ranges of the current chain.
    pub fn unscanned_ranges(&self) -> Vec<(u32, u32)> {
        let mut v = vec![];
        let mut cur: Option<(u32, u32)> = None;
        for h in self.sim.base_height() + 1..=self.sim.tip_height() {
            let scanned = self.w.scanned.get(&h) == Some(&self.sim.blocks[&h].uid);
            if !scanned {
                cur = Some(match cur {
                    Some((a, _)) => (a, h),
                    None => (h, h),
                });
            } else if let Some(c) = cur.take() {
                v.push(c);
            }
        }
        if let Some(c) = cur {
            v.push(c);
        }
        v
    }

    /// Runs the history, calling monitors after every operation.
    pub fn run(&mut self, mons: &mut [&mut dyn Monitor], r: &mut Reporter) {
        self.mine(self.cfg.initial_len);
        self.call(mons, r);
        if self.rng.gen_bool(0.7) {
            let t = self.sim.tip_height();
            let _ = self.tip(t);
            self.call(mons, r);
        }
        if self.cfg.initial_one_batch {
            let (from, tip) = (self.sim.base_height() + 1, self.sim.tip_height());
            if self.scan(from, tip + 1 - from) {
                self.call(mons, r);
            } else {
                self.classify_scan_failure();
            }
        }
        // Targeted shape for a late-starting pool: scan everything in order, rewind to just below
        // the pool's first-ever commitment (its tree is EMPTY at that checkpoint), continue with a
        // different chain and scan it.
        if let Some((lp, _)) = self.cfg.late_pool {
            let first = self.sim.blocks.values().find(|b| !b.leaves[lp.idx()].is_empty()).map(|b| b.height);
            let tip = self.sim.tip_height();
            if let Some(f) = first {
                if f > self.sim.base_height() + 2 && tip > f && tip - f < 90 && (self.cfg.late_one_batch || self.rng.gen_bool(0.75)) {
                    let mut from = self.sim.base_height() + 1;
                    let mut ok = true;
                    while from <= tip && ok {
                        let l = if self.cfg.late_one_batch { tip + 1 - from } else { self.rng.gen_range(1..=self.cfg.max_batch.min(40)).min(tip + 1 - from) };
                        ok = self.scan(from, l);
                        if ok {
                            self.call(mons, r);
                        } else {
                            self.classify_scan_failure();
                        }
                        from += l;
                    }
                    if ok {
                        let to = f - 1 - self.rng.gen_range(0..2).min(f - self.sim.base_height() - 2);
                        if self.rewind(to) {
                            self.call(mons, r);
                            let cont = (f - to) + self.rng.gen_range(3..15);
                            self.mine(cont);
                            let t = self.sim.tip_height();
                            let _ = self.tip(t);
                            let mut from = to + 1;
                            while from <= t {
                                let l = self.rng.gen_range(1..=6).min(t + 1 - from);
                                if !self.scan(from, l) {
                                    self.classify_scan_failure();
                                    break;
                                }
                                self.call(mons, r);
                                from += l;
                            }
                        }
                    }
                }
            }
        }
        // Targeted shapes around the nullifier-tracking floor (batches longer than the 100-block
        // retention window): (a) such a batch scanned OUT OF ORDER, above unscanned history whose
        // notes it spends; (b) such a batch extending the fully-scanned frontier.
        let len = self.sim.tip_height() - self.sim.base_height();
        if len >= 125 && self.rng.gen_bool(0.45) {
            let l = self.rng.gen_range(101..=(len - 12).min(150));
            let tip = self.sim.tip_height();
            let ooo = self.rng.gen_bool(0.6);
            let from = if ooo { tip + 1 - l } else { self.sim.base_height() + 1 };
            if ooo && self.rng.gen_bool(0.7) {
                // a short scanned prefix first, so that a fully-scanned height exists
                let k = self.rng.gen_range(1..8);
                let b = self.sim.base_height() + 1;
                if self.scan(b, k) {
                    self.call(mons, r);
                }
            }
            let ok = self.scan(from, l);
            if !ok {
                self.classify_scan_failure();
            }
            self.call(mons, r);
        }
        for _ in 0..self.cfg.steps {
            if self.aborted.is_some() || !r.time_left() {
                break;
            }
            if self.cfg.deep_state_rewinds && self.state_rewinds_done < 3 && self.rng.gen_bool(0.2) {
                if let Some(&top) = self.w.scanned.keys().next_back() {
                    let span = top - self.sim.base_height();
                    if span > 112 {
                        let to = top - self.rng.gen_range(101..=(span - 1).min(190));
                        self.rewind_to_state(to);
                        self.call(mons, r);
                        continue;
                    }
                }
            }
            if self.cfg.tip_at_stability_edge && self.rng.gen_bool(0.2) {
                if let Some(&top) = self.w.scanned.keys().next_back() {
                    let want = top + *[99u32, 100, 100, 100, 101, 101, 102, 110].choose(&mut self.rng).unwrap();
                    let tip = self.sim.tip_height();
                    if want > tip {
                        self.mine(want - tip);
                    }
                    self.tips_at_stability_edge += 1;
                    if let Err(e) = self.tip(want) {
                        self.aborted = Some(format!("update_chain_tip({want}) failed: {e}"));
                    }
                    self.call(mons, r);
                    continue;
                }
            }
            let choice = self.rng.gen_range(0..100);
            let unscanned = self.unscanned_ranges();
            if choice < 62 && !unscanned.is_empty() {
                // scan a chunk of an unscanned range: from either end (or the middle when
                // out-of-order scanning is on)
                let (a, b) = if self.cfg.out_of_order {
                    *unscanned.choose(&mut self.rng).unwrap()
                } else {
                    unscanned[0]
                };
                let len = b - a + 1;
                let limit = self.rng.gen_range(1..=self.cfg.max_batch.min(len).max(1));
                let from = if !self.cfg.out_of_order {
                    a
                } else {
                    match self.rng.gen_range(0..3) {
                        0 => a,
                        1 => b + 1 - limit,
                        _ => self.rng.gen_range(a..=b + 1 - limit),
                    }
                };
                let ok = self.scan(from, limit);
                if !ok {
                    self.classify_scan_failure();
                }
            } else if choice < 70 && !self.w.scanned.is_empty() {
                // duplicate: re-scan a range that is already scanned (possibly overlapping unscanned)
                let hs: Vec<u32> = self.w.scanned.keys().copied().collect();
                let from = *hs.choose(&mut self.rng).unwrap();
                let limit = self.rng.gen_range(1..=self.cfg.max_batch.min(20));
                let ok = self.scan(from, limit);
                if !ok {
                    self.classify_scan_failure();
                }
            } else if choice < 80 {
                let t = self.sim.tip_height();
                let lo = self.w.scanned.keys().next_back().copied().unwrap_or(t).min(t);
                let h = if self.rng.gen_bool(0.7) {
                    t
                } else {
                    self.rng.gen_range(lo.saturating_sub(5).max(self.sim.base_height() + 1)..=t)
                };
                if let Err(e) = self.tip(h) {
                    self.aborted = Some(format!("update_chain_tip({h}) failed: {e}"));
                }
            } else if choice < 90 {
                let n = self.rng.gen_range(1..=10);
                self.mine(n);
            } else if self.rewinds_done < self.cfg.max_rewinds {
                let tip = self.sim.tip_height();
                let maxd = (tip - self.sim.base_height() - 1).min(99);
                if maxd >= 1 {
                    // candidate depths; optionally prefer ones that do not trigger F1
                    let cap = if self.rng.gen_bool(0.7) { 12 } else { 99 };
                    let mut d = self.rng.gen_range(1..=maxd.min(cap));
                    // now and then a DEEP rewind, below the oldest ordinary checkpoint: the wallet
                    // may refuse it or reset to subtree roots; either is legal, wrong roots are not
                    let span = tip - self.sim.base_height() - 1;
                    if span > 130 && self.rng.gen_bool(0.15) {
                        d = self.rng.gen_range(100..=span.min(300));
                        self.deep_rewinds_attempted += 1;
                    }
                    if self.cfg.avoid_f1 {
                        for _ in 0..30 {
                            if !self.rewind_would_taint(tip - d) {
                                break;
                            }
                            d = self.rng.gen_range(1..=maxd.min(12));
                        }
                    }
                    // a rewind to just below the first-ever commitment of a late-starting pool
                    // (the tree of that pool is empty at the target checkpoint)
                    if let Some((lp, _)) = self.cfg.late_pool {
                        let first = self.sim.blocks.values().find(|b| !b.leaves[lp.idx()].is_empty()).map(|b| b.height);
                        if let Some(f) = first {
                            if f > self.sim.base_height() + 1 && tip > f && tip - f < 95 && self.rng.gen_bool(0.6) {
                                d = tip - f + 1 + self.rng.gen_range(0..2).min(f - self.sim.base_height() - 2);
                            }
                        }
                    }
                    // the wallet can only truncate to a height at or above its oldest checkpoint;
                    // keep the request within the last 99 blocks of what it has scanned
                    let to = tip - d;
                    if self.rewind(to) {
                        self.call(mons, r);
                        let cont = if self.rng.gen_bool(0.5) {
                            self.rng.gen_range(45..70)
                        } else {
                            self.rng.gen_range(1..12)
                        };
                        self.mine(cont);
                    }
                }
            } else {
                continue;
            }
            self.call(mons, r);
            if self.cfg.coins && !self.w.scanned.is_empty() && self.rng.gen_bool(0.12) {
                self.add_coin();
                self.call(mons, r);
            }
            if self.cfg.shard_start && self.rng.gen_bool(0.3) {
                self.put_completed_roots();
                self.call(mons, r);
            }
        }
        if self.cfg.shard_start && self.aborted.is_none() {
            self.put_completed_roots();
            self.call(mons, r);
        }
        // finish: make the wallet aware of the tip and scan whatever is left, ascending
        if self.aborted.is_none() {
            let t = self.sim.tip_height();
            if self.tip(t).is_ok() {
                self.call(mons, r);
                let mut guard = 0;
                loop {
                    let un = self.unscanned_ranges();
                    if un.is_empty() || guard > 2000 || !r.time_left() {
                        break;
                    }
                    guard += 1;
                    let (a, b) = un[0];
                    let limit = (b - a + 1).min(self.cfg.max_batch.max(10));
                    if !self.scan(a, limit) {
                        self.classify_scan_failure();
                        break;
                    }
                    self.call(mons, r);
                }
            }
            self.ops.push(Op::Finish);
        }
        for m in mons.iter_mut() {
            m.at_end(self, r);
        }
    }

    fn classify_scan_failure(&mut self) {
        if self.f1.any_tainted() {
            self.f1_scan_failures += 1;
            self.aborted = Some("scan failed after an F1-exposing truncation (known finding F1)".into());
        }
        // otherwise the monitors decide (an unexpected scan failure is reported by them)
    }

    fn call(&mut self, mons: &mut [&mut dyn Monitor], r: &mut Reporter) {
        for m in mons.iter_mut() {
            m.after_op(self, r);
        }
    }

    pub fn last_op(&self) -> Option<&Op> {
        self.ops.last()
    }
}

// ---------------------------------------------------------------------------------------------
// Suggestion-driven client (C15b): "repeatedly scan what the wallet suggests".

impl Hist {
    /// The wallet's suggested ranges as (start, end_exclusive, priority debug string).
    pub fn suggested(&self) -> Result<Vec<(u32, u32, String)>, String> {
        use zcash_client_backend::data_api::WalletRead;
        self.w
            .db
            .suggest_scan_ranges()
            .map(|v| {
                v.into_iter()
                    .map(|r| {
                        (
                            u32::from(r.block_range().start),
                            u32::from(r.block_range().end),
                            format!("{:?}", r.priority()),
                        )
                    })
                    .collect()
            })
            .map_err(|e| format!("{e:?}"))
    }

    /// Runs a client that follows `suggest_scan_ranges`, with tip updates, new blocks and
    /// rewinds injected. Returns (steps taken in the final sync, bound) for the bounded-progress
    /// verdict of the caller.
    pub fn run_suggested(&mut self, mons: &mut [&mut dyn Monitor], r: &mut Reporter) -> (u64, u64, bool) {
        self.mine(self.cfg.initial_len);
        // a light client learns the roots (and end heights) of completed subtrees from the server
        // before it starts scanning
        if self.cfg.shard_start {
            self.put_completed_roots();
        }
        let t = self.sim.tip_height();
        if self.tip(t).is_err() {
            self.aborted = Some("update_chain_tip failed".into());
        }
        self.call(mons, r);
        let mut disturbances = self.cfg.steps / 6;
        let mut steps = 0u64;
        let mut budget = 0u64;
        let mut tip_updates = 1u64;
        let mut synced = false;
        loop {
            if self.aborted.is_some() || !r.time_left() {
                break;
            }
            let blocks = (self.sim.tip_height() - self.sim.base_height()) as u64;
            // bounded progress: every step scans at least one block the wallet asked for; a tip
            // update or rewind may legitimately ask for re-verification of up to ~VERIFY_LOOKAHEAD
            // already scanned blocks, and FoundNote/OpenAdjacent extensions never exceed the chain.
            budget = 2 * blocks + 40 * (tip_updates + self.rewinds_done as u64) + 20;
            if steps > budget {
                break;
            }
            let sug = match self.suggested() {
                Ok(s) => s,
                Err(e) => {
                    self.aborted = Some(format!("suggest_scan_ranges failed: {e}"));
                    break;
                }
            };
            // inject a disturbance now and then while syncing
            if disturbances > 0 && (sug.is_empty() || self.rng.gen_bool(0.12)) {
                disturbances -= 1;
                match self.rng.gen_range(0..3) {
                    0 => {
                        let n = self.rng.gen_range(1..=12);
                        self.mine(n);
                        if self.cfg.shard_start {
                            self.put_completed_roots();
                        }
                        let t = self.sim.tip_height();
                        let _ = self.tip(t);
                        tip_updates += 1;
                    }
                    1 if self.rewinds_done < self.cfg.max_rewinds => {
                        let tip = self.sim.tip_height();
                        let maxd = (tip - self.sim.base_height() - 1).min(60);
                        if maxd >= 1 {
                            let mut d = self.rng.gen_range(1..=maxd.min(12));
                            if self.cfg.avoid_f1 {
                                for _ in 0..30 {
                                    if !self.rewind_would_taint(tip - d) {
                                        break;
                                    }
                                    d = self.rng.gen_range(1..=maxd.min(12));
                                }
                            }
                            if self.rewind(tip - d) {
                                self.call(mons, r);
                                let cont = self.rng.gen_range(1..50);
                                self.mine(cont);
                                let t = self.sim.tip_height();
                                let _ = self.tip(t);
                                tip_updates += 1;
                            }
                        }
                    }
                    _ => {
                        let t = self.sim.tip_height();
                        let _ = self.tip(t);
                        tip_updates += 1;
                    }
                }
                self.call(mons, r);
                continue;
            }
            if sug.is_empty() {
                synced = true;
                break;
            }
            // take the first (highest priority) suggestion, clipped to blocks that exist
            let (a, b, _) = sug[0].clone();
            let tip = self.sim.tip_height();
            let lo = a.max(self.sim.base_height() + 1);
            let hi = b.min(tip + 1);
            if lo >= hi {
                // the wallet asks for blocks the chain does not have (yet): tell it the tip again
                let _ = self.tip(tip);
                tip_updates += 1;
                steps += 1;
                self.call(mons, r);
                continue;
            }
            let len = hi - lo;
            let limit = self.rng.gen_range(1..=self.cfg.max_batch.min(len).max(1));
            // either end of the suggested range
            let from = if self.rng.gen_bool(0.5) { lo } else { hi - limit };
            steps += 1;
            if !self.scan(from, limit) {
                self.classify_scan_failure();
                if self.aborted.is_none() {
                    self.aborted = Some("scan of a suggested range failed".into());
                }
            }
            self.call(mons, r);
        }
        self.ops.push(Op::Finish);
        for m in mons.iter_mut() {
            m.at_end(self, r);
        }
        (steps, budget, synced)
    }
}
