//! C06 — note commitment trees and witnesses always agree with the chain.
//!
//! After EVERY operation of a generated history (same engine as C01): every checkpoint of every
//! pool's tree is enumerated and its root compared with the true root of the chain at that
//! height; for every note the wallet reports spendable a witness is requested at the wallet's own
//! anchor and verified, by plain hashing, against the true leaf and the true root; checkpoint-id
//! sets are compared across pools inside the window all pools retain; with NU6.3 active every
//! anchor-retention boundary in the scanned range must keep a checkpoint.

use std::collections::{BTreeMap, BTreeSet};
use std::num::NonZeroU32;

use incrementalmerkletree::Position;
use shardtree::{error::ShardTreeError, store::ShardStore};
use vh_common::{guard, json, panic_class, Args, Reporter, Value};
use vh_wallet::hist::{Hist, HistCfg, Monitor, Op};
use vh_wallet::sim::{root_from_path_orchard, root_from_path_sapling, NoteKey, Pool, POOLS};
use zcash_client_backend::data_api::{
    wallet::{input_selection::LockFilter, ConfirmationsPolicy, TargetHeight},
    InputSource, MaxSpendMode, TargetValue, WalletCommitmentTrees, WalletRead,
};
use zcash_client_sqlite::wallet::commitment_tree::Error as TreeStoreError;
use zcash_protocol::{consensus::BlockHeight, ShieldedPool};

type TErr = ShardTreeError<TreeStoreError>;

#[derive(Debug)]
enum RootRes {
    Root([u8; 32]),
    NoCheckpoint,
    NotComputable(String),
}

/// (checkpoint id -> root result) for one pool. With `sample = Some(k)` only the newest 4, the
/// oldest 2 and `k` pseudo-randomly chosen checkpoints get their root computed (the others are
/// reported as `NoCheckpoint`, i.e. "not looked at"); the id set is always complete.
fn roots(h: &mut Hist, pool: Pool, sample: Option<(usize, u64)>) -> Result<BTreeMap<u32, RootRes>, String> {
    macro_rules! body {
        ($t:expr, $tobytes:expr) => {{
            let t = $t;
            let mut ids = vec![];
            t.store()
                .for_each_checkpoint(10_000, |id, _| {
                    ids.push(*id);
                    Ok(())
                })
                .map_err(ShardTreeError::Storage)?;
            let mut out = BTreeMap::new();
            let n = ids.len();
            for (i, id) in ids.into_iter().enumerate() {
                let chosen = match sample {
                    None => true,
                    Some((k, salt)) => {
                        i < 2 || i + 4 >= n || (vh_common::hash64(&(salt, i as u64)) % (n as u64).max(1)) < k as u64
                    }
                };
                if !chosen {
                    out.insert(u32::from(id), RootRes::NoCheckpoint);
                    continue;
                }
                let r = match t.root_at_checkpoint_id(&id) {
                    Ok(Some(root)) => RootRes::Root($tobytes(root)),
                    Ok(None) => RootRes::NoCheckpoint,
                    Err(e) => RootRes::NotComputable(format!("{e:?}").chars().take(80).collect()),
                };
                out.insert(u32::from(id), r);
            }
            Ok::<_, TErr>(out)
        }};
    }
    let r = match pool {
        Pool::Sapling => h
            .w
            .db
            .with_sapling_tree_mut(|t| body!(t, |r: sapling::Node| r.to_bytes())),
        Pool::Orchard => h.w.db.with_orchard_tree_mut(|t| {
            body!(t, |r: orchard::tree::MerkleHashOrchard| r.to_bytes())
        }),
        Pool::Ironwood => h
            .w
            .db
            .with_ironwood_tree_mut(|t| body!(t, |r: orchard::tree::MerkleHashOrchard| r.to_bytes()))
            .map(|o| o.unwrap_or_default()),
    };
    r.map_err(|e| format!("{e:?}"))
}

enum WitRes {
    Path(Vec<[u8; 32]>),
    None,
    Err(String),
}

fn witness(h: &mut Hist, pool: Pool, pos: u64, anchor: u32) -> WitRes {
    let p = Position::from(pos);
    let a = BlockHeight::from_u32(anchor);
    let r: Result<Option<Vec<[u8; 32]>>, TErr> = match pool {
        Pool::Sapling => h.w.db.with_sapling_tree_mut(|t| {
            Ok(t.witness_at_checkpoint_id(p, &a)?
                .map(|mp| mp.path_elems().iter().map(|n| n.to_bytes()).collect()))
        }),
        Pool::Orchard => h.w.db.with_orchard_tree_mut(|t| {
            Ok(t.witness_at_checkpoint_id(p, &a)?
                .map(|mp| mp.path_elems().iter().map(|n| n.to_bytes()).collect()))
        }),
        Pool::Ironwood => h
            .w
            .db
            .with_ironwood_tree_mut(|t| {
                Ok(t.witness_at_checkpoint_id(p, &a)?
                    .map(|mp| mp.path_elems().iter().map(|n| n.to_bytes()).collect()))
            })
            .map(|o: Option<Option<Vec<[u8; 32]>>>| o.flatten()),
    };
    match r {
        Ok(Some(v)) => WitRes::Path(v),
        Ok(None) => WitRes::None,
        Err(e) => WitRes::Err(format!("{e:?}").chars().take(100).collect()),
    }
}

fn verify_path(pool: Pool, leaf: [u8; 32], pos: u64, path: &[[u8; 32]]) -> Option<[u8; 32]> {
    match pool {
        Pool::Sapling => {
            let p: Option<Vec<sapling::Node>> = path
                .iter()
                .map(|b| Option::from(sapling::Node::from_bytes(*b)))
                .collect();
            Some(root_from_path_sapling(leaf, pos, &p?))
        }
        _ => {
            let p: Option<Vec<orchard::tree::MerkleHashOrchard>> = path
                .iter()
                .map(|b| Option::from(orchard::tree::MerkleHashOrchard::from_bytes(b)))
                .collect();
            Some(root_from_path_orchard(leaf, pos, &p?))
        }
    }
}

#[derive(Default)]
struct C06 {
    roots_checked: u64,
    roots_not_computable: u64,
    witnesses_verified: u64,
    witnesses_unavailable: u64,
    align_checks: u64,
    anchor_checks: u64,
    prev_ids: Vec<BTreeSet<u32>>,
    max_newer: BTreeMap<(usize, u32), usize>,
    boundaries_checked: u64,
    boundaries_empty_block: u64,
    violated: bool,
    every: u32,
    opn: u32,
}

impl C06 {
    fn viol(&mut self, h: &Hist, r: &mut Reporter, sig: &str, detail: String) {
        if std::env::var("VH_DEBUG").is_ok() && !self.violated {
            eprintln!("VIOLATION {sig}: {detail}");
        }
        self.violated = true;
        r.violation(sig, detail, h.ops_json());
    }

    fn check(&mut self, h: &mut Hist, r: &mut Reporter, full: bool) {
        let sample = if full { None } else { Some((6usize, self.opn as u64 * 7919 + h.id)) };
        // ---------------- roots at every retained checkpoint
        let mut id_sets: Vec<BTreeSet<u32>> = vec![];
        for pool in POOLS {
            let rs = match guard(|| roots(h, pool, sample)) {
                Err(p) => {
                    let sig = format!("C06:tree-access:panic:{}", panic_class(&p));
                    self.viol(h, r, &sig, p);
                    return;
                }
                Ok(Err(e)) => {
                    self.viol(h, r, "C06:tree-access:error", e);
                    return;
                }
                Ok(Ok(m)) => m,
            };
            let tainted = h.f1.tainted[pool.idx()];
            for (id, res) in &rs {
                // the chain state the wallet was given for this height
                let on_chain = *id == h.sim.base_height()
                    || h.w.scanned.get(id).is_some()
                    || (h.sim.blocks.contains_key(id) && !h.w.scanned.contains_key(id));
                if !on_chain {
                    continue;
                }
                // A checkpoint at an unscanned height can only come from a `from_state` frontier
                // (the state at the end of that height on the current chain).
                match res {
                    RootRes::Root(got) => {
                        self.roots_checked += 1;
                        let want = h.sim.root_at(pool, *id);
                        if *got != want {
                            let sig = if tainted {
                                format!("C06:root-mismatch-after-F1-truncation:{}", pool.name())
                            } else {
                                format!("C06:root-mismatch:{}", pool.name())
                            };
                            self.viol(
                                h,
                                r,
                                &sig,
                                format!(
                                    "{} checkpoint {id}: wallet root {} != chain root {} after {:?}",
                                    pool.name(),
                                    hex::encode(got),
                                    hex::encode(want),
                                    h.last_op()
                                ),
                            );
                        }
                    }
                    RootRes::NoCheckpoint => {}
                    RootRes::NotComputable(why) => {
                        self.roots_not_computable += 1;
                        // Once EVERY block of the chain has been scanned nothing is missing below any
                        // checkpoint: a retained checkpoint whose root still cannot be computed points
                        // into leaves that were pruned away - it can never serve as an anchor.
                        if full && h.aborted.is_none() && !tainted && h.unscanned_ranges().is_empty() && h.sim.sizes_at(*id)[pool.idx()] > 0 {
                            let on_grid = h.cfg.retention.map_or(false, |n| h.cfg.nu6_3_activation().map_or(false, |a| *id >= a) && *id % n == 0);
                            let empty_block = h.sim.blocks.get(id).map_or(false, |b| b.leaves[pool.idx()].is_empty());
                            let kind = match (on_grid, empty_block) {
                                (true, true) => "retention-boundary-on-block-without-commitments",
                                (true, false) => "retention-boundary",
                                (false, true) => "ordinary-checkpoint-on-block-without-commitments",
                                (false, false) => "ordinary-checkpoint",
                            };
                            // with an anchor-retention policy in force the wallet keeps (retained) checkpoints
                            // BELOW the ordinary pruning window, which is what known finding F26 needs
                            let policy = if h.cfg.retention.is_some() && h.cfg.nu6_3_activation().map_or(false, |a| *id >= a) { "retention-active" } else { "no-retention" };
                            let sig = format!("C06:checkpoint-root-not-computable-after-full-scan:{kind}:{policy}");
                            self.viol(h, r, &sig, format!("{} checkpoint {id} is retained, every block of the chain is scanned, yet its root cannot be computed: {}", pool.name(), why.chars().take(160).collect::<String>()));
                        }
                    }
                }
            }
            id_sets.push(rs.keys().copied().collect());
        }

        // ---------------- cross-pool alignment.
        // Raw equality of the id sets is stricter than what correct code does: each tree prunes
        // its oldest checkpoints lazily and on its own schedule, and a batch scanned out of order
        // below a tree's oldest checkpoint is (by design) not checkpointed there. What the code
        // maintains, and what is checked, is alignment at creation time: every checkpoint id that
        // this operation ADDED to some pool must be present in every pool, unless it lies below
        // that pool's oldest checkpoint or outside its newest 100 (where pruning may already have
        // removed it).
        let retention = if h.cfg.nu6_3 { Some(h.cfg.retention.unwrap_or(144)) } else { None };
        let activation = h.cfg.nu6_3_activation().unwrap_or(u32::MAX);
        let is_boundary = |x: u32| retention.map_or(false, |n| x >= activation && x % n == 0);
        if self.prev_ids.len() == 3 {
            let mut newly: BTreeSet<u32> = BTreeSet::new();
            for (cur, prev) in id_sets.iter().zip(&self.prev_ids) {
                newly.extend(cur.difference(prev).copied());
            }
            let mut bad = vec![];
            for id in &newly {
                self.align_checks += 1;
                for (pi, s) in id_sets.iter().enumerate() {
                    if s.contains(id) {
                        continue;
                    }
                    let below_min = s.iter().next().map_or(true, |m| id < m);
                    let outside_newest = s.len() >= 100 && *id < *s.iter().rev().nth(99).unwrap();
                    if !(below_min || outside_newest) {
                        bad.push((*id, POOLS[pi].name()));
                    }
                }
            }
            if !bad.is_empty() {
                let counts: Vec<usize> = id_sets.iter().map(|s| s.len()).collect();
                self.viol(
                    h,
                    r,
                    "C06:checkpoint-heights-differ-across-pools",
                    format!("checkpoints added by the last operation are missing in: {:?} (checkpoint counts {counts:?}, minima {:?}) after {:?}",
                        &bad[..bad.len().min(8)], id_sets.iter().map(|s| s.iter().next().copied()).collect::<Vec<_>>(), h.last_op()),
                );
            }
        }
        // the wallet's own anchor must be usable in every pool
        if let Ok(Some((_, anchor))) = h.w.db.get_target_and_anchor_heights(NonZeroU32::MIN) {
            let a = u32::from(anchor);
            // a pool whose tree has never held a leaf has nothing to witness and is not judged
            let tip_sizes = h.sim.sizes_at(h.sim.tip_height());
            let mem: Vec<bool> = id_sets.iter().enumerate().filter(|(pi, _)| tip_sizes[*pi] > 0).map(|(_, s)| s.contains(&a)).collect();
            self.anchor_checks += 1;
            if mem.iter().any(|m| *m) && !mem.iter().all(|m| *m) {
                self.viol(h, r, "C06:anchor-height-not-checkpointed-in-every-pool",
                    format!("anchor {a}: membership sapling/orchard/ironwood = {mem:?} after {:?}", h.last_op()));
            }
        }
        self.prev_ids = id_sets.clone();

        // ---------------- retained anchor boundaries inside the scanned range
        if retention.is_some() {
            let bs: Vec<u32> = h.w.scanned.keys().copied().filter(|x| is_boundary(*x)).collect();
            for b in &bs {
                for pool in POOLS {
                    let n = id_sets[pool.idx()].range(b + 1..).count();
                    let e = self.max_newer.entry((pool.idx(), *b)).or_insert(0);
                    *e = (*e).max(n);
                }
            }
            for b in bs {
                self.boundaries_checked += 1;
                let blk = &h.sim.all_blocks[&h.w.scanned[&b]];
                for pool in POOLS {
                    let empty = blk.leaves[pool.idx()].is_empty();
                    if empty {
                        self.boundaries_empty_block += 1;
                    }
                    if !id_sets[pool.idx()].contains(&b) {
                        // Known finding F4: a boundary on a block WITHOUT commitments in this pool
                        // gets only a synthesised ("ensured") checkpoint, which update_tree adds
                        // after pruning and skips below the tree's oldest checkpoint; it is lost
                        // when 100 or more newer checkpoints exist in that tree.
                        // (the exposure is judged on the most newer checkpoints the tree has
                        // ever held while this boundary was scanned: a later truncation lowers the
                        // current count but does not bring a lost checkpoint back)
                        let newer = self.max_newer.get(&(pool.idx(), b)).copied().unwrap_or(0);
                        let kind = if empty && newer >= 100 {
                            "block-without-commitments:beneath-100-newer-checkpoints"
                        } else if empty {
                            "block-without-commitments"
                        } else {
                            "block-with-commitments"
                        };
                        self.viol(
                            h,
                            r,
                            &format!("C06:retained-boundary-has-no-checkpoint:{kind}"),
                            format!("{} boundary {b} (interval {:?}) has no checkpoint; newest checkpoint {:?}; after {:?}",
                                pool.name(), retention, id_sets[pool.idx()].iter().next_back(), h.last_op()),
                        );
                    }
                }
            }
        }

        // ---------------- witnesses of notes the wallet considers spendable
        let Ok(Some((target, anchor))) = h.w.db.get_target_and_anchor_heights(NonZeroU32::MIN) else {
            return;
        };
        let anchor_h = u32::from(anchor);
        let sources = [ShieldedPool::Sapling, ShieldedPool::Orchard, ShieldedPool::Ironwood];
        for (ai, acct) in h.w.accounts.clone().iter().enumerate() {
            let sel = guard(|| {
                h.w.db.select_spendable_notes(
                    *acct,
                    TargetValue::AllFunds(MaxSpendMode::MaxSpendable),
                    &sources,
                    target,
                    ConfirmationsPolicy::MIN,
                    &[],
                    LockFilter::Unfiltered,
                )
            });
            let notes = match sel {
                Err(p) => {
                    let sig = format!("C06:select_spendable_notes:panic:{}", panic_class(&p));
                    self.viol(h, r, &sig, p);
                    continue;
                }
                Ok(Err(_)) => continue, // refusing to select is no statement about witnesses
                Ok(Ok(n)) => n,
            };
            let mut todo: Vec<(Pool, [u8; 32], u32, u64)> = vec![];
            for n in notes.sapling() {
                todo.push((Pool::Sapling, *n.txid().as_ref(), n.output_index() as u32, u64::from(n.note_commitment_tree_position())));
            }
            for n in notes.orchard() {
                todo.push((Pool::Orchard, *n.txid().as_ref(), n.output_index() as u32, u64::from(n.note_commitment_tree_position())));
            }
            for n in notes.ironwood() {
                todo.push((Pool::Ironwood, *n.txid().as_ref(), n.output_index() as u32, u64::from(n.note_commitment_tree_position())));
            }
            // cap the per-step cost: check a rotating subset
            let stride = (todo.len() / 12).max(1);
            for (i, (pool, txid, idx, pos)) in todo.into_iter().enumerate() {
                if (i + self.opn as usize) % stride != 0 {
                    continue;
                }
                let key = NoteKey { txid, pool, out_idx: idx };
                let Some(truth) = h.sim.live.get(&key).cloned() else {
                    // spendable note unknown to the current chain: C08's business (orphans)
                    continue;
                };
                if truth.position != pos {
                    self.viol(h, r, &format!("C06:note-position-wrong:{}", pool.name()),
                        format!("account {ai} note {}:{idx} wallet position {pos}, true {}", hex::encode(txid), truth.position));
                    continue;
                }
                match witness(h, pool, pos, anchor_h) {
                    WitRes::Path(path) => {
                        let want = h.sim.root_at(pool, anchor_h);
                        let got = verify_path(pool, truth.cm, pos, &path);
                        self.witnesses_verified += 1;
                        if got != Some(want) {
                            let sig = if h.f1.tainted[pool.idx()] {
                                format!("C06:witness-invalid-after-F1-truncation:{}", pool.name())
                            } else {
                                format!("C06:witness-invalid:{}", pool.name())
                            };
                            self.viol(h, r, &sig, format!(
                                "{} note at position {pos}: path of length {} at anchor {anchor_h} hashes to {:?}, chain root {}; after {:?}",
                                pool.name(), path.len(), got.map(hex::encode), hex::encode(want), h.last_op()));
                        }
                    }
                    WitRes::None | WitRes::Err(_) => self.witnesses_unavailable += 1,
                }
            }
        }
    }
}

impl Monitor for C06 {
    fn after_op(&mut self, h: &mut Hist, r: &mut Reporter) {
        self.opn += 1;
        // the trees must stay maintainable: a scan of valid, correctly chained blocks may not fail
        // with a commitment-tree error (unless explained by known finding F1)
        if let Some(Op::Scan { ok: false, err: Some(e), from, limit }) = h.last_op().cloned() {
            if e.contains("CommitmentTree") || e.contains("Conflict") || e.contains("ShardTree") {
                let kind = if e.contains("Conflict") { "insert-conflict" } else { "tree-error" };
                let sig = if h.f1.any_tainted() {
                    format!("C06:scan-fails-with-{kind}-after-F1-truncation")
                } else {
                    format!("C06:scan-fails-with-{kind}-on-valid-blocks")
                };
                self.viol(h, r, &sig, format!("scan({from},{limit}) failed: {e}"));
            }
        }
        // pure mining does not touch the wallet
        if matches!(h.last_op(), Some(Op::Mine { .. })) {
            return;
        }
        if self.every > 1 && self.opn % self.every != 0 && !matches!(h.last_op(), Some(Op::Rewind { .. })) {
            return;
        }
        // right after a batch deeper than the pruning window every retained checkpoint is looked at
        // (stray ones are pruned again by the next batch)
        let deep_batch = matches!(h.last_op(), Some(Op::Scan { limit, ok: true, .. }) if *limit > 100);
        self.check(h, r, deep_batch);
    }

    fn at_end(&mut self, h: &mut Hist, r: &mut Reporter) {
        self.check(h, r, true);
        r.count("histories", 1);
        r.count("roots_checked", self.roots_checked);
        r.count("roots_not_computable", self.roots_not_computable);
        r.count("witnesses_verified", self.witnesses_verified);
        r.count("witnesses_unavailable", self.witnesses_unavailable);
        r.count("cross_pool_alignment_checks", self.align_checks);
        r.count("anchor_alignment_checks", self.anchor_checks);
        r.count("retained_boundaries_checked", self.boundaries_checked);
        r.count("retained_boundaries_on_blocks_without_commitments", self.boundaries_empty_block);
        r.count("rewinds", h.rewinds_done as u64);
        r.count("rewinds_refused_by_wallet", h.rewinds_refused as u64);
        r.count("deep_rewinds_attempted", h.deep_rewinds_attempted);
        r.count("subtree_roots_put", h.subtree_roots_put);
        r.count("shards_completed_by_chain", h.sim.completed_shards.len() as u64);
        if h.cfg.shard_start {
            r.count("histories_starting_at_shard_boundary", 1);
        }
        if h.cfg.nu6_3_late > 0 {
            r.count("histories_with_activation_inside_chain", 1);
        }
        if h.cfg.late_pool.is_some() {
            r.count("histories_with_late_starting_pool", 1);
        }
        r.count("batches_straddling_activation_with_retention", h.batches_straddling_activation);
        r.count("rewinds_to_empty_tree_of_a_pool", h.rewinds_to_empty_tree);
        r.count("rewinds_exposing_F1", h.rewinds_f1 as u64);
        r.count("f1_scan_failures", h.f1_scan_failures);
        if h.aborted.is_some() {
            r.count("histories_aborted", 1);
        }
        let sig = (
            h.cfg.pools.clone(),
            h.cfg.out_of_order,
            h.cfg.retention.map(|n| n / 8),
            h.rewinds_done,
            h.rewinds_f1,
            h.cfg.max_batch,
            (self.witnesses_verified > 0, self.boundaries_checked.min(3), self.roots_not_computable > 0),
        );
        r.case(&sig, self.roots_checked > 50 && (h.cfg.out_of_order || h.rewinds_done > 0));
        let class = format!("pools={:?} retention={:?} rewinds={}", h.cfg.pools.iter().map(|p| p.name()).collect::<Vec<_>>(), h.cfg.retention.is_some(), h.rewinds_done.min(1));
        let ops: Vec<Value> = h.ops.iter().take(30).map(|o| o.to_json()).collect();
        r.sample(&class, json!({"cfg": h.cfg.to_json(), "first_ops": ops, "roots_checked": self.roots_checked, "witnesses_verified": self.witnesses_verified}));
    }
}

fn main() {
    vh_common::install_panic_hook();
    let args = Args::parse();
    let mut r = Reporter::new("C06", &args);
    let n = args.pick(8u64, 200u64);
    let thorough = args.tier == vh_common::Tier::Thorough;
    let only = args.extra.get("only-hist").map(|v| v.parse::<u64>().unwrap());
    // Short directed histories first (a few seconds each): a dense retention grid over mostly empty
    // blocks with NU6.3 activating inside a batch, and a late-starting pool rewound to its empty
    // tree. The long random histories below rarely line these coincidences up in a quick run.
    let n_micro = args.get_u64("micro", args.pick(8u64, 120u64));
    let t_micro = std::time::Instant::now();
    let micro_budget = std::time::Duration::from_secs_f64(args.budget_s * 0.4);
    for m in 0..n_micro {
        if only.is_some() || !r.time_left() || t_micro.elapsed() > micro_budget {
            break;
        }
        let mut rng = vh_common::rng(args.shard_seed(), 90_000 + m);
        let kind = m + args.shard + args.seed;
        let cfg = HistCfg::micro(&mut rng, kind);
        vh_wallet::hooks::install(0);
        let _ = vh_wallet::hooks::take();
        let mut mon = C06 { every: 1, ..Default::default() };
        let res = guard(|| {
            let mut h = Hist::new(cfg.clone(), rng);
            h.id = 1_000_000 + m;
            h.run(&mut [&mut mon], &mut r);
        });
        if let Err(p) = res {
            r.violation(&format!("C06:panic:{}", panic_class(&p)), p, json!({"cfg": cfg.to_json(), "micro": m}));
        }
        r.count(if cfg.initial_one_batch { "micro_histories_deep_batch_empty_grid_blocks" } else if kind % 2 == 0 { "micro_histories_activation_inside_chain" } else { "micro_histories_late_pool_one_batch" }, 1);
        let _ = vh_wallet::hooks::take();
    }
    for i in 0..n {
        if !r.time_left() {
            break;
        }
        if only.is_some() && only != Some(i) {
            continue;
        }
        let mut rng = vh_common::rng(args.shard_seed(), 600 + i);
        // shapes rotate over shards AND history index, so that a quick run (1-3 histories per shard)
        // still sees every shape
        let j = i + args.shard + args.seed;
        let mut cfg = HistCfg::random(&mut rng, thorough);
        // C06 wants the retention clause exercised often
        if j % 2 == 0 {
            cfg.nu6_3 = true;
            if cfg.retention.is_none() {
                cfg.retention = Some(5 + (i as u32 * 7) % 33);
            }
        }
        // dense blocks in some histories: > 1024 commitments per batch -> parallel subtree chunks
        if j % 4 == 3 {
            cfg.dense_outputs = 40;
            cfg.pools.truncate(1);
            cfg.nu6_3 = cfg.nu6_3 || cfg.pools.contains(&Pool::Ironwood);
            cfg.initial_len = cfg.initial_len.min(70);
            cfg.max_batch = 150;
            cfg.steps = cfg.steps.min(14);
        }
        // histories that start next to a 2^16 subtree boundary
        if j % 4 == 1 {
            cfg.shard_start = true;
        }
        // histories in which NU6.3 activates INSIDE the scanned chain (retention floor inside a
        // batch) and/or one pool receives its first commitment late (rewinds to an empty tree)
        if j % 4 == 2 {
            cfg.nu6_3 = true;
            cfg.nu6_3_late = 3 + (i as u32 * 5) % 40;
            if cfg.retention.is_none() {
                cfg.retention = Some(5 + (i as u32 * 3) % 20);
            }
            cfg.max_batch = cfg.max_batch.max(30);
        }
        if j % 8 == 6 || j % 8 == 3 {
            let lp = *cfg.pools.last().unwrap();
            if lp != Pool::Ironwood || cfg.nu6_3 {
                cfg.late_pool = Some((lp, 8 + (i as u32 * 7) % 30));
                cfg.max_rewinds = cfg.max_rewinds.max(2);
            }
        }
        vh_wallet::hooks::install(if j % 2 == 0 { args.shard_seed() | 1 } else { 0 });
        let _ = vh_wallet::hooks::take();
        let mut mon = C06 { every: 1, ..Default::default() };
        let res = guard(|| {
            let mut h = Hist::new(cfg.clone(), rng);
            h.id = i;
            h.run(&mut [&mut mon], &mut r);
        });
        if let Err(p) = res {
            r.violation(&format!("C06:panic:{}", panic_class(&p)), p, json!({"cfg": cfg.to_json(), "hist": i}));
        }
        let ev = vh_wallet::hooks::take();
        let chunks = ev.iter().filter(|e| e.0 == "subtree_chunk").count() as u64;
        let par = ev.iter().filter(|e| e.0 == "subtree_chunk" && e.2 >= 1).count() as u64;
        r.count("subtree_chunks_built", chunks);
        r.count("subtree_chunks_beyond_first_in_batch", par);
        let threads: BTreeSet<u64> = ev.iter().filter(|e| e.0 == "subtree_chunk").map(|e| e.1).collect();
        r.set_max("max_threads_building_subtree_chunks", threads.len() as u64);
    }
    r.finish();
}
