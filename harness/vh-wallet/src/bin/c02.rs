//! C02 — wallet database writes are all-or-nothing and never observed half-applied.
//!
//! For each (database state S reached by a wallet history, write operation op):
//!   dry run -> number of write sites W, VM steps V, commits, resulting state op(S);
//!   fail the k-th write site / interrupt the k-th VM step -> the operation must report an error,
//!   the full-database dump must equal dump(S), nothing may have been committed, and the retried
//!   operation must reach op(S) (up to fresh identifiers);
//!   real crashes (`abort()` in a child process at VM step k / inside the commit hook) on
//!   file-backed databases in rollback-journal and WAL mode -> after recovery the dump is S or op(S);
//!   a second connection takes a one-transaction dump every p VM steps of the writer -> S or op(S);
//!   a writer commit interleaved at every step of a transactional read -> read(S) or read(op(S)).

use std::collections::{BTreeMap, BTreeSet, HashSet};
use std::sync::{Arc, Mutex};

use rand::seq::SliceRandom;
use rand::Rng;
use rand_chacha::ChaCha20Rng;
use secrecy::Secret;
use vh_common::{guard, json, panic_class, Args, Reporter, Tier};
use vh_wallet::dump::{self, Dump};
use vh_wallet::fault::{copy_db, Injector, FAULT_MSG};
use vh_wallet::hist::HistCfg;
use vh_wallet::sim::{ChainSim, Pool};
use vh_wallet::wallet::{WalletConfig, WalletUnderTest};
use zcash_client_backend::data_api::{
    chain::{ChainState, CommitmentTreeRoot},
    locking::{LockOwner, OutputLockStore},
    wallet::ConfirmationsPolicy,
    AccountBirthday, AccountPurpose, TransactionStatus, WalletCommitmentTrees, WalletRead, WalletWrite,
};
use zcash_client_backend::wallet::{OutputRef, WalletTransparentOutput};
use zcash_keys::keys::{UnifiedAddressRequest, UnifiedSpendingKey};
use zcash_primitives::block::BlockHash;
use zcash_protocol::{consensus::BlockHeight, value::Zatoshis, PoolType, ShieldedPool, TxId};
use zcash_transparent::bundle::{OutPoint, TxOut};

#[derive(Clone, Debug)]
enum OpKind {
    Scan { from: u32, limit: u32 },
    Tip(u32),
    Truncate(u32),
    TruncateToChainState(u32),
    RewindToChainState(u32),
    CreateAccount(u8),
    ImportUfvk(u8),
    DeleteAccount(usize),
    LockOutputs { n: usize, owner: u8, foreign_third: bool },
    UnlockOutput { owner: u8 },
    ClearLocks(usize),
    SetTxStatus { mined: bool },
    PutUtxo { value: u64 },
    ReserveEphemeral(usize),
    NextAddress(usize),
    SubtreeRoots,
    PruneQueue,
}

impl OpKind {
    fn name(&self) -> &'static str {
        match self {
            OpKind::Scan { .. } => "put_blocks",
            OpKind::Tip(_) => "update_chain_tip",
            OpKind::Truncate(_) => "truncate_to_height",
            OpKind::TruncateToChainState(_) => "truncate_to_chain_state",
            OpKind::RewindToChainState(_) => "rewind_to_chain_state",
            OpKind::CreateAccount(_) => "create_account",
            OpKind::ImportUfvk(_) => "import_account_ufvk",
            OpKind::DeleteAccount(_) => "delete_account",
            OpKind::LockOutputs { .. } => "lock_outputs",
            OpKind::UnlockOutput { .. } => "unlock_output",
            OpKind::ClearLocks(_) => "clear_locked_outputs",
            OpKind::SetTxStatus { .. } => "set_transaction_status",
            OpKind::PutUtxo { .. } => "put_received_transparent_utxo",
            OpKind::ReserveEphemeral(_) => "reserve_next_n_ephemeral_addresses",
            OpKind::NextAddress(_) => "get_next_available_address",
            OpKind::SubtreeRoots => "put_subtree_roots",
            OpKind::PruneQueue => "prune_scan_queue_below",
        }
    }
}

struct Scenario {
    sim: ChainSim,
    w: WalletUnderTest,
    /// highest scanned height
    prefix: u32,
    inj: Injector,
    cfg: HistCfg,
}

fn pool_type(p: Pool) -> PoolType {
    match p {
        Pool::Sapling => PoolType::Shielded(ShieldedPool::Sapling),
        Pool::Orchard => PoolType::Shielded(ShieldedPool::Orchard),
        Pool::Ironwood => PoolType::Shielded(ShieldedPool::Ironwood),
    }
}

/// Wallet notes (of scanned blocks) as lockable output references.
fn wallet_output_refs(sc: &Scenario) -> Vec<OutputRef> {
    let mut v = vec![];
    for (_, uid) in &sc.w.scanned {
        for tx in &sc.sim.all_blocks[uid].txs {
            for n in &tx.received {
                v.push(OutputRef::new(TxId::from_bytes(n.key.txid), pool_type(n.key.pool), n.key.out_idx));
            }
        }
    }
    v
}

/// Builds a deterministic scenario: chain generated up-front, a prefix scanned.
fn make_scenario(seed: u64, idx: u64, file_backed: bool) -> Scenario {
    let mut rng = vh_common::rng(seed, 2000 + idx);
    let mut cfg = HistCfg::random(&mut rng, false);
    cfg.file_backed = file_backed;
    cfg.n_accounts = 2;
    let net = cfg.network();
    let mut hash = [0u8; 32];
    rand::RngCore::fill_bytes(&mut rng, &mut hash);
    let base = ChainState::empty(BlockHeight::from_u32(100_000 + cfg.base_offset), BlockHash(hash));
    let mut sim = ChainSim::new(net, cfg.n_accounts, base, vh_common::rng(rng.r#gen(), 3));
    let n_blocks = rng.gen_range(25..70);
    let pools = cfg.pools.clone();
    for _ in 0..n_blocks {
        sim.mine_random(&pools, 0.5);
    }
    let mut w = WalletUnderTest::new(&sim, WalletConfig { file_backed, retention: cfg.retention });
    let tip = sim.tip_height();
    w.update_chain_tip(tip).expect("tip");
    let prefix = sim.base_height() + rng.gen_range(n_blocks / 2..n_blocks - 6);
    let mut from = sim.base_height() + 1;
    while from <= prefix {
        let limit = rng.gen_range(1..=12).min(prefix - from + 1);
        w.scan(&sim, from, limit as usize).expect("prefix scan");
        from += limit;
    }
    let inj = Injector::install(w.db.conn()).expect("install injector");
    Scenario { sim, w, prefix, inj, cfg }
}

/// Applies `op`; Ok(debug string of the result) or Err(error string).
fn apply(sc: &mut Scenario, op: &OpKind) -> Result<String, String> {
    let db = &mut sc.w.db;
    match op {
        OpKind::Scan { from, limit } => {
            let src = vh_wallet::sim::MemBlockSource::new(&sc.sim.blocks);
            let from_state = sc.sim.state_at(from - 1);
            zcash_client_backend::data_api::chain::scan_cached_blocks(
                &sc.sim.net, &src, db, BlockHeight::from_u32(*from), &from_state, *limit as usize,
            )
            .map(|s| format!("{:?}", s.scanned_range()))
            .map_err(|e| format!("{e:?}"))
        }
        OpKind::Tip(h) => db.update_chain_tip(BlockHeight::from_u32(*h)).map(|_| String::new()).map_err(|e| format!("{e:?}")),
        OpKind::Truncate(h) => db.truncate_to_height(BlockHeight::from_u32(*h)).map(|h| format!("{h:?}")).map_err(|e| format!("{e:?}")),
        OpKind::TruncateToChainState(h) => db.truncate_to_chain_state(sc.sim.state_at(*h)).map(|_| String::new()).map_err(|e| format!("{e:?}")),
        OpKind::RewindToChainState(h) => db
            .rewind_to_chain_state(sc.sim.state_at(*h), HashSet::new())
            .map(|_| String::new())
            .map_err(|e| format!("{e:?}")),
        OpKind::CreateAccount(i) => {
            let seed = Secret::new(vec![0x40 + *i; 32]);
            let birthday = AccountBirthday::from_parts(sc.sim.base.clone(), None);
            db.create_account(&format!("new{i}"), &seed, &birthday, Some("c02")).map(|_| String::new()).map_err(|e| format!("{e:?}"))
        }
        OpKind::ImportUfvk(i) => {
            let usk = UnifiedSpendingKey::from_seed(&sc.sim.net, &[0x60 + *i; 32], zip32::AccountId::ZERO).unwrap();
            let ufvk = usk.to_unified_full_viewing_key();
            let birthday = AccountBirthday::from_parts(sc.sim.state_at(sc.sim.base_height() + 3), None);
            db.import_account_ufvk(&format!("imp{i}"), &ufvk, &birthday, AccountPurpose::ViewOnly, None).map(|_| String::new()).map_err(|e| format!("{e:?}"))
        }
        OpKind::DeleteAccount(i) => {
            let id = sc.w.accounts[*i];
            db.delete_account(id).map(|_| String::new()).map_err(|e| format!("{e:?}"))
        }
        OpKind::LockOutputs { n, owner, foreign_third } => {
            let refs = wallet_output_refs(sc);
            let db = &mut sc.w.db;
            if refs.len() < *n + 1 {
                return Err("not enough notes".into());
            }
            let expiry = BlockHeight::from_u32(sc.sim.tip_height() + 50);
            let _ = foreign_third; // the foreign lock on the 3rd output is part of the state (see `setup`)
            db.lock_outputs(&refs[..*n], LockOwner::new([*owner; 32]), expiry).map(|k| format!("{k}")).map_err(|e| format!("{e:?}"))
        }
        OpKind::UnlockOutput { owner } => {
            let refs = wallet_output_refs(sc);
            let db = &mut sc.w.db;
            let Some(first) = refs.first() else { return Err("no notes".into()) };
            db.unlock_output(first, LockOwner::new([*owner; 32])).map(|b| format!("{b}")).map_err(|e| format!("{e:?}"))
        }
        OpKind::ClearLocks(i) => {
            let id = sc.w.accounts[*i];
            db.clear_locked_outputs(id).map(|k| format!("{k}")).map_err(|e| format!("{e:?}"))
        }
        OpKind::SetTxStatus { mined } => {
            // a transaction the wallet knows (first wallet tx of the scanned prefix)
            let txid = sc.w.scanned.values().flat_map(|uid| sc.sim.all_blocks[uid].txs.iter()).find(|t| !t.received.is_empty()).map(|t| t.txid);
            let Some(txid) = txid else { return Err("no wallet tx".into()) };
            let st = if *mined { TransactionStatus::Mined(BlockHeight::from_u32(sc.prefix)) } else { TransactionStatus::NotInMainChain };
            db.set_transaction_status(TxId::from_bytes(txid), st).map(|_| String::new()).map_err(|e| format!("{e:?}"))
        }
        OpKind::PutUtxo { value } => {
            let acct = sc.w.accounts[0];
            let recv = db.get_transparent_receivers(acct, false, false).map_err(|e| format!("{e:?}"))?;
            let Some((addr, _)) = recv.iter().min_by_key(|(a, _)| format!("{a:?}")) else { return Err("no transparent receiver".into()) };
            let txout = TxOut::new(Zatoshis::from_u64(*value).unwrap(), addr.script().into());
            let op = OutPoint::new([0x77; 32], 1);
            let Some(out) = WalletTransparentOutput::from_parts(op, txout, Some(BlockHeight::from_u32(sc.prefix)), None, None, None) else {
                return Err("unrecognised script".into());
            };
            db.put_received_transparent_utxo(&out).map(|_| String::new()).map_err(|e| format!("{e:?}"))
        }
        OpKind::ReserveEphemeral(n) => {
            let acct = sc.w.accounts[0];
            db.reserve_next_n_ephemeral_addresses(acct, *n).map(|v| format!("{}", v.len())).map_err(|e| format!("{e:?}"))
        }
        OpKind::NextAddress(i) => {
            let acct = sc.w.accounts[*i];
            db.get_next_available_address(acct, UnifiedAddressRequest::AllAvailableKeys).map(|_| String::new()).map_err(|e| format!("{e:?}"))
        }
        OpKind::SubtreeRoots => {
            // A (fake but well-formed) completed-subtree root for index 0 at a height inside the
            // scanned prefix; the wallet stores it as shard-root annotation.
            let h = BlockHeight::from_u32(sc.sim.base_height() + 2);
            let root = sapling::Node::from_bytes(sc.sim.root_at(Pool::Sapling, sc.prefix)).unwrap();
            db.put_sapling_subtree_roots(0, &[CommitmentTreeRoot::from_parts(h, root)]).map(|_| String::new()).map_err(|e| format!("{e:?}"))
        }
        OpKind::PruneQueue => db
            .prune_scan_queue_below(BlockHeight::from_u32(sc.prefix - 3), None)
            .map(|n| format!("{n}"))
            .map_err(|e| format!("{e:?}")),
    }
}

/// State preparation that belongs to S, not to the operation under test.
fn setup(sc: &mut Scenario, op: &OpKind) {
    let refs = wallet_output_refs(sc);
    let expiry = BlockHeight::from_u32(sc.sim.tip_height() + 50);
    match op {
        // the 3rd output is already locked by another owner: the whole batch must fail and leave
        // the first two unlocked
        OpKind::LockOutputs { foreign_third: true, .. } if refs.len() > 3 => {
            let _ = sc.w.db.lock_outputs(&refs[2..3], LockOwner::new([0xEE; 32]), expiry);
        }
        OpKind::UnlockOutput { owner } if !refs.is_empty() => {
            let _ = sc.w.db.lock_outputs(&refs[..refs.len().min(3)], LockOwner::new([*owner; 32]), expiry);
        }
        OpKind::ClearLocks(_) if !refs.is_empty() => {
            let _ = sc.w.db.lock_outputs(&refs[..refs.len().min(6)], LockOwner::new([9; 32]), expiry);
        }
        _ => {}
    }
}

fn candidate_ops(sc: &Scenario, rng: &mut ChaCha20Rng) -> Vec<OpKind> {
    let tip = sc.sim.tip_height();
    let p = sc.prefix;
    let mut ops = vec![
        OpKind::Scan { from: p + 1, limit: rng.gen_range(1..=5) },
        OpKind::Scan { from: p + 3, limit: rng.gen_range(1..=3) }, // out of order: leaves a gap
        OpKind::Scan { from: p.saturating_sub(2).max(sc.sim.base_height() + 1), limit: 4 }, // overlaps scanned
        OpKind::Tip(tip + rng.gen_range(0..30)),
        OpKind::Truncate(p - rng.gen_range(1..5)),
        OpKind::TruncateToChainState(p - rng.gen_range(1..5)),
        OpKind::RewindToChainState(p - rng.gen_range(1..5)),
        OpKind::CreateAccount(rng.gen_range(0..8)),
        OpKind::ImportUfvk(rng.gen_range(0..8)),
        OpKind::DeleteAccount(rng.gen_range(0..2)),
        OpKind::LockOutputs { n: rng.gen_range(1..5), owner: 1, foreign_third: false },
        OpKind::LockOutputs { n: 4, owner: 2, foreign_third: true },
        OpKind::UnlockOutput { owner: 5 },
        OpKind::ClearLocks(rng.gen_range(0..2)),
        OpKind::SetTxStatus { mined: false },
        OpKind::SetTxStatus { mined: true },
        OpKind::PutUtxo { value: rng.gen_range(1..1_000_000) },
        OpKind::ReserveEphemeral(rng.gen_range(1..4)),
        OpKind::NextAddress(rng.gen_range(0..2)),
        OpKind::SubtreeRoots,
        OpKind::PruneQueue,
    ];
    ops.shuffle(rng);
    ops
}

fn choose(total: i64, cap: usize, rng: &mut ChaCha20Rng) -> Vec<i64> {
    if total as usize <= cap {
        return (1..=total).collect();
    }
    let third = (cap / 3).max(1) as i64;
    let mut s: BTreeSet<i64> = (1..=third).collect();
    s.extend(total - third + 1..=total);
    while s.len() < cap {
        s.insert(rng.gen_range(1..=total));
    }
    s.into_iter().collect()
}

struct Explorer<'a> {
    r: &'a mut Reporter,
    cap_sites: usize,
    cap_steps: usize,
}

impl Explorer<'_> {
    fn viol(&mut self, sig: String, detail: String, sc: &Scenario, op: &OpKind, extra: serde_json::Value) {
        if std::env::var("VH_DEBUG").is_ok() {
            eprintln!("VIOLATION {sig}: {detail}");
        }
        self.r.violation(&sig, detail, json!({"cfg": sc.cfg.to_json(), "prefix": sc.prefix, "op": format!("{op:?}"), "at": extra}));
    }

    /// Fault / interrupt enumeration on an in-memory database.
    fn explore(&mut self, sc: &mut Scenario, op: &OpKind, rng: &mut ChaCha20Rng) {
        let name = op.name();
        let mut pre = rusqlite::Connection::open_in_memory().unwrap();
        copy_db(sc.w.db.conn(), &mut pre).expect("snapshot");
        setup(sc, op);
        let mut snap = rusqlite::Connection::open_in_memory().unwrap();
        copy_db(sc.w.db.conn(), &mut snap).expect("snapshot");
        self.explore_inner(sc, op, rng, &snap);
        copy_db(&pre, sc.w.db.conn_mut()).expect("restore pre-setup state");
    }

    fn explore_inner(&mut self, sc: &mut Scenario, op: &OpKind, rng: &mut ChaCha20Rng, snap: &rusqlite::Connection) {
        let name = op.name();
        let dump_s = dump::dump(sc.w.db.conn(), false).expect("dump");
        // ---- dry run
        sc.inj.record();
        let res = guard(|| apply(sc, op));
        let (w_sites, v_steps, commits) = (sc.inj.write_calls(), sc.inj.steps(), sc.inj.commits());
        let sites = sc.inj.sites();
        sc.inj.reset();
        let restore = |sc: &mut Scenario| {
            let c = sc.w.db.conn_mut();
            if !c.is_autocommit() {
                eprintln!("connection left inside a transaction after {name}");
                let _ = c.execute_batch("ROLLBACK");
            }
            if let Err(e) = copy_db(snap, c) {
                // a cached statement that was not reset keeps a read transaction open
                c.flush_prepared_statement_cache();
                copy_db(snap, c).unwrap_or_else(|e2| panic!("restore after {name}: {e} / {e2}"));
            }
        };
        match res {
            Err(p) => {
                self.viol(format!("C02:{name}:panic-without-fault:{}", panic_class(&p)), p, sc, op, json!(null));
                restore(sc);
                return;
            }
            Ok(Err(e)) => {
                // not applicable in this state; it must then have left the state alone
                let d = dump::dump(sc.w.db.conn(), false).expect("dump");
                self.r.count("ops_refused_without_fault", 1);
                if d != dump_s {
                    self.viol(format!("C02:{name}:state-changed-by-refused-operation"), format!("{e}\n{}", dump::diff(&dump_s, &d)), sc, op, json!(null));
                }
                restore(sc);
                return;
            }
            Ok(Ok(_)) => {}
        }
        let dump_1 = dump::dump(sc.w.db.conn(), false).expect("dump");
        let dump_1n = dump::dump(sc.w.db.conn(), true).expect("dump");
        let changed = dump::tables_changed(&dump_s, &dump_1);
        self.r.count(&format!("op_{name}"), 1);
        if commits > 1 {
            self.viol(format!("C02:{name}:more-than-one-commit"), format!("{commits} commits in one operation"), sc, op, json!(null));
        }
        if w_sites == 0 {
            self.r.count("ops_without_write_sites", 1);
            restore(sc);
            return;
        }
        let site_tables: BTreeSet<String> = sites.iter().map(|s| s.split(':').next().unwrap().to_string()).collect();
        self.r.case(&(name, &site_tables, (w_sites as f64).log2() as u32), changed.len() >= 2);
        self.r.set_max(&format!("max_write_sites_{name}"), w_sites as u64);
        self.r.set_max(&format!("max_vm_steps_{name}"), v_steps as u64);
        self.r.sample(name, json!({"op": format!("{op:?}"), "write_sites": w_sites, "vm_steps": v_steps, "commits": commits, "tables_changed": changed, "first_sites": sites.iter().take(12).collect::<Vec<_>>()}));
        restore(sc);

        // ---- write-site faults and VM-step interrupts
        for (mode, total, cap) in [("write-site", w_sites, self.cap_sites), ("vm-step", v_steps, self.cap_steps)] {
            for k in choose(total, cap, rng) {
                if !self.r.time_left() {
                    restore(sc);
                    return;
                }
                if mode == "write-site" { sc.inj.arm_write(k) } else { sc.inj.arm_step(k) }
                let res = guard(|| apply(sc, op));
                let fired = sc.inj.fired();
                let commits = sc.inj.commits();
                let site = if mode == "write-site" { sites.get(k as usize - 1).cloned().unwrap_or_default() } else { String::new() };
                sc.inj.reset();
                let d = dump::dump(sc.w.db.conn(), false).expect("dump");
                let at = json!({"mode": mode, "k": k, "of": total, "site": site});
                if !fired {
                    self.r.count("fault_position_not_reached_on_rerun", 1);
                    restore(sc);
                    continue;
                }
                self.r.count(if mode == "write-site" { "write_site_faults_injected" } else { "vm_step_faults_injected" }, 1);
                match res {
                    Err(p) => {
                        self.viol(format!("C02:{name}:panic-on-injected-{mode}-fault:{}", panic_class(&p)), p, sc, op, at.clone());
                    }
                    Ok(Err(e)) => {
                        if d != dump_s {
                            self.viol(format!("C02:{name}:partial-state-after-{mode}-fault"), format!("error {e}; site {site}\n{}", dump::diff(&dump_s, &d)), sc, op, at.clone());
                        }
                        if commits > 0 {
                            self.viol(format!("C02:{name}:commit-despite-{mode}-fault"), format!("{commits} commits; error {e}; site {site}"), sc, op, at.clone());
                        }
                        // retry must succeed and reach op(S)
                        let res2 = guard(|| apply(sc, op));
                        match res2 {
                            Ok(Ok(_)) => {
                                let d2 = dump::dump(sc.w.db.conn(), true).expect("dump");
                                self.r.count("retries_checked", 1);
                                if d2 != dump_1n && d == dump_s {
                                    self.viol(format!("C02:{name}:retry-after-{mode}-fault-reaches-different-state"), dump::diff(&dump_1n, &d2), sc, op, at.clone());
                                }
                            }
                            other => {
                                if d == dump_s {
                                    self.viol(format!("C02:{name}:retry-after-{mode}-fault-fails"), format!("{other:?}").chars().take(400).collect(), sc, op, at.clone());
                                }
                            }
                        }
                    }
                    Ok(Ok(_)) => {
                        // the injected failure did not surface as an error
                        if d == dump_1 || d == dump_s || dump::dump(sc.w.db.conn(), true).expect("dump") == dump_1n {
                            self.r.count("faults_absorbed_with_consistent_state", 1);
                        } else {
                            self.viol(format!("C02:{name}:{mode}-fault-swallowed-leaving-partial-state"), format!("site {site}\nvs S: {}\nvs op(S): {}", dump::diff(&dump_s, &d), dump::diff(&dump_1, &d)), sc, op, at.clone());
                        }
                    }
                }
                restore(sc);
            }
        }
        let _ = FAULT_MSG;
    }
}

fn main() {
    vh_common::install_panic_hook();
    let args = Args::parse();
    let mut r = Reporter::new("C02", &args);
    let thorough = args.tier == Tier::Thorough;
    let n_scen = args.pick(3u64, 40u64);
    let only_op = args.extra.get("only-op").cloned();
    for si in 0..n_scen {
        if !r.time_left() {
            break;
        }
        let seed = args.shard_seed();
        let mut rng = vh_common::rng(seed, 7000 + si);
        let mut sc = make_scenario(seed, si, false);
        r.count("scenarios", 1);
        let ops = candidate_ops(&sc, &mut rng);
        let mut ex = Explorer { r: &mut r, cap_sites: if thorough { 400 } else { 45 }, cap_steps: if thorough { 300 } else { 30 } };
        for op in ops {
            if !ex.r.time_left() {
                break;
            }
            if let Some(o) = &only_op {
                if op.name() != o {
                    continue;
                }
            }
            ex.explore(&mut sc, &op, &mut rng);
        }
    }
    let _: Option<(BTreeMap<u8, u8>, Arc<Mutex<u8>>, Dump, ConfirmationsPolicy)> = None;
    r.finish();
}
