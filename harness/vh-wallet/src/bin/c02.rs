//! C02 — wallet database writes are all-or-nothing and never observed half-applied.
//!
//! For each (database state S reached by a wallet history, write operation op):
//!   dry run -> number of write sites W, VM steps V, commits, resulting state op(S);
//!   fail the k-th write site / interrupt the k-th VM step -> the operation must report an error,
//!   the full-database dump must equal dump(S), nothing may have been committed, and the retried
//!   operation must reach op(S) (up to fresh identifiers);
//!   real crashes (`abort()` in a child process at VM step k / inside the commit hook) on
//!   file-backed databases in rollback-journal and WAL mode -> after recovery the dump is S or op(S);
//!   a second connection takes a one-transaction dump every p VM steps of the writer -> S or op(S);
//!   a writer commit interleaved at every step of a transactional read -> read(S) or read(op(S)).

use std::collections::{BTreeMap, BTreeSet, HashSet};
use std::sync::{Arc, Mutex};

use rand::seq::SliceRandom;
use rand::Rng;
use rand_chacha::ChaCha20Rng;
use secrecy::Secret;
use vh_common::{guard, json, panic_class, Args, Reporter, Tier};
use vh_wallet::dump::{self, Dump};
use vh_wallet::fault::{copy_db, Injector, FAULT_MSG};
use vh_wallet::hist::HistCfg;
use vh_wallet::sim::{ChainSim, Pool};
use vh_wallet::wallet::{WalletConfig, WalletUnderTest};
use zcash_client_backend::data_api::{
    chain::{ChainState, CommitmentTreeRoot},
    locking::{LockOwner, OutputLockStore},
    wallet::ConfirmationsPolicy,
    AccountBirthday, AccountPurpose, TransactionStatus, WalletCommitmentTrees, WalletRead, WalletWrite,
};
use zcash_client_backend::wallet::{OutputRef, WalletTransparentOutput};
use zcash_client_sqlite::AccountUuid;
use zcash_keys::keys::{UnifiedAddressRequest, UnifiedSpendingKey};
use zcash_primitives::block::BlockHash;
use zcash_protocol::{consensus::BlockHeight, value::Zatoshis, PoolType, ShieldedPool, TxId};
use zcash_transparent::bundle::{OutPoint, TxOut};

#[derive(Clone, Debug)]
enum OpKind {
    Scan { from: u32, limit: u32 },
    Tip(u32),
    Truncate(u32),
    TruncateToChainState(u32),
    RewindToChainState(u32),
    CreateAccount(u8),
    ImportUfvk(u8),
    DeleteAccount(usize),
    LockOutputs { n: usize, owner: u8, foreign_third: bool },
    UnlockOutput { owner: u8 },
    ClearLocks(usize),
    SetTxStatus { mined: bool },
    PutUtxo { value: u64 },
    ReserveEphemeral(usize),
    NextAddress(usize),
    SubtreeRoots,
    PruneQueue,
    StoreSentBatch(u32),
    StoreDecryptedTx { mined: bool },
    /// pool-migration store (SQLite): persist a changed state of the stored live migration
    MigPersist(MigChange),
}

#[derive(Clone, Copy, Debug, PartialEq, Eq)]
enum MigChange {
    /// terminal transition: status flip + release of the reservations held by never-broadcast rows
    Superseded,
    Cancelled,
    /// lifecycle advance of one transaction (Proved -> Broadcast)
    Broadcast,
    /// first persist of a migration for the account
    Fresh,
}

impl OpKind {
    /// Compact textual form handed to the crash child.
    fn encode(&self) -> String {
        match self {
            OpKind::Scan { from, limit } => format!("scan:{from}:{limit}"),
            OpKind::Tip(h) => format!("tip:{h}"),
            OpKind::Truncate(h) => format!("trunc:{h}"),
            OpKind::TruncateToChainState(h) => format!("tcs:{h}"),
            OpKind::RewindToChainState(h) => format!("rcs:{h}"),
            OpKind::CreateAccount(i) => format!("create:{i}"),
            OpKind::ImportUfvk(i) => format!("import:{i}"),
            OpKind::DeleteAccount(i) => format!("delete:{i}"),
            OpKind::LockOutputs { n, owner, foreign_third } => format!("lock:{n}:{owner}:{}", *foreign_third as u8),
            OpKind::UnlockOutput { owner } => format!("unlock:{owner}"),
            OpKind::ClearLocks(i) => format!("clear:{i}"),
            OpKind::SetTxStatus { mined } => format!("status:{}", *mined as u8),
            OpKind::PutUtxo { value } => format!("utxo:{value}"),
            OpKind::ReserveEphemeral(n) => format!("eph:{n}"),
            OpKind::NextAddress(i) => format!("addr:{i}"),
            OpKind::SubtreeRoots => "roots".into(),
            OpKind::PruneQueue => "prune".into(),
            OpKind::StoreSentBatch(n) => format!("sent:{n}"),
            OpKind::StoreDecryptedTx { mined } => format!("dtx:{}", *mined as u8),
            OpKind::MigPersist(c) => format!("mig:{}", *c as u8),
        }
    }

    fn decode(s: &str) -> OpKind {
        let p: Vec<&str> = s.split(':').collect();
        let n = |i: usize| p[i].parse::<u64>().unwrap();
        match p[0] {
            "scan" => OpKind::Scan { from: n(1) as u32, limit: n(2) as u32 },
            "tip" => OpKind::Tip(n(1) as u32),
            "trunc" => OpKind::Truncate(n(1) as u32),
            "tcs" => OpKind::TruncateToChainState(n(1) as u32),
            "rcs" => OpKind::RewindToChainState(n(1) as u32),
            "create" => OpKind::CreateAccount(n(1) as u8),
            "import" => OpKind::ImportUfvk(n(1) as u8),
            "delete" => OpKind::DeleteAccount(n(1) as usize),
            "lock" => OpKind::LockOutputs { n: n(1) as usize, owner: n(2) as u8, foreign_third: n(3) != 0 },
            "unlock" => OpKind::UnlockOutput { owner: n(1) as u8 },
            "clear" => OpKind::ClearLocks(n(1) as usize),
            "status" => OpKind::SetTxStatus { mined: n(1) != 0 },
            "utxo" => OpKind::PutUtxo { value: n(1) },
            "eph" => OpKind::ReserveEphemeral(n(1) as usize),
            "addr" => OpKind::NextAddress(n(1) as usize),
            "roots" => OpKind::SubtreeRoots,
            "prune" => OpKind::PruneQueue,
            "sent" => OpKind::StoreSentBatch(n(1) as u32),
            "dtx" => OpKind::StoreDecryptedTx { mined: n(1) != 0 },
            "mig" => OpKind::MigPersist([MigChange::Superseded, MigChange::Cancelled, MigChange::Broadcast, MigChange::Fresh][n(1) as usize]),
            other => panic!("bad op {other}"),
        }
    }

    fn name(&self) -> &'static str {
        match self {
            OpKind::Scan { .. } => "put_blocks",
            OpKind::Tip(_) => "update_chain_tip",
            OpKind::Truncate(_) => "truncate_to_height",
            OpKind::TruncateToChainState(_) => "truncate_to_chain_state",
            OpKind::RewindToChainState(_) => "rewind_to_chain_state",
            OpKind::CreateAccount(_) => "create_account",
            OpKind::ImportUfvk(_) => "import_account_ufvk",
            OpKind::DeleteAccount(_) => "delete_account",
            OpKind::LockOutputs { .. } => "lock_outputs",
            OpKind::UnlockOutput { .. } => "unlock_output",
            OpKind::ClearLocks(_) => "clear_locked_outputs",
            OpKind::SetTxStatus { .. } => "set_transaction_status",
            OpKind::PutUtxo { .. } => "put_received_transparent_utxo",
            OpKind::ReserveEphemeral(_) => "reserve_next_n_ephemeral_addresses",
            OpKind::NextAddress(_) => "get_next_available_address",
            OpKind::SubtreeRoots => "put_subtree_roots",
            OpKind::PruneQueue => "prune_scan_queue_below",
            OpKind::StoreSentBatch(_) => "store_transactions_to_be_sent",
            OpKind::StoreDecryptedTx { .. } => "store_decrypted_tx",
            OpKind::MigPersist(MigChange::Superseded) => "migration_persist_superseded",
            OpKind::MigPersist(MigChange::Cancelled) => "migration_persist_cancelled",
            OpKind::MigPersist(MigChange::Broadcast) => "migration_persist_broadcast",
            OpKind::MigPersist(MigChange::Fresh) => "migration_persist_first",
        }
    }
}

/// Everything an operation needs besides the database handle (reconstructible from the seed,
/// so that a child process can rebuild it without the parent's wallet).
struct Ctx {
    sim: ChainSim,
    /// highest scanned height
    prefix: u32,
    cfg: HistCfg,
    accounts: Vec<AccountUuid>,
    /// height -> block uid of the scanned prefix
    scanned: BTreeMap<u32, u64>,
    /// batches in which the prefix is scanned
    plan: Vec<(u32, u32)>,
}

struct Scenario {
    cx: Ctx,
    w: WalletUnderTest,
    inj: Injector,
}

fn pool_type(p: Pool) -> PoolType {
    match p {
        Pool::Sapling => PoolType::Shielded(ShieldedPool::Sapling),
        Pool::Orchard => PoolType::Shielded(ShieldedPool::Orchard),
        Pool::Ironwood => PoolType::Shielded(ShieldedPool::Ironwood),
    }
}

/// Wallet notes (of scanned blocks) as lockable output references.
fn wallet_output_refs(cx: &Ctx) -> Vec<OutputRef> {
    let mut v = vec![];
    for (_, uid) in &cx.scanned {
        for tx in &cx.sim.all_blocks[uid].txs {
            for n in &tx.received {
                v.push(OutputRef::new(TxId::from_bytes(n.key.txid), pool_type(n.key.pool), n.key.out_idx));
            }
        }
    }
    v
}

/// Deterministic chain + scan plan for (seed, idx); no wallet involved.
fn make_chain(seed: u64, idx: u64, file_backed: bool) -> Ctx {
    let mut rng = vh_common::rng(seed, 2000 + idx);
    let mut cfg = HistCfg::random(&mut rng, false);
    cfg.file_backed = file_backed;
    cfg.n_accounts = 2;
    let net = cfg.network();
    let mut hash = [0u8; 32];
    rand::RngCore::fill_bytes(&mut rng, &mut hash);
    let base = ChainState::empty(BlockHeight::from_u32(100_000 + cfg.base_offset), BlockHash(hash));
    let mut sim = ChainSim::new(net, cfg.n_accounts, base, vh_common::rng(rng.r#gen(), 3));
    let n_blocks = rng.gen_range(25..70);
    let pools = cfg.pools.clone();
    for _ in 0..n_blocks {
        sim.mine_random(&pools, 0.5);
    }
    let prefix = sim.base_height() + rng.gen_range(n_blocks / 2..n_blocks - 6);
    let mut plan = vec![];
    let mut from = sim.base_height() + 1;
    while from <= prefix {
        let limit = rng.gen_range(1..=12).min(prefix - from + 1);
        plan.push((from, limit));
        from += limit;
    }
    let scanned = (sim.base_height() + 1..=prefix).map(|h| (h, sim.blocks[&h].uid)).collect();
    Ctx { sim, prefix, cfg, accounts: vec![], scanned, plan }
}

/// Builds a deterministic scenario: chain generated up-front, a prefix scanned.
fn make_scenario(seed: u64, idx: u64, file_backed: bool) -> Scenario {
    let mut cx = make_chain(seed, idx, file_backed);
    let mut w = WalletUnderTest::new(&cx.sim, WalletConfig { file_backed, retention: cx.cfg.retention });
    let tip = cx.sim.tip_height();
    w.update_chain_tip(tip).expect("tip");
    for (from, limit) in cx.plan.clone() {
        w.scan(&cx.sim, from, limit as usize).expect("prefix scan");
    }
    cx.accounts = w.accounts.clone();
    let inj = Injector::install(w.db.conn()).expect("install injector");
    Scenario { cx, w, inj }
}

type ChildDb = zcash_client_sqlite::WalletDb<rusqlite::Connection, zcash_protocol::local_consensus::LocalNetwork, zcash_client_sqlite::util::testing::FixedClock, rand_chacha::ChaChaRng>;

/// Body of `apply`, shared by the two concrete database handle types.
macro_rules! apply_body {
    ($db:expr, $cx:expr, $op:expr) => {{
        let db = $db;
        let cx: &Ctx = $cx;
        match $op {
        OpKind::Scan { from, limit } => {
            let src = vh_wallet::sim::MemBlockSource::new(&cx.sim.blocks);
            let from_state = cx.sim.state_at(from - 1);
            zcash_client_backend::data_api::chain::scan_cached_blocks(
                &cx.sim.net, &src, db, BlockHeight::from_u32(*from), &from_state, *limit as usize,
            )
            .map(|s| format!("{:?}", s.scanned_range()))
            .map_err(|e| format!("{e:?}"))
        }
        OpKind::Tip(h) => db.update_chain_tip(BlockHeight::from_u32(*h)).map(|_| String::new()).map_err(|e| format!("{e:?}")),
        OpKind::Truncate(h) => db.truncate_to_height(BlockHeight::from_u32(*h)).map(|h| format!("{h:?}")).map_err(|e| format!("{e:?}")),
        OpKind::TruncateToChainState(h) => db.truncate_to_chain_state(cx.sim.state_at(*h)).map(|_| String::new()).map_err(|e| format!("{e:?}")),
        OpKind::RewindToChainState(h) => db
            .rewind_to_chain_state(cx.sim.state_at(*h), HashSet::new())
            .map(|_| String::new())
            .map_err(|e| format!("{e:?}")),
        OpKind::CreateAccount(i) => {
            let seed = Secret::new(vec![0x40 + *i; 32]);
            let birthday = AccountBirthday::from_parts(cx.sim.base.clone(), None);
            db.create_account(&format!("new{i}"), &seed, &birthday, Some("c02")).map(|_| String::new()).map_err(|e| format!("{e:?}"))
        }
        OpKind::ImportUfvk(i) => {
            let usk = UnifiedSpendingKey::from_seed(&cx.sim.net, &[0x60 + *i; 32], zip32::AccountId::ZERO).unwrap();
            let ufvk = usk.to_unified_full_viewing_key();
            let birthday = AccountBirthday::from_parts(cx.sim.state_at(cx.sim.base_height() + 3), None);
            db.import_account_ufvk(&format!("imp{i}"), &ufvk, &birthday, AccountPurpose::ViewOnly, None).map(|_| String::new()).map_err(|e| format!("{e:?}"))
        }
        OpKind::DeleteAccount(i) => {
            let id = cx.accounts[*i];
            db.delete_account(id).map(|_| String::new()).map_err(|e| format!("{e:?}"))
        }
        OpKind::LockOutputs { n, owner, foreign_third } => {
            let refs = wallet_output_refs(cx);
            if refs.len() < *n + 1 {
                return Err("not enough notes".into());
            }
            let expiry = BlockHeight::from_u32(cx.sim.tip_height() + 50);
            let _ = foreign_third; // the foreign lock on the 3rd output is part of the state (see `setup`)
            db.lock_outputs(&refs[..*n], LockOwner::new([*owner; 32]), expiry).map(|k| format!("{k}")).map_err(|e| format!("{e:?}"))
        }
        OpKind::UnlockOutput { owner } => {
            let refs = wallet_output_refs(cx);
            let Some(first) = refs.first() else { return Err("no notes".into()) };
            db.unlock_output(first, LockOwner::new([*owner; 32])).map(|b| format!("{b}")).map_err(|e| format!("{e:?}"))
        }
        OpKind::ClearLocks(i) => {
            let id = cx.accounts[*i];
            db.clear_locked_outputs(id).map(|k| format!("{k}")).map_err(|e| format!("{e:?}"))
        }
        OpKind::SetTxStatus { mined } => {
            // a transaction the wallet knows (first wallet tx of the scanned prefix)
            let txid = cx.scanned.values().flat_map(|uid| cx.sim.all_blocks[uid].txs.iter()).find(|t| !t.received.is_empty()).map(|t| t.txid);
            let Some(txid) = txid else { return Err("no wallet tx".into()) };
            let st = if *mined { TransactionStatus::Mined(BlockHeight::from_u32(cx.prefix)) } else { TransactionStatus::NotInMainChain };
            db.set_transaction_status(TxId::from_bytes(txid), st).map(|_| String::new()).map_err(|e| format!("{e:?}"))
        }
        OpKind::PutUtxo { value } => {
            let acct = cx.accounts[0];
            let recv = db.get_transparent_receivers(acct, false, false).map_err(|e| format!("{e:?}"))?;
            let Some((addr, _)) = recv.iter().min_by_key(|(a, _)| format!("{a:?}")) else { return Err("no transparent receiver".into()) };
            let txout = TxOut::new(Zatoshis::from_u64(*value).unwrap(), addr.script().into());
            let op = OutPoint::new([0x77; 32], 1);
            let Some(out) = WalletTransparentOutput::from_parts(op, txout, Some(BlockHeight::from_u32(cx.prefix)), None, None, None) else {
                return Err("unrecognised script".into());
            };
            db.put_received_transparent_utxo(&out).map(|_| String::new()).map_err(|e| format!("{e:?}"))
        }
        OpKind::ReserveEphemeral(n) => {
            let acct = cx.accounts[0];
            db.reserve_next_n_ephemeral_addresses(acct, *n).map(|v| format!("{}", v.len())).map_err(|e| format!("{e:?}"))
        }
        OpKind::NextAddress(i) => {
            let acct = cx.accounts[*i];
            db.get_next_available_address(acct, UnifiedAddressRequest::AllAvailableKeys).map(|_| String::new()).map_err(|e| format!("{e:?}"))
        }
        OpKind::SubtreeRoots => {
            // A (fake but well-formed) completed-subtree root for index 0 at a height inside the
            // scanned prefix; the wallet stores it as shard-root annotation.
            let h = BlockHeight::from_u32(cx.sim.base_height() + 2);
            let root = sapling::Node::from_bytes(cx.sim.root_at(Pool::Sapling, cx.prefix)).unwrap();
            db.put_sapling_subtree_roots(0, &[CommitmentTreeRoot::from_parts(h, root)]).map(|_| String::new()).map_err(|e| format!("{e:?}"))
        }
        OpKind::PruneQueue => db
            .prune_scan_queue_below(BlockHeight::from_u32(cx.prefix - 3), None)
            .map(|n| format!("{n}"))
            .map_err(|e| format!("{e:?}")),
        OpKind::StoreSentBatch(n) => {
            // what create_proposed_transactions hands over for a multi-step proposal: ONE call
            // with several transactions (bundle-less v5 shells that differ in their expiry; an
            // external recipient is recorded for each)
            let txs = shell_txs(*n, cx.prefix);
            let acct = cx.accounts[0];
            let addr: zcash_address::ZcashAddress = zcash_keys::address::Address::from(
                cx.sim.foreign.dfvk.default_address().1,
            )
            .to_zcash_address(&cx.sim.net);
            let outs: Vec<zcash_client_backend::data_api::SentTransactionOutput<AccountUuid>> = vec![
                zcash_client_backend::data_api::SentTransactionOutput::from_parts(
                    0,
                    zcash_client_backend::wallet::Recipient::External { recipient_address: addr, output_pool: PoolType::Shielded(ShieldedPool::Sapling) },
                    Zatoshis::from_u64(12345).unwrap(),
                    None,
                ),
            ];
            let sent: Vec<zcash_client_backend::data_api::SentTransaction<'_, AccountUuid>> = txs
                .iter()
                .map(|tx| {
                    zcash_client_backend::data_api::SentTransaction::new(
                        tx,
                        time::OffsetDateTime::UNIX_EPOCH,
                        zcash_client_backend::data_api::wallet::TargetHeight::from(BlockHeight::from_u32(cx.prefix + 1)),
                        acct,
                        &outs,
                        Zatoshis::from_u64(10_000).unwrap(),
                        &[],
                    )
                })
                .collect();
            db.store_transactions_to_be_sent(&sent).map(|_| String::new()).map_err(|e| format!("{e:?}"))
        }
        OpKind::MigPersist(_) => Err("migration store operations run on the parent's connection only".to_string()),
        OpKind::StoreDecryptedTx { mined } => {
            let txs = shell_txs(1, cx.prefix + 7);
            let d = zcash_client_backend::data_api::DecryptedTransaction::<_, AccountUuid>::new(
                mined.then_some(BlockHeight::from_u32(cx.prefix)),
                &txs[0],
                vec![],
                vec![],
                vec![],
            );
            db.store_decrypted_tx(d).map(|_| String::new()).map_err(|e| format!("{e:?}"))
        }
        }
    }};
}

/// `n` distinct bundle-less v5 transactions (they differ in expiry height, hence in txid).
fn shell_txs(n: u32, salt: u32) -> Vec<zcash_primitives::transaction::Transaction> {
    use zcash_primitives::transaction::{TransactionData, TxVersion};
    (1..=n)
        .map(|i| {
            TransactionData::from_parts(
                TxVersion::V5,
                zcash_protocol::consensus::BranchId::Nu5,
                0,
                BlockHeight::from_u32(salt + 1000 + i),
                None,
                None,
                None,
                None,
            )
            .freeze()
            .unwrap()
        })
        .collect()
}

const MIG_OWNER: [u8; 32] = [0x5A; 32];

/// A live migration with one crossing carried by one PROVED (never broadcast) transfer whose
/// inputs are reserved under `MIG_OWNER`, as the prover leaves it.
fn live_migration() -> zcash_pool_migration::engine::MigrationState {
    use zcash_pool_migration::{
        denomination::DenominationPlan,
        engine::{MigrationLockOwner, MigrationState, MigrationStatus, MigrationTransaction, MigrationTransferId, MigrationTxKind, MigrationTxState},
        preparation::PreparationPlan,
        satisfiability::ReplanThreshold,
        scheduling::AnchorBucketInterval,
    };
    let value = Zatoshis::from_u64(40_000).unwrap();
    MigrationState::from_parts(
        MigrationStatus::InProgress,
        DenominationPlan::from_stored_parts(vec![value], Zatoshis::ZERO, None, Zatoshis::ZERO, value, value).expect("stored plan"),
        PreparationPlan::from_parts(Vec::new(), Vec::new()),
        vec![MigrationTransaction::from_parts(
            MigrationTransferId::new(0),
            MigrationTxKind::Transfer { crossing: 0 },
            vec![0xAB; 4],
            Vec::new(),
            BlockHeight::from_u32(10),
            BlockHeight::from_u32(0),
            None,
            TxId::from_bytes([7; 32]),
            MigrationTxState::Proved,
            Some(MigrationLockOwner::from_bytes(MIG_OWNER)),
            None,
            vec![[9; 32]],
            None,
        )],
        AnchorBucketInterval::ZIP_318,
        ReplanThreshold::DEFAULT,
    )
}

fn apply_migration(sc: &mut Scenario, change: MigChange) -> Result<String, String> {
    use zcash_client_sqlite::pool_migration::orchard_ironwood::PoolMigrations;
    use zcash_pool_migration::engine::{MigrationTransferId, PoolMigrationWrite};
    let net = sc.cx.sim.net;
    // the Fresh persist targets the second account (no migration stored for it)
    let account = if change == MigChange::Fresh { sc.cx.accounts[1] } else { sc.cx.accounts[0] };
    let mut st = live_migration();
    match change {
        MigChange::Superseded => st.mark_superseded(),
        MigChange::Cancelled => st.mark_cancelled(),
        MigChange::Broadcast => st.mark_broadcast(MigrationTransferId::new(0)),
        MigChange::Fresh => {}
    }
    let mut store = PoolMigrations::for_account(net, zcash_client_sqlite::util::SystemClock, sc.w.db.conn_mut(), account).map_err(|e| format!("{e:?}"))?;
    store.replace_migration(&st).map(|_| String::new()).map_err(|e| format!("{e:?}"))
}

/// Applies `op`; Ok(debug string of the result) or Err(error string).
fn apply(sc: &mut Scenario, op: &OpKind) -> Result<String, String> {
    if let OpKind::MigPersist(c) = op {
        return apply_migration(sc, *c);
    }
    apply_body!(&mut sc.w.db, &sc.cx, op)
}

fn apply_child(db: &mut ChildDb, cx: &Ctx, op: &OpKind) -> Result<String, String> {
    apply_body!(db, cx, op)
}

/// State preparation that belongs to S, not to the operation under test.
fn setup(sc: &mut Scenario, op: &OpKind) {
    let refs = wallet_output_refs(&sc.cx);
    let expiry = BlockHeight::from_u32(sc.cx.sim.tip_height() + 50);
    match op {
        // the 3rd output is already locked by another owner: the whole batch must fail and leave
        // the first two unlocked
        OpKind::LockOutputs { foreign_third: true, .. } if refs.len() > 3 => {
            let _ = sc.w.db.lock_outputs(&refs[2..3], LockOwner::new([0xEE; 32]), expiry);
        }
        OpKind::UnlockOutput { owner } if !refs.is_empty() => {
            let _ = sc.w.db.lock_outputs(&refs[..refs.len().min(3)], LockOwner::new([*owner; 32]), expiry);
        }
        OpKind::ClearLocks(_) if !refs.is_empty() => {
            let _ = sc.w.db.lock_outputs(&refs[..refs.len().min(6)], LockOwner::new([9; 32]), expiry);
        }
        OpKind::MigPersist(c) if *c != MigChange::Fresh => {
            use zcash_client_sqlite::pool_migration::orchard_ironwood::PoolMigrations;
            use zcash_pool_migration::engine::PoolMigrationWrite;
            // notes reserved under the migration's owner token + the live migration persisted
            if !refs.is_empty() {
                let _ = sc.w.db.lock_outputs(&refs[..refs.len().min(2)], LockOwner::new(MIG_OWNER), BlockHeight::from_u32(u32::MAX));
            }
            let net = sc.cx.sim.net;
            let account = sc.cx.accounts[0];
            if let Ok(mut store) = PoolMigrations::for_account(net, zcash_client_sqlite::util::SystemClock, sc.w.db.conn_mut(), account) {
                let _ = store.replace_migration(&live_migration());
            }
        }
        _ => {}
    }
}

fn candidate_ops(sc: &Ctx, rng: &mut ChaCha20Rng) -> Vec<OpKind> {
    let tip = sc.sim.tip_height();
    let p = sc.prefix;
    let mut ops = vec![
        OpKind::Scan { from: p + 1, limit: rng.gen_range(1..=5) },
        OpKind::Scan { from: p + 3, limit: rng.gen_range(1..=3) }, // out of order: leaves a gap
        OpKind::Scan { from: p.saturating_sub(2).max(sc.sim.base_height() + 1), limit: 4 }, // overlaps scanned
        OpKind::Tip(tip + rng.gen_range(0..30)),
        OpKind::Truncate(p - rng.gen_range(1..5)),
        OpKind::TruncateToChainState(p - rng.gen_range(1..5)),
        OpKind::RewindToChainState(p - rng.gen_range(1..5)),
        OpKind::CreateAccount(rng.gen_range(0..8)),
        OpKind::ImportUfvk(rng.gen_range(0..8)),
        OpKind::DeleteAccount(rng.gen_range(0..2)),
        OpKind::LockOutputs { n: rng.gen_range(1..5), owner: 1, foreign_third: false },
        OpKind::LockOutputs { n: 4, owner: 2, foreign_third: true },
        OpKind::UnlockOutput { owner: 5 },
        OpKind::ClearLocks(rng.gen_range(0..2)),
        OpKind::SetTxStatus { mined: false },
        OpKind::SetTxStatus { mined: true },
        OpKind::PutUtxo { value: rng.gen_range(1..1_000_000) },
        OpKind::ReserveEphemeral(rng.gen_range(1..4)),
        OpKind::NextAddress(rng.gen_range(0..2)),
        OpKind::SubtreeRoots,
        OpKind::PruneQueue,
        OpKind::StoreSentBatch(rng.gen_range(2..5)),
        OpKind::StoreDecryptedTx { mined: rng.gen_bool(0.5) },
        OpKind::MigPersist(MigChange::Superseded),
        OpKind::MigPersist(MigChange::Cancelled),
        OpKind::MigPersist(MigChange::Broadcast),
        OpKind::MigPersist(MigChange::Fresh),
    ];
    ops.shuffle(rng);
    ops
}

fn choose(total: i64, cap: usize, rng: &mut ChaCha20Rng) -> Vec<i64> {
    if total as usize <= cap {
        return (1..=total).collect();
    }
    let third = (cap / 3).max(1) as i64;
    let mut s: BTreeSet<i64> = (1..=third).collect();
    s.extend(total - third + 1..=total);
    while s.len() < cap {
        s.insert(rng.gen_range(1..=total));
    }
    s.into_iter().collect()
}

struct Explorer<'a> {
    r: &'a mut Reporter,
    cap_sites: usize,
    cap_steps: usize,
}

impl Explorer<'_> {
    fn viol(&mut self, sig: String, detail: String, sc: &Scenario, op: &OpKind, extra: serde_json::Value) {
        if std::env::var("VH_DEBUG").is_ok() {
            eprintln!("VIOLATION {sig}: {detail}");
        }
        self.r.violation(&sig, detail, json!({"cfg": sc.cx.cfg.to_json(), "prefix": sc.cx.prefix, "op": format!("{op:?}"), "at": extra}));
    }

    /// Fault / interrupt enumeration on an in-memory database.
    fn explore(&mut self, sc: &mut Scenario, op: &OpKind, rng: &mut ChaCha20Rng) {
        let name = op.name();
        let mut pre = rusqlite::Connection::open_in_memory().unwrap();
        copy_db(sc.w.db.conn(), &mut pre).expect("snapshot");
        setup(sc, op);
        let mut snap = rusqlite::Connection::open_in_memory().unwrap();
        copy_db(sc.w.db.conn(), &mut snap).expect("snapshot");
        self.explore_inner(sc, op, rng, &snap);
        copy_db(&pre, sc.w.db.conn_mut()).expect("restore pre-setup state");
    }

    fn explore_inner(&mut self, sc: &mut Scenario, op: &OpKind, rng: &mut ChaCha20Rng, snap: &rusqlite::Connection) {
        let name = op.name();
        let dump_s = dump::dump(sc.w.db.conn(), false).expect("dump");
        // ---- dry run
        sc.inj.record();
        let res = guard(|| apply(sc, op));
        let (w_sites, v_steps, commits) = (sc.inj.write_calls(), sc.inj.steps(), sc.inj.commits());
        let sites = sc.inj.sites();
        sc.inj.reset();
        let restore = |sc: &mut Scenario| {
            let c = sc.w.db.conn_mut();
            if !c.is_autocommit() {
                eprintln!("connection left inside a transaction after {name}");
                let _ = c.execute_batch("ROLLBACK");
            }
            if let Err(e) = copy_db(snap, c) {
                // a cached statement that was not reset keeps a read transaction open
                c.flush_prepared_statement_cache();
                copy_db(snap, c).unwrap_or_else(|e2| panic!("restore after {name}: {e} / {e2}"));
            }
        };
        match res {
            Err(p) => {
                self.viol(format!("C02:{name}:panic-without-fault:{}", panic_class(&p)), p, sc, op, json!(null));
                restore(sc);
                return;
            }
            Ok(Err(e)) => {
                // not applicable in this state; it must then have left the state alone
                let d = dump::dump(sc.w.db.conn(), false).expect("dump");
                self.r.count("ops_refused_without_fault", 1);
                if d != dump_s {
                    self.viol(format!("C02:{name}:state-changed-by-refused-operation"), format!("{e}\n{}", dump::diff(&dump_s, &d)), sc, op, json!(null));
                }
                restore(sc);
                return;
            }
            Ok(Ok(_)) => {}
        }
        let dump_1 = dump::dump(sc.w.db.conn(), false).expect("dump");
        let dump_1n = dump::dump(sc.w.db.conn(), true).expect("dump");
        let changed = dump::tables_changed(&dump_s, &dump_1);
        self.r.count(&format!("op_{name}"), 1);
        if commits > 1 {
            self.viol(format!("C02:{name}:more-than-one-commit"), format!("{commits} commits in one operation"), sc, op, json!(null));
        }
        if w_sites == 0 {
            self.r.count("ops_without_write_sites", 1);
            restore(sc);
            return;
        }
        let site_tables: BTreeSet<String> = sites.iter().map(|s| s.split(':').next().unwrap().to_string()).collect();
        self.r.case(&(name, &site_tables, (w_sites as f64).log2() as u32), changed.len() >= 2);
        self.r.set_max(&format!("max_write_sites_{name}"), w_sites as u64);
        self.r.set_max(&format!("max_vm_steps_{name}"), v_steps as u64);
        self.r.sample(name, json!({"op": format!("{op:?}"), "write_sites": w_sites, "vm_steps": v_steps, "commits": commits, "tables_changed": changed, "first_sites": sites.iter().take(12).collect::<Vec<_>>()}));
        restore(sc);

        // ---- write-site faults and VM-step interrupts
        for (mode, total, cap) in [("write-site", w_sites, self.cap_sites), ("vm-step", v_steps, self.cap_steps)] {
            for k in choose(total, cap, rng) {
                if !self.r.time_left() {
                    restore(sc);
                    return;
                }
                if mode == "write-site" { sc.inj.arm_write(k) } else { sc.inj.arm_step(k) }
                let res = guard(|| apply(sc, op));
                let fired = sc.inj.fired();
                let commits = sc.inj.commits();
                let site = if mode == "write-site" { sites.get(k as usize - 1).cloned().unwrap_or_default() } else { String::new() };
                sc.inj.reset();
                let d = dump::dump(sc.w.db.conn(), false).expect("dump");
                let at = json!({"mode": mode, "k": k, "of": total, "site": site});
                if !fired {
                    self.r.count("fault_position_not_reached_on_rerun", 1);
                    restore(sc);
                    continue;
                }
                self.r.count(if mode == "write-site" { "write_site_faults_injected" } else { "vm_step_faults_injected" }, 1);
                match res {
                    Err(p) => {
                        self.viol(format!("C02:{name}:panic-on-injected-{mode}-fault:{}", panic_class(&p)), p, sc, op, at.clone());
                    }
                    Ok(Err(e)) => {
                        if d != dump_s {
                            self.viol(format!("C02:{name}:partial-state-after-{mode}-fault"), format!("error {e}; site {site}\n{}", dump::diff(&dump_s, &d)), sc, op, at.clone());
                        }
                        if commits > 0 {
                            self.viol(format!("C02:{name}:commit-despite-{mode}-fault"), format!("{commits} commits; error {e}; site {site}"), sc, op, at.clone());
                        }
                        // retry must succeed and reach op(S)
                        let res2 = guard(|| apply(sc, op));
                        match res2 {
                            Ok(Ok(_)) => {
                                let d2 = dump::dump(sc.w.db.conn(), true).expect("dump");
                                self.r.count("retries_checked", 1);
                                if d2 != dump_1n && d == dump_s {
                                    self.viol(format!("C02:{name}:retry-after-{mode}-fault-reaches-different-state"), dump::diff(&dump_1n, &d2), sc, op, at.clone());
                                }
                            }
                            other => {
                                if d == dump_s {
                                    self.viol(format!("C02:{name}:retry-after-{mode}-fault-fails"), format!("{other:?}").chars().take(400).collect(), sc, op, at.clone());
                                }
                            }
                        }
                    }
                    Ok(Ok(_)) => {
                        // the injected failure did not surface as an error
                        if d == dump_1 || d == dump_s || dump::dump(sc.w.db.conn(), true).expect("dump") == dump_1n {
                            self.r.count("faults_absorbed_with_consistent_state", 1);
                        } else {
                            self.viol(format!("C02:{name}:{mode}-fault-swallowed-leaving-partial-state"), format!("site {site}\nvs S: {}\nvs op(S): {}", dump::diff(&dump_s, &d), dump::diff(&dump_1, &d)), sc, op, at.clone());
                        }
                    }
                }
                restore(sc);
            }
        }
        let _ = FAULT_MSG;
    }
}

// ------------------------------------------------------------------------------------------
// File-backed modes: real crashes in a child process, snapshot probes from a second connection,
// writer commits interleaved with transactional reads.

/// Child process: rebuild the chain from the seed, open the database file, run `op`, and die
/// (abort) at the requested point. Exit code 0 = the operation finished without reaching it.
fn child_main(args: &Args) -> ! {
    use std::sync::atomic::Ordering;
    let seed: u64 = args.get_u64("child-seed", 0);
    let idx: u64 = args.get_u64("child-idx", 0);
    let path = args.extra.get("child-db").expect("child-db").clone();
    let op = OpKind::decode(args.extra.get("child-op").expect("child-op"));
    let crash_step = args.get_u64("crash-step", 0) as i64;
    let crash_commit = args.get_u64("crash-commit", 0) as i64;
    let crash_after = args.get_u64("crash-after-op", 0) != 0;
    let mut cx = make_chain(seed, idx, true);
    let conn = rusqlite::Connection::open(&path).expect("open db");
    rusqlite::vtab::array::load_module(&conn).expect("rarray");
    let ids: Vec<AccountUuid> = {
        let mut st = conn.prepare("SELECT uuid FROM accounts ORDER BY id").unwrap();
        st.query_map([], |r| r.get::<_, uuid::Uuid>(0)).unwrap().map(|u| AccountUuid::from_uuid(u.unwrap())).collect()
    };
    cx.accounts = ids;
    let inj = Injector::install(&conn).expect("injector");
    let clock = zcash_client_sqlite::util::testing::FixedClock::new(std::time::SystemTime::UNIX_EPOCH + std::time::Duration::from_secs(1740441600));
    let rng = <rand_chacha::ChaChaRng as rand::SeedableRng>::from_seed([7u8; 32]);
    let mut db: ChildDb = zcash_client_sqlite::WalletDb::from_connection(conn, cx.sim.net, clock, rng);
    if let Some(n) = cx.cfg.retention {
        db = db.with_anchor_retention_interval(zcash_client_backend::data_api::anchor_retention::AnchorRetentionInterval::custom(std::num::NonZeroU32::new(n).unwrap()));
    }
    inj.reset();
    if crash_step > 0 {
        inj.0.crash_at_step.store(true, Ordering::SeqCst);
        inj.0.arm_step.store(crash_step, Ordering::SeqCst);
    }
    if crash_commit > 0 {
        inj.0.crash_at_commit.store(crash_commit, Ordering::SeqCst);
    }
    let res = apply_child(&mut db, &cx, &op);
    // report what the dry run needs (steps, commits) on stdout
    println!("CHILD steps={} commits={} ok={}", inj.steps(), inj.commits(), res.is_ok());
    if crash_after {
        std::process::abort();
    }
    // leave without closing the connection cleanly? No: a clean exit for the dry run.
    drop(db);
    std::process::exit(if res.is_ok() { 0 } else { 3 });
}

fn copy_file_db(src: &std::path::Path, dst: &std::path::Path) {
    for ext in ["", "-wal", "-shm", "-journal"] {
        let d = std::path::PathBuf::from(format!("{}{ext}", dst.display()));
        let _ = std::fs::remove_file(&d);
        let s = std::path::PathBuf::from(format!("{}{ext}", src.display()));
        if ext.is_empty() || (ext == "-wal" && s.exists()) {
            std::fs::copy(&s, &d).expect("copy db file");
        }
    }
}

fn remove_file_db(p: &std::path::Path) {
    for ext in ["", "-wal", "-shm", "-journal"] {
        let _ = std::fs::remove_file(format!("{}{ext}", p.display()));
    }
}

/// Dump of a database file with freshly drawn identifiers normalised (two runs of the same
/// operation in different processes draw different account UUIDs).
fn dump_file(path: &std::path::Path) -> Result<Dump, String> {
    let c = rusqlite::Connection::open(path).map_err(|e| e.to_string())?;
    dump::dump(&c, true).map_err(|e| e.to_string())
}

struct ChildOutcome {
    aborted: bool,
    exit_ok: bool,
    steps: i64,
    commits: i64,
}

fn run_child(args: &Args, idx: u64, db: &std::path::Path, op: &OpKind, extra: &[(&str, String)]) -> Option<ChildOutcome> {
    use std::os::unix::process::ExitStatusExt;
    let exe = std::env::current_exe().ok()?;
    let mut cmd = std::process::Command::new(exe);
    cmd.arg("--child").arg("1")
        .arg("--child-seed").arg(args.shard_seed().to_string())
        .arg("--child-idx").arg(idx.to_string())
        .arg("--child-db").arg(db)
        .arg("--child-op").arg(op.encode())
        .arg("--out").arg("/dev/null");
    for (k, v) in extra {
        cmd.arg(format!("--{k}")).arg(v);
    }
    cmd.stderr(std::process::Stdio::null());
    let out = cmd.output().ok()?;
    let text = String::from_utf8_lossy(&out.stdout);
    let mut steps = 0;
    let mut commits = 0;
    if let Some(l) = text.lines().find(|l| l.starts_with("CHILD ")) {
        for kv in l.split_whitespace().skip(1) {
            if let Some((k, v)) = kv.split_once('=') {
                match k {
                    "steps" => steps = v.parse().unwrap_or(0),
                    "commits" => commits = v.parse().unwrap_or(0),
                    _ => {}
                }
            }
        }
    }
    Some(ChildOutcome { aborted: out.status.signal() == Some(6), exit_ok: out.status.code() == Some(0), steps, commits })
}

impl Explorer<'_> {
    /// Real crashes: the operation runs in a child process on a copy of the database file and
    /// the process aborts at VM step k / inside the commit hook / right after the operation
    /// returned. After recovery (reopen) the dump must be S or op(S).
    fn explore_crashes(&mut self, args: &Args, idx: u64, sc: &mut Scenario, op: &OpKind, rng: &mut ChaCha20Rng, n_points: usize, wal: bool) {
        let name = op.name();
        let Some(master) = sc.w.db.conn().path().map(std::path::PathBuf::from) else { return };
        // make the master file self-contained and in the wanted journal mode
        let mode: String = sc.w.db.conn().query_row(&format!("PRAGMA journal_mode={}", if wal { "WAL" } else { "DELETE" }), [], |r| r.get(0)).unwrap_or_default();
        if wal {
            let _ = sc.w.db.conn().execute_batch("PRAGMA wal_checkpoint(TRUNCATE)");
        }
        let dump_s = dump::dump(sc.w.db.conn(), true).expect("dump");
        let dir = master.parent().unwrap().to_path_buf();
        let scratch = dir.join(format!("c02-crash-{}-{}-{}.sqlite", std::process::id(), idx, rng.r#gen::<u32>()));
        // dry run in a child
        copy_file_db(&master, &scratch);
        let Some(dry) = run_child(args, idx, &scratch, op, &[]) else { self.r.inconclusive("child-spawn-failed"); return };
        if !dry.exit_ok || dry.steps == 0 {
            self.r.count("crash_ops_not_applicable", 1);
            remove_file_db(&scratch);
            return;
        }
        let Ok(dump_1) = dump_file(&scratch) else { self.r.inconclusive("dump-after-child-failed"); remove_file_db(&scratch); return };
        if dump_1 == dump_s {
            remove_file_db(&scratch);
            return;
        }
        self.r.count(&format!("crash_op_{name}"), 1);
        let mut points: Vec<(&str, String)> = vec![("crash-commit", "1".into()), ("crash-after-op", "1".into())];
        for k in choose(dry.steps, n_points, rng) {
            points.push(("crash-step", k.to_string()));
        }
        for (kind, val) in points {
            if !self.r.time_left() {
                break;
            }
            copy_file_db(&master, &scratch);
            let Some(o) = run_child(args, idx, &scratch, op, &[(kind, val.clone())]) else { self.r.inconclusive("child-spawn-failed"); continue };
            if !o.aborted {
                self.r.count("crash_point_not_reached", 1);
                continue;
            }
            self.r.count("crash_points_executed", 1);
            self.r.count(&format!("crash_points_{}_{}", kind.replace('-', "_"), if wal { "wal" } else { "rollback_journal" }), 1);
            self.r.case(&("crash", name, kind, wal, mode.clone()), true);
            match dump_file(&scratch) {
                Err(e) => self.viol(format!("C02:{name}:database-unreadable-after-crash"), e, sc, op, json!({"crash": kind, "at": val, "wal": wal})),
                Ok(d) => {
                    let is_s = d == dump_s;
                    let is_1 = d == dump_1;
                    if is_s { self.r.count("crash_recovered_to_before", 1) }
                    if is_1 { self.r.count("crash_recovered_to_after", 1) }
                    if !is_s && !is_1 {
                        self.viol(format!("C02:{name}:partial-state-after-crash:{kind}"), format!("journal_mode={mode}; vs S: {}
vs op(S): {}", dump::diff(&dump_s, &d), dump::diff(&dump_1, &d)), sc, op, json!({"crash": kind, "at": val, "wal": wal}));
                    }
                    if kind == "crash-after-op" && !is_1 {
                        self.viol(format!("C02:{name}:completed-operation-lost-after-crash"), format!("journal_mode={mode}"), sc, op, json!({"crash": kind, "wal": wal}));
                    }
                    if kind == "crash-commit" && !is_s && is_1 {
                        // the commit hook runs before the commit is durable; seeing op(S) would mean an earlier commit
                        self.viol(format!("C02:{name}:state-visible-before-its-commit"), format!("journal_mode={mode}"), sc, op, json!({"crash": kind, "wal": wal}));
                    }
                }
            }
        }
        remove_file_db(&scratch);
    }

    /// Snapshot probes: while `op` runs on the wallet's connection, a second connection takes a
    /// complete dump inside ONE read transaction every `every` VM steps of the writer.
    fn explore_snapshots(&mut self, sc: &mut Scenario, op: &OpKind, every: i64) {
        let name = op.name();
        let Some(path) = sc.w.db.conn().path().map(std::path::PathBuf::from) else { return };
        let dump_s = dump::dump(sc.w.db.conn(), false).expect("dump");
        let reader = rusqlite::Connection::open(&path).expect("second connection");
        let _ = reader.busy_timeout(std::time::Duration::from_millis(0));
        let seen: Arc<Mutex<Vec<Result<Dump, String>>>> = Arc::new(Mutex::new(vec![]));
        let seen2 = seen.clone();
        sc.inj.reset();
        sc.inj.set_probe(every, Box::new(move |_n| {
            let r = (|| -> Result<Dump, String> {
                reader.execute_batch("BEGIN").map_err(|e| e.to_string())?;
                let d = dump::dump(&reader, false).map_err(|e| e.to_string());
                let _ = reader.execute_batch("COMMIT");
                d
            })();
            seen2.lock().unwrap().push(r);
        }));
        let res = guard(|| apply(sc, op));
        sc.inj.clear_probe();
        sc.inj.reset();
        let dump_1 = dump::dump(sc.w.db.conn(), false).expect("dump");
        if !matches!(res, Ok(Ok(_))) {
            self.r.count("snapshot_ops_not_applicable", 1);
            return;
        }
        self.r.count(&format!("snapshot_op_{name}"), 1);
        let probes = std::mem::take(&mut *seen.lock().unwrap());
        let (mut before, mut after) = (0u64, 0u64);
        for p in probes {
            match p {
                Err(_) => self.r.count("snapshot_probes_busy", 1),
                Ok(d) => {
                    self.r.count("snapshot_probes", 1);
                    if d == dump_s { before += 1 } else if d == dump_1 { after += 1 } else {
                        self.viol(format!("C02:{name}:half-applied-state-visible-to-second-connection"), format!("vs S: {}
vs op(S): {}", dump::diff(&dump_s, &d), dump::diff(&dump_1, &d)), sc, op, json!({"every": every}));
                    }
                }
            }
        }
        self.r.count("snapshot_probes_saw_before", before);
        self.r.count("snapshot_probes_saw_after", after);
        self.r.case(&("snapshot", name, before > 0, after > 0), true);
    }

    /// Writer commit interleaved with a transactional multi-statement read: `get_wallet_summary`
    /// runs on the wallet's connection; at its k-th VM step a complete write operation runs (and
    /// commits) on a second wallet handle. The read must equal read(S) or read(op(S)).
    fn explore_reader_writer(&mut self, args: &Args, idx: u64, sc: &mut Scenario, op: &OpKind, rng: &mut ChaCha20Rng, n_points: usize, wal: bool) {
        let name = op.name();
        let Some(master) = sc.w.db.conn().path().map(std::path::PathBuf::from) else { return };
        let _: String = sc.w.db.conn().query_row(&format!("PRAGMA journal_mode={}", if wal { "WAL" } else { "DELETE" }), [], |r| r.get(0)).unwrap_or_default();
        let read = |sc: &Scenario| -> String {
            format!("{:?}", sc.w.db.get_wallet_summary(ConfirmationsPolicy::MIN).map(|s| s.map(|s| {
                // balances without the (freshly drawn) account identifiers
                let mut v: Vec<String> = s.account_balances().values().map(|b| format!("{b:?}")).collect();
                v.sort();
                (v, s.chain_tip_height(), s.fully_scanned_height())
            })))
        };
        // read(S), steps of the read
        sc.inj.reset();
        let read_s = read(sc);
        let v_read = sc.inj.steps();
        // read(op(S)) from a scratch copy, via a child-free path: apply on a copy through a second handle
        let dir = master.parent().unwrap().to_path_buf();
        let scratch = dir.join(format!("c02-rw-{}-{}-{}.sqlite", std::process::id(), idx, rng.r#gen::<u32>()));
        if wal { let _ = sc.w.db.conn().execute_batch("PRAGMA wal_checkpoint(TRUNCATE)"); }
        let open_writer = |p: &std::path::Path, cx: &Ctx| -> ChildDb {
            let conn = rusqlite::Connection::open(p).expect("open");
            rusqlite::vtab::array::load_module(&conn).expect("rarray");
            let _ = conn.busy_timeout(std::time::Duration::from_millis(0));
            let clock = zcash_client_sqlite::util::testing::FixedClock::new(std::time::SystemTime::UNIX_EPOCH + std::time::Duration::from_secs(1740441600));
            let rng = <rand_chacha::ChaChaRng as rand::SeedableRng>::from_seed([7u8; 32]);
            let mut db: ChildDb = zcash_client_sqlite::WalletDb::from_connection(conn, cx.sim.net, clock, rng);
            if let Some(n) = cx.cfg.retention {
                db = db.with_anchor_retention_interval(zcash_client_backend::data_api::anchor_retention::AnchorRetentionInterval::custom(std::num::NonZeroU32::new(n).unwrap()));
            }
            db
        };
        copy_file_db(&master, &scratch);
        let read_1 = {
            let mut wdb = open_writer(&scratch, &sc.cx);
            if apply_child(&mut wdb, &sc.cx, op).is_err() {
                self.r.count("reader_writer_ops_not_applicable", 1);
                drop(wdb);
                remove_file_db(&scratch);
                return;
            }
            format!("{:?}", wdb.get_wallet_summary(ConfirmationsPolicy::MIN).map(|s| s.map(|s| {
                let mut v: Vec<String> = s.account_balances().values().map(|b| format!("{b:?}")).collect();
                v.sort();
                (v, s.chain_tip_height(), s.fully_scanned_height())
            })))
        };
        remove_file_db(&scratch);
        if read_1 == read_s {
            self.r.count("reader_writer_ops_invisible_to_read", 1);
        }
        self.r.count(&format!("reader_writer_op_{name}"), 1);
        // Each point needs a pristine master: keep a copy to restore from.
        let pristine = dir.join(format!("c02-rw-master-{}-{}.sqlite", std::process::id(), idx));
        copy_file_db(&master, &pristine);
        for k in choose(v_read.max(1), n_points, rng) {
            if !self.r.time_left() {
                break;
            }
            // the writer is a second handle on the SAME file
            let cx_ptr: *const Ctx = &sc.cx;
            let op2 = op.clone();
            let master2 = master.clone();
            let outcome: Arc<Mutex<Option<Result<String, String>>>> = Arc::new(Mutex::new(None));
            let outcome2 = outcome.clone();
            let open_writer2 = open_writer;
            sc.inj.reset();
            // SAFETY: the probe runs synchronously inside `read(sc)` below, on this thread, while
            // `sc.cx` is alive and not mutated.
            let cx_addr = cx_ptr as usize;
            let mut done = false;
            sc.inj.set_probe(1, Box::new(move |n| {
                if n == k && !done {
                    done = true;
                    let cx: &Ctx = unsafe { &*(cx_addr as *const Ctx) };
                    let mut wdb = open_writer2(&master2, cx);
                    let r = apply_child(&mut wdb, cx, &op2);
                    *outcome2.lock().unwrap() = Some(r);
                }
            }));
            let got = read(sc);
            sc.inj.clear_probe();
            sc.inj.reset();
            let wrote = outcome.lock().unwrap().take();
            match wrote {
                None => self.r.count("reader_writer_point_not_reached", 1),
                Some(Err(e)) => {
                    // typically SQLITE_BUSY in rollback-journal mode while the reader holds its snapshot
                    self.r.count(if e.contains("Busy") || e.contains("locked") { "reader_writer_writer_busy" } else { "reader_writer_writer_failed" }, 1);
                    if got != read_s {
                        self.viol(format!("C02:{name}:read-changed-although-writer-failed"), format!("writer error {e}"), sc, op, json!({"k": k, "wal": wal}));
                    }
                }
                Some(Ok(_)) => {
                    self.r.count("reader_writer_interleavings", 1);
                    self.r.case(&("reader-writer", name, wal, got == read_s), true);
                    if got == read_s { self.r.count("reader_saw_before", 1) } else if got == read_1 { self.r.count("reader_saw_after", 1) } else {
                        self.viol(format!("C02:{name}:transactional-read-saw-mixed-state"), format!("writer committed at reader step {k}/{v_read}
read   = {got}
read(S)= {read_s}
read(op(S)) = {read_1}").chars().take(1800).collect(), sc, op, json!({"k": k, "wal": wal}));
                    }
                }
            }
            // restore the master file for the next point (the wallet connection stays open: in
            // rollback mode it re-reads the file; use the backup API through a scratch connection)
            let src = rusqlite::Connection::open(&pristine).expect("open pristine");
            if copy_db(&src, sc.w.db.conn_mut()).is_err() {
                sc.w.db.conn_mut().flush_prepared_statement_cache();
                let _ = copy_db(&src, sc.w.db.conn_mut());
            }
        }
        remove_file_db(&pristine);
        let _ = args;
    }

    /// The same interleaving with a MIGRATION ORACLE as the reader: `check_step_satisfiability` for a
    /// broadcast transfer whose installed Orchard anchor is the tree root at a checkpoint P above its
    /// recorded boundary B. Before a truncation to T (B <= T < P) the anchor is still live
    /// (`Satisfiable`, as of the scanned tip); after it the anchor is gone (`AnchorInvalidated`, as of
    /// T). A read that mixes the two snapshots answers `AnchorInvalidated` as of the OLD tip: a mark
    /// stamped above the truncation that the truncation can never clear.
    fn explore_oracle_reader(&mut self, idx: u64, sc: &mut Scenario, rng: &mut ChaCha20Rng, n_points: usize) {
        use zcash_client_sqlite::pool_migration::orchard_ironwood::PoolMigrations;
        use zcash_pool_migration::engine::{MigrationTransaction, MigrationTransferId, MigrationTxKind, MigrationTxState, PoolMigrationRead};
        use zcash_pool_migration::satisfiability::ReorgSettleDepth;
        let Some(master) = sc.w.db.conn().path().map(std::path::PathBuf::from) else { return };
        let (lo, p_max) = (sc.cx.sim.base_height() + 1, sc.cx.prefix);
        // heights B < P inside the scanned prefix with different Orchard roots, P the highest such
        let root = |h: u32| sc.cx.sim.root_at(Pool::Orchard, h);
        let Some(pp) = (lo + 2..=p_max).rev().find(|h| root(*h) != root(*h - 1)) else {
            self.r.count("oracle_reader_no_orchard_growth", 1);
            return;
        };
        let Some(b) = (lo..pp.saturating_sub(1)).rev().take(12).filter(|h| root(*h) != root(pp)).last() else {
            self.r.count("oracle_reader_no_orchard_growth", 1);
            return;
        };
        let t = rng.gen_range(b + 1..pp);
        let net = sc.cx.sim.net;
        let branch = u32::from(zcash_protocol::consensus::BranchId::for_height(&net, BlockHeight::from_u32(pp)));
        let Ok(creator) = pczt::roles::creator::Creator::new(branch, pp + 40, 133, None, Some(root(pp))) else { return };
        let Ok(built) = creator.build() else { return };
        let Ok(pczt_bytes) = built.serialize() else { return };
        let mut txid = [0u8; 32];
        rand::RngCore::fill_bytes(rng, &mut txid);
        let txid = zcash_protocol::TxId::from_bytes(txid);
        let mut nf = [0u8; 32];
        rand::RngCore::fill_bytes(rng, &mut nf);
        let mtx = MigrationTransaction::from_parts(
            MigrationTransferId::new(0), MigrationTxKind::Transfer { crossing: 0 }, pczt_bytes, vec![],
            BlockHeight::from_u32(b), BlockHeight::from_u32(0), Some(BlockHeight::from_u32(b)), txid,
            MigrationTxState::Broadcast { txid }, None, None, vec![nf], None,
        );
        let settle = ReorgSettleDepth::new(1);
        let account = sc.w.accounts[0];
        let _: String = sc.w.db.conn().query_row("PRAGMA journal_mode=WAL", [], |r| r.get(0)).unwrap_or_default();
        let read_conn = |c: &rusqlite::Connection| -> String {
            match PoolMigrations::for_account(net, zcash_client_sqlite::util::SystemClock, c, account) {
                Ok(pm) => format!("{:?}", pm.check_step_satisfiability(&mtx, settle)),
                Err(e) => format!("for_account: {e:?}"),
            }
        };
        // only the oracle call itself is measured and interleaved (constructing the facade reads
        // the account row outside the oracle's snapshot)
        let read_measured = |sc: &Scenario, arm: &dyn Fn()| -> String {
            match PoolMigrations::for_account(net, zcash_client_sqlite::util::SystemClock, sc.w.db.conn(), account) {
                Ok(pm) => {
                    arm();
                    format!("{:?}", pm.check_step_satisfiability(&mtx, settle))
                }
                Err(e) => format!("for_account: {e:?}"),
            }
        };
        let read_s = read_measured(sc, &|| sc.inj.reset());
        let v_read = sc.inj.steps();
        let op = OpKind::Truncate(t);
        let dir = master.parent().unwrap().to_path_buf();
        let scratch = dir.join(format!("c02-or-{}-{}-{}.sqlite", std::process::id(), idx, rng.r#gen::<u32>()));
        let _ = sc.w.db.conn().execute_batch("PRAGMA wal_checkpoint(TRUNCATE)");
        let open_writer = |p: &std::path::Path, cx: &Ctx| -> ChildDb {
            let conn = rusqlite::Connection::open(p).expect("open");
            rusqlite::vtab::array::load_module(&conn).expect("rarray");
            let _ = conn.busy_timeout(std::time::Duration::from_millis(0));
            let clock = zcash_client_sqlite::util::testing::FixedClock::new(std::time::SystemTime::UNIX_EPOCH + std::time::Duration::from_secs(1740441600));
            let rng = <rand_chacha::ChaChaRng as rand::SeedableRng>::from_seed([7u8; 32]);
            let mut db: ChildDb = zcash_client_sqlite::WalletDb::from_connection(conn, cx.sim.net, clock, rng);
            if let Some(n) = cx.cfg.retention {
                db = db.with_anchor_retention_interval(zcash_client_backend::data_api::anchor_retention::AnchorRetentionInterval::custom(std::num::NonZeroU32::new(n).unwrap()));
            }
            db
        };
        copy_file_db(&master, &scratch);
        let read_1 = {
            let mut wdb = open_writer(&scratch, &sc.cx);
            let applied = apply_child(&mut wdb, &sc.cx, &op);
            drop(wdb);
            if applied.is_err() {
                self.r.count("oracle_reader_truncation_not_applicable", 1);
                remove_file_db(&scratch);
                return;
            }
            let c = rusqlite::Connection::open(&scratch).expect("open scratch");
            rusqlite::vtab::array::load_module(&c).expect("rarray");
            read_conn(&c)
        };
        remove_file_db(&scratch);
        self.r.count("oracle_reader_scenarios", 1);
        if read_1 != read_s {
            self.r.count("oracle_reader_scenarios_where_truncation_changes_the_answer", 1);
        }
        if read_s.contains("Satisfiable") && !read_s.contains("Unsatisfiable") && read_1.contains("AnchorInvalidated") {
            self.r.count("oracle_reader_scenarios_live_anchor_invalidated_by_truncation", 1);
        }
        let pristine = dir.join(format!("c02-or-master-{}-{}.sqlite", std::process::id(), idx));
        copy_file_db(&master, &pristine);
        // every step of the (short) read when it is affordable, else a sample
        let points: Vec<i64> = if (v_read as usize) <= n_points { (1..=v_read.max(1)).collect() } else { choose(v_read.max(1), n_points, rng) };
        for k in points {
            if !self.r.time_left() {
                break;
            }
            let cx_addr = (&sc.cx as *const Ctx) as usize;
            let op2 = op.clone();
            let master2 = master.clone();
            let outcome: Arc<Mutex<Option<Result<String, String>>>> = Arc::new(Mutex::new(None));
            let outcome2 = outcome.clone();
            let mut done = false;
            // SAFETY: the probe runs synchronously inside the read below, on this thread, while
            // `sc.cx` is alive and not mutated.
            let probe: Box<dyn FnMut(i64) + Send> = Box::new(move |n| {
                if n == k && !done {
                    done = true;
                    let cx: &Ctx = unsafe { &*(cx_addr as *const Ctx) };
                    let mut wdb = open_writer(&master2, cx);
                    let r = apply_child(&mut wdb, cx, &op2);
                    *outcome2.lock().unwrap() = Some(r);
                }
            });
            let probe_cell = std::cell::RefCell::new(Some(probe));
            let got = read_measured(sc, &|| {
                sc.inj.reset();
                sc.inj.set_probe(1, probe_cell.borrow_mut().take().unwrap());
            });
            sc.inj.clear_probe();
            sc.inj.reset();
            match outcome.lock().unwrap().take() {
                None => self.r.count("oracle_reader_point_not_reached", 1),
                Some(Err(e)) => {
                    self.r.count(if e.contains("Busy") || e.contains("locked") { "oracle_reader_writer_busy" } else { "oracle_reader_writer_failed" }, 1);
                    if got != read_s {
                        self.viol("C02:truncate_to_height:migration-oracle-read-changed-although-writer-failed".into(), format!("writer error {e}; read = {got}; read(S) = {read_s}"), sc, &op, json!({"k": k, "b": b, "p": pp, "t": t}));
                    }
                }
                Some(Ok(_)) => {
                    self.r.count("oracle_reader_interleavings", 1);
                    self.r.case(&("oracle-reader", got == read_s, got == read_1), true);
                    if std::env::var("VH_DEBUG").is_ok() {
                        eprintln!("oracle k={k}/{v_read} got={got} | S={read_s} | 1={read_1}");
                    }
                    if got == read_s { self.r.count("oracle_reader_saw_before", 1) } else if got == read_1 { self.r.count("oracle_reader_saw_after", 1) } else {
                        self.viol("C02:truncate_to_height:migration-oracle-read-saw-mixed-state".into(), format!("check_step_satisfiability (boundary {b}, anchor = Orchard root at {pp}) with a truncation to {t} committed at reader step {k}/{v_read}
read        = {got}
read(S)     = {read_s}
read(op(S)) = {read_1}").chars().take(1500).collect(), sc, &op, json!({"k": k, "b": b, "p": pp, "t": t}));
                    }
                }
            }
            let src = rusqlite::Connection::open(&pristine).expect("open pristine");
            if let Err(e1) = copy_db(&src, sc.w.db.conn_mut()) {
                sc.w.db.conn_mut().flush_prepared_statement_cache();
                if let Err(e2) = copy_db(&src, sc.w.db.conn_mut()) {
                    self.r.inconclusive("oracle-reader-master-not-restorable");
                    if std::env::var("VH_DEBUG").is_ok() {
                        eprintln!("restore failed: {e1:?} / {e2:?}");
                    }
                    break;
                }
            }
            if std::env::var("VH_DEBUG").is_ok() {
                eprintln!("after restore: {}", read_conn(sc.w.db.conn()));
            }
        }
        remove_file_db(&pristine);
    }
}

fn main() {
    vh_common::install_panic_hook();
    let args = Args::parse();
    if args.get_u64("child", 0) != 0 {
        child_main(&args);
    }
    let mut r = Reporter::new("C02", &args);
    let thorough = args.tier == Tier::Thorough;
    let n_scen = args.pick(3u64, 40u64);
    let only_op = args.extra.get("only-op").cloned();
    for si in 0..n_scen {
        if !r.time_left() || r.frac_left() < 0.42 {
            break;
        }
        let seed = args.shard_seed();
        let mut rng = vh_common::rng(seed, 7000 + si);
        let mut sc = make_scenario(seed, si, false);
        r.count("scenarios", 1);
        let ops = candidate_ops(&sc.cx, &mut rng);
        let mut ex = Explorer { r: &mut r, cap_sites: if thorough { 400 } else { 45 }, cap_steps: if thorough { 300 } else { 30 } };
        for op in ops {
            if !ex.r.time_left() || ex.r.frac_left() < 0.42 {
                break;
            }
            if let Some(o) = &only_op {
                if op.name() != o {
                    continue;
                }
            }
            ex.explore(&mut sc, &op, &mut rng);
        }
    }
    // ---- file-backed scenarios: crashes, snapshot probes, reader/writer interleavings
    let n_file = args.pick(1u64, 12u64);
    for fi in 0..n_file {
        if !r.time_left() {
            break;
        }
        let idx = 500 + fi;
        let seed = args.shard_seed();
        let mut rng = vh_common::rng(seed, 9000 + fi);
        let mut sc = make_scenario(seed, idx, true);
        r.count("file_backed_scenarios", 1);
        let ops = candidate_ops(&sc.cx, &mut rng);
        let wal = (args.shard + fi) % 2 == 0;
        let mut ex = Explorer { r: &mut r, cap_sites: 0, cap_steps: 0 };
        let (n_crash, n_rw, n_ops) = if thorough { (10, 12, 8) } else { (3, 4, 3) };
        // Reader/writer interleavings with writers that certainly change what the summary reads
        // (scan / truncate): WAL mode, where a writer can commit in the middle of a read.
        {
            let p = sc.cx.prefix;
            let focus = [OpKind::Scan { from: p + 1, limit: 3 }, OpKind::Truncate(p - 2), OpKind::TruncateToChainState(p - 3)];
            let n_focus = if thorough { 40 } else { 9 };
            for op in focus.iter().filter(|o| only_op.as_deref().map_or(true, |n| o.name() == n)) {
                if !ex.r.time_left() {
                    break;
                }
                ex.explore_reader_writer(&args, idx, &mut sc, op, &mut rng, n_focus, true);
            }
        }
        if only_op.is_none() && sc.cx.cfg.pools.contains(&Pool::Orchard) {
            ex.explore_oracle_reader(idx, &mut sc, &mut rng, if thorough { 400 } else { 60 });
        }
        for op in ops.iter().filter(|o| only_op.as_deref().map_or(true, |n| o.name() == n)).take(n_ops) {
            if !ex.r.time_left() {
                break;
            }
            ex.explore_crashes(&args, idx, &mut sc, op, &mut rng, n_crash, wal);
            ex.explore_reader_writer(&args, idx, &mut sc, op, &mut rng, n_rw, wal);
            // snapshot probes change the master (the operation really runs), so do them last and
            // rebuild the scenario afterwards
            let v = 60;
            ex.explore_snapshots(&mut sc, op, v);
            sc = make_scenario(seed, idx, true);
        }
    }
    let _: Option<BTreeMap<u8, u8>> = None;
    r.finish();
}
