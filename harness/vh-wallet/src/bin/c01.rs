//! C01 — wallet balance is exactly the ledger of its unspent notes, in any scan order.
//!
//! After EVERY operation of a generated history the wallet's `total + uneconomic` per
//! account × pool is compared with the reference ledger (crate::ledger); at the end, once every
//! block is scanned, the wallet is compared with a fresh wallet that scanned the same chain once
//! in height order.

use std::collections::BTreeMap;

use vh_common::{guard, json, panic_class, Args, Reporter, Value};
use vh_wallet::hist::{Hist, HistCfg, Monitor, Op};
use vh_wallet::ledger;
use vh_wallet::sim::{Pool, POOLS};
use vh_wallet::wallet::{WalletConfig, WalletUnderTest};
use zcash_client_backend::data_api::AccountBalance;

fn pool_total(b: &AccountBalance, p: Pool) -> u64 {
    let bal = match p {
        Pool::Sapling => b.sapling_balance(),
        Pool::Orchard => b.orchard_balance(),
        Pool::Ironwood => b.ironwood_balance(),
    };
    u64::from(bal.total()) + u64::from(bal.uneconomic_value())
}

/// Projection of the mined notes of a wallet: what must be identical to a fresh wallet.
pub fn note_projection(w: &WalletUnderTest) -> Result<Vec<Vec<String>>, String> {
    let conn = w.db.conn();
    let mut out = vec![];
    for (prefix, idx_col) in [
        ("sapling", "output_index"),
        ("orchard", "action_index"),
        ("ironwood", "action_index"),
    ] {
        let sql = format!(
            "SELECT hex(t.txid), rn.{idx_col}, rn.account_id, rn.value, rn.recipient_key_scope,
                    hex(rn.nf), rn.commitment_tree_position, t.mined_height,
                    EXISTS(SELECT 1 FROM {prefix}_received_note_spends s
                           JOIN transactions st ON st.id_tx = s.transaction_id
                           WHERE s.{prefix}_received_note_id = rn.id AND st.mined_height IS NOT NULL)
             FROM {prefix}_received_notes rn JOIN transactions t ON t.id_tx = rn.transaction_id
             WHERE t.mined_height IS NOT NULL"
        );
        let mut stmt = conn.prepare(&sql).map_err(|e| format!("{e}"))?;
        let rows = stmt
            .query_map([], |row| {
                let mut v = vec![prefix.to_string()];
                for i in 0..9 {
                    let x: rusqlite::types::Value = row.get(i)?;
                    v.push(format!("{x:?}"));
                }
                Ok(v)
            })
            .map_err(|e| format!("{e}"))?;
        for r in rows {
            out.push(r.map_err(|e| format!("{e}"))?);
        }
    }
    out.sort();
    Ok(out)
}

/// Diagnostic only (VH_DEBUG=1): per-note comparison of the wallet's rows with the ledger.
fn debug_dump(h: &Hist) {
    let conn = h.w.db.conn();
    for (prefix, idx_col, pool) in [
        ("sapling", "output_index", Pool::Sapling),
        ("orchard", "action_index", Pool::Orchard),
        ("ironwood", "action_index", Pool::Ironwood),
    ] {
        let sql = format!(
            "SELECT hex(t.txid), rn.{idx_col}, rn.account_id, rn.value, t.mined_height, t.min_observed_height, hex(rn.nf), rn.commitment_tree_position,
                    (SELECT group_concat(hex(st.txid) || '@' || ifnull(st.mined_height,'NULL') || '/' || st.min_observed_height) FROM {prefix}_received_note_spends s
                           JOIN transactions st ON st.id_tx = s.transaction_id
                           WHERE s.{prefix}_received_note_id = rn.id)
             FROM {prefix}_received_notes rn JOIN transactions t ON t.id_tx = rn.transaction_id"
        );
        let mut stmt = conn.prepare(&sql).unwrap();
        let rows = stmt
            .query_map([], |row| {
                let txid: String = row.get(0)?;
                let idx: u32 = row.get(1)?;
                let acct: i64 = row.get(2)?;
                let value: i64 = row.get(3)?;
                let mined: Option<u32> = row.get(4)?;
                let minobs: u32 = row.get(5)?;
                let nf: Option<String> = row.get(6)?;
                let pos: Option<i64> = row.get(7)?;
                let spends: Option<String> = row.get(8)?;
                Ok((txid, idx, acct, value, mined, minobs, nf, pos, spends))
            })
            .unwrap();
        for row in rows {
            let (txid, idx, acct, value, mined, minobs, nf, pos, spends) = row.unwrap();
            let mut t = [0u8; 32];
            hex::decode_to_slice(&txid, &mut t).unwrap();
            let key = vh_wallet::sim::NoteKey { txid: t, pool, out_idx: idx };
            // ledger status
            let mut mined_inst = None;
            for (hh, uid) in &h.w.scanned {
                for tx in &h.sim.all_blocks[uid].txs {
                    for n in &tx.received {
                        if n.key == key {
                            mined_inst = Some((*hh, n.position, hex::encode(n.nf).to_uppercase()));
                        }
                    }
                }
            }
            let mut spenders = vec![];
            for uid in &h.w.ever_scanned {
                let b = &h.sim.all_blocks[uid];
                for tx in &b.txs {
                    if tx.spends.contains(&key) {
                        let cur = h.w.scanned.get(&b.height) == Some(uid);
                        spenders.push(format!("{}@{}{}", &hex::encode(tx.txid).to_uppercase()[..8], b.height, if cur { "" } else { "(orphan)" }));
                    }
                }
            }
            let wallet_spent = spends.is_some();
            let ledger_spent = !spenders.is_empty();
            let flag = if wallet_spent != ledger_spent || mined.is_some() != mined_inst.is_some() { "  <<<<<" } else { "" };
            if !flag.is_empty() || std::env::var("VH_DEBUG_ALL").is_ok() {
                eprintln!(
                    "{prefix} {}:{idx} acct={acct} value={value} wallet(mined={mined:?} minobs={minobs} pos={pos:?} nf={} spends={spends:?}) ledger(mined={mined_inst:?} spenders={spenders:?}){flag}",
                    &txid[..8], nf.as_deref().map(|s| &s[..8]).unwrap_or("NULL")
                );
            }
        }
    }
}

struct C01 {
    checks: u64,
    exact_checks: u64,
    band_checks: u64,
    model_divergence: u64,
    no_summary: u64,
    nonzero_expected: u64,
    nullifier_map_max: i64,
    pruning_observed: bool,
    violated: bool,
    coin_checks: u64,
}

impl C01 {
    fn new() -> Self {
        C01 {
            checks: 0,
            exact_checks: 0,
            band_checks: 0,
            model_divergence: 0,
            no_summary: 0,
            nonzero_expected: 0,
            nullifier_map_max: 0,
            pruning_observed: false,
            violated: false,
            coin_checks: 0,
        }
    }

    fn viol(&mut self, h: &Hist, r: &mut Reporter, sig: &str, detail: String) {
        if std::env::var("VH_DEBUG").is_ok() && !self.violated {
            eprintln!("VIOLATION {sig}: {detail}");
            debug_dump(h);
        }
        self.violated = true;
        r.violation(sig, detail, h.ops_json());
    }
}

impl Monitor for C01 {
    fn after_op(&mut self, h: &mut Hist, r: &mut Reporter) {
        // a scan of valid, correctly chained blocks must not fail (unless explained by F1)
        if let Some(Op::Scan { ok: false, err, from, limit }) = h.last_op().cloned() {
            if !h.f1.any_tainted() {
                self.viol(
                    h,
                    r,
                    "C01:scan-error-on-valid-blocks",
                    format!("scan({from},{limit}) failed: {err:?}"),
                );
            }
        }
        let nm: i64 = h
            .w
            .db
            .conn()
            .query_row("SELECT COUNT(*) FROM nullifier_map", [], |row| row.get(0))
            .unwrap_or(0);
        if nm < self.nullifier_map_max {
            self.pruning_observed = true;
        }
        self.nullifier_map_max = self.nullifier_map_max.max(nm);

        let summary = match guard(|| h.w.summary()) {
            Err(p) => {
                let sig = format!("C01:get_wallet_summary:panic:{}", panic_class(&p));
                self.viol(h, r, &sig, p);
                return;
            }
            Ok(Err(e)) => {
                self.viol(h, r, "C01:get_wallet_summary:error", e);
                return;
            }
            Ok(Ok(None)) => {
                self.no_summary += 1;
                return;
            }
            Ok(Ok(Some(s))) => s,
        };
        let tip = u32::from(summary.chain_tip_height());
        let view = ledger::expected(&h.sim, &h.w, tip + 1);
        for (i, acct) in h.w.accounts.clone().iter().enumerate() {
            let Some(bal) = summary.account_balances().get(acct) else {
                self.viol(h, r, "C01:account-missing-from-summary", format!("account {i}"));
                continue;
            };
            // ---- transparent coins: counted while mined; a coin un-mined by a rewind may keep
            // counting until it expires (height + 40 < target), like any orphaned transaction
            if h.cfg.coins {
                let ub = bal.unshielded_balance();
                let got = u64::from(ub.total()) + u64::from(ub.uneconomic_value());
                let mined: u64 = h.coins.iter().filter(|c| c.account == i && c.mined).map(|c| c.value).sum();
                let orphan_unexpired: u64 = h.coins.iter().filter(|c| c.account == i && !c.mined && c.height + ledger::DEFAULT_TX_EXPIRY_DELTA >= tip + 1).map(|c| c.value).sum();
                self.coin_checks += 1;
                if got < mined || got > mined + orphan_unexpired {
                    self.viol(h, r, "C01:transparent-balance-mismatch",
                        format!("account {i}: wallet unshielded total+uneconomic = {got}, mined coins = {mined}, unexpired un-mined coins = {orphan_unexpired} (tip {tip}) after {:?}", h.last_op()));
                }
            }
            for p in POOLS {
                let got = pool_total(bal, p);
                let e = &view.per[&(i, p)];
                self.checks += 1;
                if e.exact > 0 {
                    self.nonzero_expected += 1;
                }
                if view.unexpired_orphans == 0 {
                    self.exact_checks += 1;
                    if got != e.exact {
                        self.viol(
                            h,
                            r,
                            &format!("C01:balance-mismatch:{}", p.name()),
                            format!(
                                "account {i} {}: wallet total+uneconomic = {got}, ledger = {} (tip {tip}, {} mined notes, {} spent) after {:?}",
                                p.name(), e.exact, view.mined_notes, view.spent_notes, h.last_op()
                            ),
                        );
                    }
                } else {
                    self.band_checks += 1;
                    if got < e.lo || got > e.hi {
                        self.viol(
                            h,
                            r,
                            &format!("C01:balance-outside-orphan-band:{}", p.name()),
                            format!(
                                "account {i} {}: wallet = {got}, allowed [{}, {}] (exact model {}), {} unexpired orphans, tip {tip}, after {:?}",
                                p.name(), e.lo, e.hi, e.exact, view.unexpired_orphans, h.last_op()
                            ),
                        );
                    } else if got != e.exact {
                        self.model_divergence += 1;
                    }
                }
            }
        }
    }

    fn at_end(&mut self, h: &mut Hist, r: &mut Reporter) {
        r.count("transparent_coin_balance_checks", self.coin_checks);
        r.count("transparent_coins_given", h.coins.len() as u64);
        r.count("transparent_coins_unmined_by_rewind", h.coins.iter().filter(|c| !c.mined).count() as u64);
        let full = h.aborted.is_none() && h.w.fully_scanned_upto(&h.sim);
        r.count("histories", 1);
        r.count("balance_checks", self.checks);
        r.count("balance_checks_exact", self.exact_checks);
        r.count("balance_checks_orphan_band", self.band_checks);
        r.count("model_divergence_inside_band", self.model_divergence);
        r.count("summary_none", self.no_summary);
        r.count("checks_with_nonzero_expected", self.nonzero_expected);
        r.count("spend_before_receipt_events", h.spend_before_receipt);
        r.count("frontier_extension_batches_gt100", h.floor_batches);
        r.count("duplicate_scans", h.dup_scans);
        r.count("rewinds", h.rewinds_done as u64);
        r.count("rewinds_exposing_F1", h.rewinds_f1 as u64);
        r.count("orphans_remined", h.remined);
        r.count("f1_scan_failures", h.f1_scan_failures);
        if self.pruning_observed {
            r.count("histories_with_nullifier_pruning", 1);
        }
        if let Some(a) = &h.aborted {
            r.count("histories_aborted", 1);
            r.note(format!("aborted: {}", a.chars().take(120).collect::<String>()));
        }
        let mut fresh_ok = false;
        if full {
            r.count("histories_fully_scanned", 1);
            // fresh wallet: same chain, once, in height order
            let mut fresh = WalletUnderTest::new(
                &h.sim,
                WalletConfig {
                    file_backed: false,
                    retention: h.cfg.retention,
                },
            );
            let (lo, hi) = (h.sim.base_height() + 1, h.sim.tip_height());
            let _ = fresh.update_chain_tip(hi);
            let mut from = lo;
            let mut ok = true;
            while from <= hi {
                match fresh.scan(&h.sim, from, 50) {
                    Ok(s) => from = u32::from(s.scanned_range().end),
                    Err(e) => {
                        ok = false;
                        self.viol(h, r, "C01:fresh-wallet-scan-failed", e);
                        break;
                    }
                }
            }
            if ok {
                fresh_ok = true;
                match (note_projection(&h.w), note_projection(&fresh)) {
                    (Ok(a), Ok(b)) => {
                        r.count("fresh_wallet_comparisons", 1);
                        r.count("fresh_wallet_notes_compared", b.len() as u64);
                        if a != b {
                            let only_a: Vec<_> = a.iter().filter(|x| !b.contains(x)).take(3).collect();
                            let only_b: Vec<_> = b.iter().filter(|x| !a.contains(x)).take(3).collect();
                            self.viol(
                                h,
                                r,
                                "C01:fresh-wallet-note-set-differs",
                                format!("only in history wallet: {only_a:?}; only in fresh wallet: {only_b:?}"),
                            );
                        }
                    }
                    (a, b) => {
                        r.inconclusive("projection-query-failed");
                        r.note(format!("{:?} {:?}", a.err(), b.err()));
                    }
                }
                // balances: comparable when the history wallet holds no unexpired orphans
                if let (Ok(Some(s1)), Ok(Some(s2))) = (h.w.summary(), fresh.summary()) {
                    let tip = u32::from(s1.chain_tip_height());
                    let view = ledger::expected(&h.sim, &h.w, tip + 1);
                    if view.unexpired_orphans == 0 {
                        let m1: BTreeMap<_, _> = h.w.accounts.iter().enumerate().collect();
                        for (i, a) in m1 {
                            let (b1, b2) = (
                                s1.account_balances().get(a),
                                s2.account_balances().get(&fresh.accounts[i]),
                            );
                            if let (Some(b1), Some(b2)) = (b1, b2) {
                                for p in POOLS {
                                    if pool_total(b1, p) != pool_total(b2, p) {
                                        self.viol(
                                            h,
                                            r,
                                            &format!("C01:fresh-wallet-balance-differs:{}", p.name()),
                                            format!("account {i}: {} vs fresh {}", pool_total(b1, p), pool_total(b2, p)),
                                        );
                                    }
                                }
                            }
                        }
                    }
                }
            }
        }
        // signature of the history (structure, not payload)
        let sig = (
            h.cfg.pools.clone(),
            h.cfg.n_accounts,
            h.cfg.out_of_order,
            h.spend_before_receipt.min(5),
            h.floor_batches.min(2),
            self.pruning_observed,
            h.rewinds_done,
            h.rewinds_f1,
            (self.band_checks > 0, h.remined > 0, full, fresh_ok),
            h.cfg.max_batch,
        );
        let received_and_spent = h.sim.spent.len() > 0 || h.rewinds_done > 0;
        let nontrivial = received_and_spent && (h.cfg.out_of_order || h.dup_scans > 0 || h.rewinds_done > 0);
        r.case(&sig, nontrivial);
        let class = format!(
            "pools={:?} ooo={} rewinds={} sbr={}",
            h.cfg.pools.iter().map(|p| p.name()).collect::<Vec<_>>(),
            h.cfg.out_of_order,
            h.rewinds_done,
            h.spend_before_receipt.min(1)
        );
        let ops: Vec<Value> = h.ops.iter().take(40).map(|o| o.to_json()).collect();
        r.sample(&class, json!({"id": {"shard": r.args().shard, "hist": h.id}, "cfg": h.cfg.to_json(), "first_ops": ops, "blocks": h.sim.tip_height() - h.sim.base_height()}));
    }
}

fn main() {
    vh_common::install_panic_hook();
    let args = Args::parse();
    let mut r = Reporter::new("C01", &args);
    let n = args.pick(8u64, 200u64);
    let thorough = args.tier == vh_common::Tier::Thorough;
    let only = args.extra.get("only-hist").map(|v| v.parse::<u64>().unwrap());
    for i in 0..n {
        if !r.time_left() {
            break;
        }
        if only.is_some() && only != Some(i) {
            continue;
        }
        let mut rng = vh_common::rng(args.shard_seed(), 100 + i);
        let mut cfg = HistCfg::random(&mut rng, thorough);
        cfg.coins = (i + args.shard) % 2 == 0;
        let mut mon = C01::new();
        let res = guard(|| {
            let mut h = Hist::new(cfg.clone(), rng);
            h.id = i;
            h.run(&mut [&mut mon], &mut r);
        });
        if let Err(p) = res {
            r.violation(
                &format!("C01:panic:{}", panic_class(&p)),
                p,
                json!({"cfg": cfg.to_json(), "history_index": i}),
            );
        }
    }
    r.finish();
}
