//! C05 — compact-block scanning finds exactly the wallet's notes and spends.
//!
//! Three observers per block, all compared with the sim's ground truth:
//!  (1) `scan_block` (inline trial decryption) result accessors,
//!  (2) `scan_cached_blocks` (batched runners, rayon pool of the size given by
//!      RAYON_NUM_THREADS) -> rows in the wallet database,
//!  (3) for corrupted / malformed blocks: `Err`, no panic, database dump unchanged.

use std::collections::{BTreeMap, BTreeSet};

use rand::seq::SliceRandom;
use rand::Rng;
use vh_common::{guard, json, panic_class, Args, Reporter};
use vh_wallet::dump;
use vh_wallet::hist::HistCfg;
use vh_wallet::sim::{ChainSim, MemBlockSource, NoteKey, OutPlan, Pool, SimBlock, TxPlan, POOLS};
use vh_wallet::wallet::{WalletConfig, WalletUnderTest};
use zcash_client_backend::{
    data_api::{chain::ChainState, ScannedBlock, WalletRead},
    proto::compact_formats::CompactBlock,
    scanning::{scan_block, Nullifiers, ScanningKeys},
};
use zcash_client_sqlite::AccountUuid;
use zcash_primitives::block::BlockHash;
use zcash_protocol::consensus::BlockHeight;
use zip32::Scope;

/// A denser transaction than the C01 generator makes: up to `max_out` outputs.
fn dense_plan(sim: &mut ChainSim, pools: &[Pool], max_out: usize, used: &[NoteKey]) -> TxPlan {
    let mut plan = sim.random_tx_plan(pools, 0.5, used);
    let extra = match sim.rng.gen_range(0..6) {
        0 => 0,
        1..=3 => sim.rng.gen_range(0..6),
        4 => sim.rng.gen_range(6..20),
        _ => sim.rng.gen_range(20..=max_out),
    };
    for _ in 0..extra {
        let pool = pools[sim.rng.gen_range(0..pools.len())];
        let value = sim.random_value();
        if sim.rng.gen_bool(0.35) {
            let account = sim.rng.gen_range(0..sim.accounts.len());
            let scope = if sim.rng.gen_bool(0.4) { Scope::Internal } else { Scope::External };
            plan.outs.push(OutPlan::Wallet { account, pool, scope, diversified: None, value });
        } else {
            plan.outs.push(OutPlan::Foreign { pool, value });
        }
    }
    plan.outs.shuffle(&mut sim.rng);
    plan
}

type Recv = (u32, usize, u64, bool, u64, Option<String>); // (index, account, value, internal?, position, nf)

struct Truth {
    /// per tx index: pool -> received set
    recv: BTreeMap<(u32, Pool), BTreeSet<Recv>>,
    /// per tx index: pool -> spent nfs (only wallet notes the wallet tracks)
    spends: BTreeMap<(u32, Pool), BTreeSet<String>>,
}

fn truth_of(b: &SimBlock, tracked: &BTreeSet<[u8; 32]>, sim: &ChainSim) -> Truth {
    let mut t = Truth { recv: BTreeMap::new(), spends: BTreeMap::new() };
    for tx in &b.txs {
        for n in &tx.received {
            t.recv.entry((tx.index, n.key.pool)).or_default().insert((
                n.key.out_idx,
                n.account,
                n.value,
                n.scope == Scope::Internal,
                n.position,
                Some(hex::encode(n.nf)),
            ));
        }
        for (k, nf) in tx.spends.iter().zip(&tx.built.spend_nfs) {
            // tracked = the wallet knows the note (scanned earlier) or it was received earlier in
            // this same block (the scanner adds freshly found notes to its set)
            let same_block_earlier = b.txs.iter().any(|t2| t2.index <= tx.index && t2.received.iter().any(|n| n.key == *k));
            let _ = sim;
            if tracked.contains(nf) || same_block_earlier {
                t.spends.entry((tx.index, k.pool)).or_default().insert(hex::encode(nf));
            }
        }
    }
    t
}

fn observed_of(sb: &ScannedBlock<AccountUuid>, accts: &[AccountUuid]) -> Truth {
    let ai = |a: &AccountUuid| accts.iter().position(|x| x == a).unwrap_or(usize::MAX);
    let mut t = Truth { recv: BTreeMap::new(), spends: BTreeMap::new() };
    for tx in sb.transactions() {
        let ix = u16::from(tx.block_index()) as u32;
        for o in tx.sapling_outputs() {
            t.recv.entry((ix, Pool::Sapling)).or_default().insert((
                o.index() as u32,
                ai(o.account_id()),
                o.note().value().inner(),
                o.recipient_key_scope() == Some(Scope::Internal),
                u64::from(o.note_commitment_tree_position()),
                o.nf().map(|n| hex::encode(n.0)),
            ));
        }
        for o in tx.orchard_outputs() {
            t.recv.entry((ix, Pool::Orchard)).or_default().insert((
                o.index() as u32,
                ai(o.account_id()),
                o.note().0.value().inner(),
                o.recipient_key_scope() == Some(Scope::Internal),
                u64::from(o.note_commitment_tree_position()),
                o.nf().map(|n| hex::encode(n.to_bytes())),
            ));
        }
        for o in tx.ironwood_outputs() {
            t.recv.entry((ix, Pool::Ironwood)).or_default().insert((
                o.index() as u32,
                ai(o.account_id()),
                o.note().0.value().inner(),
                o.recipient_key_scope() == Some(Scope::Internal),
                u64::from(o.note_commitment_tree_position()),
                o.nf().map(|n| hex::encode(n.to_bytes())),
            ));
        }
        for s in tx.sapling_spends() {
            t.spends.entry((ix, Pool::Sapling)).or_default().insert(hex::encode(s.nf().0));
        }
        for s in tx.orchard_spends() {
            t.spends.entry((ix, Pool::Orchard)).or_default().insert(hex::encode(s.nf().to_bytes()));
        }
        for s in tx.ironwood_spends() {
            t.spends.entry((ix, Pool::Ironwood)).or_default().insert(hex::encode(s.nf().to_bytes()));
        }
    }
    t
}

/// Rows the wallet stored for block `h` (after the batched scan), same shape as `Truth.recv`.
fn db_recv(w: &WalletUnderTest, h: u32) -> Result<BTreeMap<(u32, Pool), BTreeSet<Recv>>, String> {
    let conn = w.db.conn();
    let mut out: BTreeMap<(u32, Pool), BTreeSet<Recv>> = BTreeMap::new();
    for (prefix, idx_col, pool) in [
        ("sapling", "output_index", Pool::Sapling),
        ("orchard", "action_index", Pool::Orchard),
        ("ironwood", "action_index", Pool::Ironwood),
    ] {
        let sql = format!(
            "SELECT t.tx_index, rn.{idx_col}, rn.account_id, rn.value, rn.recipient_key_scope, rn.commitment_tree_position, hex(rn.nf)
             FROM {prefix}_received_notes rn JOIN transactions t ON t.id_tx = rn.transaction_id WHERE t.mined_height = ?1"
        );
        let mut st = conn.prepare(&sql).map_err(|e| e.to_string())?;
        let rows = st
            .query_map([h], |r| {
                Ok((
                    r.get::<_, u32>(0)?,
                    r.get::<_, u32>(1)?,
                    r.get::<_, i64>(2)?,
                    r.get::<_, i64>(3)?,
                    r.get::<_, Option<i64>>(4)?,
                    r.get::<_, Option<i64>>(5)?,
                    r.get::<_, Option<String>>(6)?,
                ))
            })
            .map_err(|e| e.to_string())?;
        for row in rows {
            let (txi, idx, acct, value, scope, pos, nf) = row.map_err(|e| e.to_string())?;
            out.entry((txi, pool)).or_default().insert((
                idx,
                (acct - 1) as usize, // accounts.id is 1-based in creation order
                value as u64,
                scope == Some(1),
                pos.unwrap_or(-1) as u64,
                nf.map(|s| s.to_lowercase()),
            ));
        }
    }
    Ok(out)
}

#[derive(Clone, Copy, Debug, PartialEq, Eq, Hash)]
enum Corruption {
    HeightPlus1,
    HeightMinus1,
    PrevHashFlip,
    SaplingSizePlus1,
    SaplingSizeMinus1,
    OrchardSizePlus1,
    IronwoodSizePlus1,
    SizeMax,
    MetaAbsent,
    MetaZero,
    CmuLen31,
    CmuLen33,
    CmuLen0,
    CmuNonCanonical,
    EpkLen31,
    CtLen51,
    CtLen53,
    SaplingNfLen31,
    OrchardNfLen31,
    OrchardNfNonCanonical,
    CmxLen31,
    CmxNonCanonical,
    ActionEpkLen33,
    ActionCtLen0,
    TxidLen31,
    TxidLen0,
    IndexTooLarge,
    HashLen31,
    PrevHashLen31,
    HeightTooLarge,
    HeaderGarbage,
    /// unparsable non-empty header TOGETHER with a hash field that is not 32 bytes
    HeaderGarbageHashEmpty,
    /// the same with the previous-hash field
    HeaderGarbagePrevHashShort,
}

const ALL_CORRUPTIONS: &[Corruption] = &[
    Corruption::HeightPlus1, Corruption::HeightMinus1, Corruption::PrevHashFlip, Corruption::SaplingSizePlus1,
    Corruption::SaplingSizeMinus1, Corruption::OrchardSizePlus1, Corruption::IronwoodSizePlus1, Corruption::SizeMax,
    Corruption::MetaAbsent, Corruption::MetaZero, Corruption::CmuLen31, Corruption::CmuLen33, Corruption::CmuLen0,
    Corruption::CmuNonCanonical, Corruption::EpkLen31, Corruption::CtLen51, Corruption::CtLen53, Corruption::SaplingNfLen31,
    Corruption::OrchardNfLen31, Corruption::OrchardNfNonCanonical, Corruption::CmxLen31, Corruption::CmxNonCanonical,
    Corruption::ActionEpkLen33, Corruption::ActionCtLen0, Corruption::TxidLen31, Corruption::TxidLen0,
    Corruption::IndexTooLarge, Corruption::HashLen31, Corruption::PrevHashLen31, Corruption::HeightTooLarge, Corruption::HeaderGarbage,
    Corruption::HeaderGarbageHashEmpty, Corruption::HeaderGarbagePrevHashShort,
];

#[derive(PartialEq, Eq, Debug)]
enum Expect {
    /// the statement demands an error
    MustReject,
    /// accepting is legal (absent metadata is computed from the prior state); only "no panic,
    /// not partially applied" is demanded
    MayAccept,
}

/// Applies the corruption; returns None if the block has no field of that kind.
fn corrupt(cb: &CompactBlock, c: Corruption, rng: &mut impl Rng) -> Option<(CompactBlock, Expect)> {
    use Corruption::*;
    let mut b = cb.clone();
    let mut e = Expect::MustReject;
    let has_out = |b: &CompactBlock| b.vtx.iter().position(|t| !t.outputs.is_empty());
    let has_sp = |b: &CompactBlock| b.vtx.iter().position(|t| !t.spends.is_empty());
    let has_act = |b: &CompactBlock| b.vtx.iter().position(|t| !t.actions.is_empty() || !t.ironwood_actions.is_empty());
    fn act(b: &mut CompactBlock, i: usize) -> &mut zcash_client_backend::proto::compact_formats::CompactOrchardAction {
        let t = &mut b.vtx[i];
        if !t.actions.is_empty() { &mut t.actions[0] } else { &mut t.ironwood_actions[0] }
    }
    match c {
        HeightPlus1 => b.height += 1,
        HeightMinus1 => b.height -= 1,
        PrevHashFlip => {
            let i = rng.gen_range(0..32);
            b.prev_hash[i] ^= 1 << rng.gen_range(0..8);
        }
        SaplingSizePlus1 => b.chain_metadata.as_mut()?.sapling_commitment_tree_size += 1,
        SaplingSizeMinus1 => {
            let m = b.chain_metadata.as_mut()?;
            if m.sapling_commitment_tree_size < 2 {
                return None;
            }
            m.sapling_commitment_tree_size -= 1
        }
        OrchardSizePlus1 => b.chain_metadata.as_mut()?.orchard_commitment_tree_size += 1,
        IronwoodSizePlus1 => b.chain_metadata.as_mut()?.ironwood_commitment_tree_size += 1,
        SizeMax => b.chain_metadata.as_mut()?.sapling_commitment_tree_size = u32::MAX,
        MetaAbsent => {
            b.chain_metadata = None;
            e = Expect::MayAccept;
        }
        MetaZero => {
            let m = b.chain_metadata.as_mut()?;
            m.sapling_commitment_tree_size = 0;
            m.orchard_commitment_tree_size = 0;
            m.ironwood_commitment_tree_size = 0;
            e = Expect::MayAccept;
        }
        CmuLen31 => { let i = has_out(&b)?; b.vtx[i].outputs[0].cmu.truncate(31) }
        CmuLen33 => { let i = has_out(&b)?; b.vtx[i].outputs[0].cmu.push(0) }
        CmuLen0 => { let i = has_out(&b)?; b.vtx[i].outputs[0].cmu.clear() }
        CmuNonCanonical => { let i = has_out(&b)?; b.vtx[i].outputs[0].cmu = vec![0xff; 32] }
        EpkLen31 => { let i = has_out(&b)?; b.vtx[i].outputs[0].ephemeral_key.truncate(31) }
        CtLen51 => { let i = has_out(&b)?; b.vtx[i].outputs[0].ciphertext.truncate(51) }
        CtLen53 => { let i = has_out(&b)?; b.vtx[i].outputs[0].ciphertext.push(7) }
        SaplingNfLen31 => { let i = has_sp(&b)?; b.vtx[i].spends[0].nf.truncate(31) }
        OrchardNfLen31 => { let i = has_act(&b)?; act(&mut b, i).nullifier.truncate(31) }
        OrchardNfNonCanonical => { let i = has_act(&b)?; act(&mut b, i).nullifier = vec![0xff; 32] }
        CmxLen31 => { let i = has_act(&b)?; act(&mut b, i).cmx.truncate(31) }
        CmxNonCanonical => { let i = has_act(&b)?; act(&mut b, i).cmx = vec![0xff; 32] }
        ActionEpkLen33 => { let i = has_act(&b)?; act(&mut b, i).ephemeral_key.push(1) }
        ActionCtLen0 => { let i = has_act(&b)?; act(&mut b, i).ciphertext.clear() }
        TxidLen31 => { if b.vtx.is_empty() { return None; } b.vtx[0].txid.truncate(31) }
        TxidLen0 => { if b.vtx.is_empty() { return None; } b.vtx[0].txid.clear() }
        IndexTooLarge => { if b.vtx.is_empty() { return None; } let n = b.vtx.len(); b.vtx[n - 1].index = 65_536 + rng.gen_range(0..1000) }
        HashLen31 => b.hash.truncate(31),
        PrevHashLen31 => b.prev_hash.truncate(31),
        HeightTooLarge => b.height = u32::MAX as u64 + 1 + rng.gen_range(0..1000),
        HeaderGarbage => {
            b.header = (0..rng.gen_range(1..200)).map(|_| rng.r#gen()).collect();
            // an unparsable header is documented to be ignored (hash/prev_hash fields are used)
            e = Expect::MayAccept;
        }
        HeaderGarbageHashEmpty => {
            // neither source of the block hash is usable: must be refused
            b.header = (0..*[1usize, 80, 140, 1486].choose(rng).unwrap()).map(|_| rng.r#gen()).collect();
            b.hash.clear();
        }
        HeaderGarbagePrevHashShort => {
            b.header = (0..*[1usize, 80, 140, 1486].choose(rng).unwrap()).map(|_| rng.r#gen()).collect();
            b.prev_hash.truncate(rng.gen_range(0..32));
        }
    }
    Some((b, e))
}

fn main() {
    vh_common::install_panic_hook();
    let args = Args::parse();
    let mut r = Reporter::new("C05", &args);
    let threads = std::env::var("RAYON_NUM_THREADS").unwrap_or_else(|_| "default".into());
    r.count(&format!("shards_with_rayon_threads_{threads}"), 1);
    let delays = args.get_u64("delays", 1) != 0;
    vh_wallet::hooks::install(if delays { args.shard_seed() | 1 } else { 0 });
    let mut schedules: BTreeSet<u64> = BTreeSet::new();
    let mut max_workers = 0usize;
    let n_hist = args.pick(6u64, 120u64);
    for hi in 0..n_hist {
        if !r.time_left() {
            break;
        }
        let mut rng = vh_common::rng(args.shard_seed(), 500 + hi);
        let mut cfg = HistCfg::random(&mut rng, false);
        cfg.n_accounts = rng.gen_range(1..=3);
        let net = cfg.network();
        let mut hash = [0u8; 32];
        rand::RngCore::fill_bytes(&mut rng, &mut hash);
        let base = ChainState::empty(BlockHeight::from_u32(100_000 + cfg.base_offset), BlockHash(hash));
        let mut sim = ChainSim::new(net, cfg.n_accounts, base, vh_common::rng(rng.r#gen(), 2));
        let mut w = WalletUnderTest::new(&sim, WalletConfig { file_backed: false, retention: cfg.retention });
        let keys = ScanningKeys::from_account_ufvks(
            w.accounts.iter().copied().zip(sim.accounts.iter().map(|k| k.ufvk.clone())),
        );
        let pools = cfg.pools.clone();
        let n_blocks = rng.gen_range(12..40);
        let mut pending_from = sim.base_height() + 1;
        let mut inline_results: BTreeMap<u32, Truth> = BTreeMap::new();
        let mut tracked: BTreeSet<[u8; 32]> = BTreeSet::new(); // nfs of wallet notes in scanned blocks
        let mut outputs_in_pending = 0usize;
        for _bi in 0..n_blocks {
            if !r.time_left() {
                break;
            }
            // ---- mine a dense block
            let n_tx = rng.gen_range(0..=6);
            let mut used = vec![];
            let mut plans = vec![];
            for _ in 0..n_tx {
                let p = dense_plan(&mut sim, &pools, 40, &used);
                used.extend(p.spends.iter().copied());
                plans.push(p);
            }
            let h = sim.mine(plans).height;
            let blk = sim.blocks[&h].clone();
            let n_out: usize = blk.txs.iter().map(|t| t.n_outputs.iter().sum::<u32>() as usize).sum();
            outputs_in_pending += n_out;
            let wallet_outs: usize = blk.txs.iter().map(|t| t.received.len()).sum();

            // ---- (1) inline scan_block, only possible when the predecessor is in the wallet
            // (so that the tracked nullifier set is exactly the wallet's): we scan inline against
            // the wallet's *current* state, which lags by the pending batch; the tracked set is
            // what the wallet has.
            if pending_from == h {
                let nullifiers = Nullifiers::unspent(&w.db).expect("nullifiers");
                let prior = w.db.block_metadata(BlockHeight::from_u32(h - 1)).expect("block_metadata");
                let res = guard(|| scan_block(&sim.net, blk.cb.clone(), &keys, &nullifiers, prior.as_ref()));
                match res {
                    Err(p) => r.violation(&format!("C05:scan_block:panic-on-valid-block:{}", panic_class(&p)), p, json!({"hist": hi, "height": h})),
                    Ok(Err(e)) => r.violation("C05:scan_block:valid-block-rejected", format!("{e:?}"), json!({"hist": hi, "height": h})),
                    Ok(Ok(sb)) => {
                        let want = truth_of(&blk, &tracked, &sim);
                        let got = observed_of(&sb, &w.accounts);
                        let sig = (n_tx, (n_out / 8).min(8), wallet_outs.min(4), pools.clone(), "inline");
                        r.case(&sig, wallet_outs > 0 && n_out > wallet_outs);
                        r.count("inline_blocks_checked", 1);
                        r.count("wallet_outputs_in_truth", wallet_outs as u64);
                        r.count("foreign_outputs_in_truth", (n_out - wallet_outs) as u64);
                        r.count("tracked_spends_in_truth", want.spends.values().map(|s| s.len() as u64).sum());
                        if got.recv != want.recv {
                            r.violation("C05:scan_block:received-set-differs", format!("height {h}: got {:?}\nwant {:?}", got.recv, want.recv).chars().take(1500).collect::<String>(), json!({"hist": hi, "height": h}));
                        }
                        if got.spends != want.spends {
                            r.violation("C05:scan_block:spent-set-differs", format!("height {h}: got {:?}\nwant {:?}", got.spends, want.spends).chars().take(1500).collect::<String>(), json!({"hist": hi, "height": h}));
                        }
                        // commitments in block order, final sizes
                        let sap: Vec<[u8; 32]> = sb.sapling().commitments().iter().map(|(n, _)| n.to_bytes()).collect();
                        let orc: Vec<[u8; 32]> = sb.orchard().commitments().iter().map(|(n, _)| n.to_bytes()).collect();
                        let iro: Vec<[u8; 32]> = sb.ironwood().commitments().iter().map(|(n, _)| n.to_bytes()).collect();
                        if sap != blk.leaves[0] || orc != blk.leaves[1] || iro != blk.leaves[2] {
                            r.violation("C05:scan_block:commitments-differ", format!("height {h}"), json!({"hist": hi, "height": h}));
                        }
                        let sizes = [sb.sapling().final_tree_size() as u64, sb.orchard().final_tree_size() as u64, sb.ironwood().final_tree_size() as u64];
                        if sizes != blk.end_sizes {
                            r.violation("C05:scan_block:final-tree-sizes-differ", format!("height {h}: {sizes:?} vs {:?}", blk.end_sizes), json!({"hist": hi, "height": h}));
                        }
                        inline_results.insert(h, got);
                        r.sample("inline", json!({"height": h, "txs": n_tx, "outputs": n_out, "wallet_outputs": wallet_outs, "pools": pools.iter().map(|p| p.name()).collect::<Vec<_>>()}));
                    }
                }
            }

            // ---- (3) corruptions of this (valid, next-in-line) block
            if pending_from == h && rng.gen_bool(0.5) {
                let mut cs: Vec<Corruption> = ALL_CORRUPTIONS.to_vec();
                cs.shuffle(&mut rng);
                cs.truncate(args.pick(5, 12));
                let nullifiers = Nullifiers::unspent(&w.db).expect("nullifiers");
                let prior = w.db.block_metadata(BlockHeight::from_u32(h - 1)).expect("block_metadata");
                if prior.is_some() {
                    for c in cs {
                        let Some((bad, expect)) = corrupt(&blk.cb, c, &mut rng) else { continue };
                        let before = dump::dump(w.db.conn(), false).expect("dump");
                        r.case(&("corruption", c), true);
                        r.count(&format!("corruption_{c:?}"), 1);
                        // inline
                        match guard(|| scan_block(&sim.net, bad.clone(), &keys, &nullifiers, prior.as_ref())) {
                            Err(p) => r.violation(&format!("C05:scan_block:panic:{c:?}"), p, json!({"hist": hi, "height": h, "corruption": format!("{c:?}")})),
                            Ok(Ok(_)) if expect == Expect::MustReject => r.violation(&format!("C05:scan_block:accepted:{c:?}"), format!("height {h}"), json!({"hist": hi, "height": h, "corruption": format!("{c:?}")})),
                            Ok(_) => r.count("corruptions_rejected_or_legally_accepted_inline", 1),
                        }
                        // batched, into the database (only for corruptions that must be rejected: a
                        // legally accepted block would change the wallet)
                        if expect == Expect::MayAccept {
                            continue;
                        }
                        let mut src = MemBlockSource::new(&sim.blocks);
                        src.overrides.insert(h, bad.clone());
                        let res = guard(|| w.scan_from_source(&sim, &src, h, 1));
                        match res {
                            Err(p) => {
                                r.violation(&format!("C05:scan_cached_blocks:panic:{c:?}"), p, json!({"hist": hi, "height": h, "corruption": format!("{c:?}")}));
                            }
                            Ok(Ok(_)) => {
                                r.violation(&format!("C05:scan_cached_blocks:accepted:{c:?}"), format!("height {h}"), json!({"hist": hi, "height": h, "corruption": format!("{c:?}")}));
                                // the corrupted block is now in the wallet: this history cannot go on
                                break;
                            }
                            Ok(Err(_)) => r.count("corruptions_rejected_batched", 1),
                        }
                        let after = dump::dump(w.db.conn(), false).expect("dump");
                        if after != before {
                            r.violation(&format!("C05:scan_cached_blocks:partially-applied:{c:?}"), dump::diff(&before, &after), json!({"hist": hi, "height": h, "corruption": format!("{c:?}")}));
                        }
                        // the same corrupted block as the SECOND block of a batch (its predecessor is
                        // then known from the batch itself, not from the database): the batch starts
                        // with a re-scan of the already scanned block h-1
                        if h - 1 > sim.base_height() && w.scanned.contains_key(&(h - 1)) {
                            r.count("corruptions_mid_batch", 1);
                            r.count(&format!("corruption_mid_batch_{c:?}"), 1);
                            let res = guard(|| w.scan_from_source(&sim, &src, h - 1, 2));
                            match res {
                                Err(p) => r.violation(&format!("C05:scan_cached_blocks:panic:mid-batch:{c:?}"), p, json!({"hist": hi, "height": h, "corruption": format!("{c:?}")})),
                                Ok(Ok(_)) => {
                                    r.violation(&format!("C05:scan_cached_blocks:accepted:mid-batch:{c:?}"), format!("height {h} as second block of a batch"), json!({"hist": hi, "height": h, "corruption": format!("{c:?}")}));
                                    break;
                                }
                                Ok(Err(_)) => r.count("corruptions_rejected_mid_batch", 1),
                            }
                            let after = dump::dump(w.db.conn(), false).expect("dump");
                            if after != before {
                                r.violation(&format!("C05:scan_cached_blocks:partially-applied:mid-batch:{c:?}"), dump::diff(&before, &after), json!({"hist": hi, "height": h, "corruption": format!("{c:?}")}));
                            }
                        }
                    }
                }
            }

            // ---- (2) batched scan of the pending range, at batch sizes straddling the runner
            // threshold (100 outputs)
            let flush = outputs_in_pending >= *[1usize, 60, 99, 100, 101, 180, 260].choose(&mut rng).unwrap() || rng.gen_bool(0.25);
            if flush {
                let from = pending_from;
                let limit = (h - from + 1) as usize;
                let _ = vh_wallet::hooks::take();
                let scan_res = guard(|| w.scan(&sim, from, limit));
                let ev = vh_wallet::hooks::take();
                if !ev.is_empty() {
                    let (sig, workers, n_ev) = vh_wallet::hooks::schedule_signature(&ev);
                    r.count("hook_events_observed", n_ev as u64);
                    r.count("batches_run_on_pool", ev.iter().filter(|e| e.0 == "batch_start").count() as u64);
                    if schedules.insert(sig) {
                        r.count("distinct_schedules_observed", 1);
                    }
                    max_workers = max_workers.max(workers);
                }
                match scan_res {
                    Err(p) => r.violation(&format!("C05:scan_cached_blocks:panic-on-valid-blocks:{}", panic_class(&p)), p, json!({"hist": hi, "from": from, "limit": limit})),
                    Ok(Err(e)) => r.violation("C05:scan_cached_blocks:valid-blocks-rejected", e, json!({"hist": hi, "from": from, "limit": limit})),
                    Ok(Ok(_)) => {
                        r.count("batches_scanned", 1);
                        r.count(&format!("batch_outputs_bucket_{}", (outputs_in_pending / 50).min(6) * 50), 1);
                        for hh in from..=h {
                            let b = &sim.blocks[&hh];
                            let want = truth_of(b, &tracked, &sim).recv;
                            match db_recv(&w, hh) {
                                Ok(got) => {
                                    r.count("batched_blocks_checked", 1);
                                    if got != want {
                                        r.violation("C05:scan_cached_blocks:stored-notes-differ-from-truth", format!("height {hh}: db {:?}\nwant {:?}", got, want).chars().take(1500).collect::<String>(), json!({"hist": hi, "height": hh}));
                                    }
                                    if let Some(inl) = inline_results.get(&hh) {
                                        r.count("inline_vs_batched_comparisons", 1);
                                        if inl.recv != got {
                                            r.violation("C05:inline-and-batched-results-differ", format!("height {hh}"), json!({"hist": hi, "height": hh}));
                                        }
                                    }
                                }
                                Err(e) => { r.inconclusive("db-query-failed"); r.note(e); }
                            }
                            for tx in &b.txs {
                                for n in &tx.received {
                                    tracked.insert(n.nf);
                                }
                            }
                        }
                        // spent flags in the database for everything scanned so far
                        let spent_truth: BTreeSet<String> = sim.spent.iter().filter(|(_, (sh, _))| w.scanned.contains_key(sh)).map(|(k, _)| hex::encode(sim.live[k].nf)).collect();
                        let mut spent_db: BTreeSet<String> = BTreeSet::new();
                        for prefix in ["sapling", "orchard", "ironwood"] {
                            let sql = format!("SELECT hex(rn.nf) FROM {prefix}_received_notes rn JOIN {prefix}_received_note_spends s ON s.{prefix}_received_note_id = rn.id");
                            let conn = w.db.conn();
                            let mut st = conn.prepare(&sql).unwrap();
                            for x in st.query_map([], |row| row.get::<_, String>(0)).unwrap() {
                                spent_db.insert(x.unwrap().to_lowercase());
                            }
                        }
                        r.count("spent_flag_comparisons", 1);
                        if spent_db != spent_truth {
                            r.violation("C05:scan_cached_blocks:spent-notes-differ-from-truth", format!("db-only {:?} truth-only {:?}", spent_db.difference(&spent_truth).take(3).collect::<Vec<_>>(), spent_truth.difference(&spent_db).take(3).collect::<Vec<_>>()), json!({"hist": hi, "upto": h}));
                        }
                        pending_from = h + 1;
                        outputs_in_pending = 0;
                    }
                }
            }
        }
        // ---- (4) a block range that does not connect to the PRIOR CHAIN STATE it is scanned from:
        // a fresh wallet (its trees hold nothing yet, as on the first range of a restore or an
        // out-of-order start) is given the true blocks from height h with a prior state in which one
        // pool's frontier is empty although the chain's tree is not. The first block's tree-size
        // metadata then contradicts the state it is supposed to extend: the range must be refused and
        // leave nothing behind; with the true state the same call succeeds.
        {
            use incrementalmerkletree::frontier::Frontier;
            let (lo, hi_h) = (sim.base_height() + 2, sim.tip_height());
            let mut tried = 0;
            for _ in 0..6 {
                if hi_h <= lo || tried >= 2 || !r.time_left() {
                    break;
                }
                let h = rng.gen_range(lo..=hi_h);
                let truth = sim.state_at(h - 1);
                let sizes = sim.sizes_at(h - 1);
                let cand: Vec<Pool> = POOLS.iter().copied().filter(|p| sizes[p.idx()] > 0).collect();
                let Some(pool) = cand.choose(&mut rng).copied() else { continue };
                tried += 1;
                let bad = ChainState::new(
                    truth.block_height(),
                    truth.block_hash(),
                    if pool == Pool::Sapling { Frontier::empty() } else { truth.final_sapling_tree().clone() },
                    if pool == Pool::Orchard { Frontier::empty() } else { truth.final_orchard_tree().clone() },
                    if pool == Pool::Ironwood { Frontier::empty() } else { truth.final_ironwood_tree().clone() },
                );
                let src = MemBlockSource::new(&sim.blocks);
                let mut w2 = WalletUnderTest::new(&sim, WalletConfig { file_backed: false, retention: cfg.retention });
                let _ = w2.update_chain_tip(hi_h);
                let before = dump::dump(w2.db.conn(), false).expect("dump");
                r.count("prior_state_corruptions", 1);
                r.count(&format!("prior_state_frontier_emptied_{}", pool.name()), 1);
                match guard(|| w2.scan_from_source_with_state(&sim, &src, h, &bad, 1)) {
                    Err(p) => r.violation(&format!("C05:scan_cached_blocks:panic:PriorStateFrontierEmptied:{}", pool.name()), p, json!({"hist": hi, "height": h})),
                    Ok(Ok(_)) => r.violation(
                        &format!("C05:scan_cached_blocks:accepted:PriorStateFrontierEmptied:{}", pool.name()),
                        format!("block {h} (tree sizes before it {sizes:?}) was accepted on top of a prior chain state whose {} frontier is empty", pool.name()),
                        json!({"hist": hi, "height": h}),
                    ),
                    Ok(Err(_)) => {
                        r.count("prior_state_corruptions_rejected", 1);
                        let after = dump::dump(w2.db.conn(), false).expect("dump");
                        if after != before {
                            r.violation(&format!("C05:scan_cached_blocks:partially-applied:PriorStateFrontierEmptied:{}", pool.name()), dump::diff(&before, &after), json!({"hist": hi, "height": h}));
                        }
                        // control: the true state is accepted by the same (still fresh) wallet
                        match guard(|| w2.scan_from_source_with_state(&sim, &src, h, &truth, 1)) {
                            Ok(Ok(_)) => r.count("prior_state_true_state_accepted", 1),
                            Ok(Err(e)) => r.violation("C05:scan_cached_blocks:true-prior-state-refused-after-refusing-a-wrong-one", e, json!({"hist": hi, "height": h})),
                            Err(p) => r.violation("C05:scan_cached_blocks:panic:true-prior-state", p, json!({"hist": hi, "height": h})),
                        }
                    }
                }
            }
        }
    }
    r.set_max("max_worker_threads_seen_in_one_scan", max_workers as u64);
    r.finish();
}
