//! C15 (b) — the wallet's scan queue: partition invariants after every operation, "scanning a
//! range marks exactly that range scanned", and bounded-progress termination of a client that
//! follows `suggest_scan_ranges` across tip updates, new blocks and rewinds.

use std::collections::BTreeMap;

use vh_common::{guard, json, panic_class, Args, Reporter, Value};
use vh_wallet::hist::{Hist, HistCfg, Monitor, Op};
use zcash_client_backend::data_api::WalletRead;

const SCANNED: i64 = 10;

fn queue(h: &Hist) -> Result<Vec<(u32, u32, i64)>, String> {
    let conn = h.w.db.conn();
    let mut st = conn
        .prepare("SELECT block_range_start, block_range_end, priority FROM scan_queue ORDER BY block_range_start")
        .map_err(|e| e.to_string())?;
    let rows = st
        .query_map([], |r| Ok((r.get(0)?, r.get(1)?, r.get(2)?)))
        .map_err(|e| e.to_string())?;
    rows.collect::<Result<Vec<_>, _>>().map_err(|e| e.to_string())
}

fn prio_at(q: &[(u32, u32, i64)], h: u32) -> Option<i64> {
    q.iter().find(|(a, b, _)| *a <= h && h < *b).map(|x| x.2)
}

#[derive(Default)]
struct C15 {
    prev: Vec<(u32, u32, i64)>,
    queue_checks: u64,
    scan_exactness_checks: u64,
    heights_compared: u64,
    violated: bool,
    prios_seen: BTreeMap<i64, u64>,
    state_rewind_checks: u64,
    heights_compared_across_state_rewinds: u64,
}

impl C15 {
    fn viol(&mut self, h: &Hist, r: &mut Reporter, sig: &str, detail: String) {
        if std::env::var("VH_DEBUG").is_ok() && !self.violated {
            eprintln!("VIOLATION {sig}: {detail}");
        }
        self.violated = true;
        r.violation(sig, detail, h.ops_json());
    }
}

impl Monitor for C15 {
    fn after_op(&mut self, h: &mut Hist, r: &mut Reporter) {
        if matches!(h.last_op(), Some(Op::Mine { .. })) {
            return;
        }
        let q = match queue(h) {
            Ok(q) => q,
            Err(e) => {
                r.inconclusive("scan_queue-query-failed");
                r.note(e);
                return;
            }
        };
        self.queue_checks += 1;
        // partition invariants
        for w in q.windows(2) {
            let ((a0, b0, p0), (a1, _b1, p1)) = (w[0], w[1]);
            if b0 > a1 {
                self.viol(h, r, "C15:queue-overlap", format!("[{a0},{b0}) overlaps [{a1},..) after {:?}; queue {q:?}", h.last_op()));
            } else if b0 < a1 {
                self.viol(h, r, "C15:queue-gap", format!("gap between {b0} and {a1} after {:?}; queue {q:?}", h.last_op()));
            } else if p0 == p1 {
                self.viol(h, r, "C15:queue-adjacent-equal-not-merged", format!("[{a0},{b0}) and next share priority {p0} after {:?}; queue {q:?}", h.last_op()));
            }
        }
        for (a, b, p) in &q {
            *self.prios_seen.entry(*p).or_insert(0) += 1;
            if a >= b {
                self.viol(h, r, "C15:queue-empty-range", format!("[{a},{b}) prio {p}"));
            }
        }
        // scanning marks exactly that range scanned
        if let Some(Op::Scan { from, limit, ok: true, .. }) = h.last_op().cloned() {
            let end = (from + limit).min(h.sim.tip_height() + 1);
            self.scan_exactness_checks += 1;
            for x in from..end {
                if prio_at(&q, x) != Some(SCANNED) {
                    self.viol(h, r, "C15:scanned-range-not-marked-scanned", format!("height {x} has priority {:?} after scan({from},{limit}); queue {q:?}", prio_at(&q, x)));
                    break;
                }
            }
            let lo = q.first().map(|x| x.0).unwrap_or(from).min(self.prev.first().map(|x| x.0).unwrap_or(from));
            let hi = q.last().map(|x| x.1).unwrap_or(end).max(self.prev.last().map(|x| x.1).unwrap_or(end));
            for x in lo..hi {
                if (from..end).contains(&x) {
                    continue;
                }
                self.heights_compared += 1;
                let was = prio_at(&self.prev, x) == Some(SCANNED);
                let is = prio_at(&q, x) == Some(SCANNED);
                if was != is {
                    self.viol(
                        h,
                        r,
                        if is { "C15:scan-marked-other-height-scanned" } else { "C15:scan-unmarked-other-scanned-height" },
                        format!("height {x} outside scan({from},{limit}) changed scanned-ness {was}->{is}; before {:?} after {q:?}", self.prev),
                    );
                    break;
                }
            }
        }
        // a deep rewind_to_chain_state re-queues (target, floor] with a FORCED Historic insertion:
        // by the dominance rule that must not lower an unscanned range of higher priority
        if let Some(Op::RewindToState { to, ok: true, floor, .. }) = h.last_op().cloned() {
            self.state_rewind_checks += 1;
            for x in to + 1..=floor {
                if let (Some(was), Some(is)) = (prio_at(&self.prev, x), prio_at(&q, x)) {
                    self.heights_compared_across_state_rewinds += 1;
                    if was > 20 && is < was {
                        self.viol(
                            h,
                            r,
                            "C15:rewind_to_chain_state:lowered-priority-of-unscanned-range",
                            format!("height {x} (rewind target {to}, retained floor {floor}) had priority {was}, now {is}; before {:?} after {q:?}", self.prev),
                        );
                        break;
                    }
                }
            }
            // nothing at or below the target changes
            let lo = self.prev.first().map(|x| x.0).unwrap_or(to);
            for x in lo..=to {
                if prio_at(&self.prev, x) != prio_at(&q, x) {
                    self.viol(h, r, "C15:rewind_to_chain_state:changed-queue-at-or-below-target", format!("height {x} <= target {to}: {:?} -> {:?}", prio_at(&self.prev, x), prio_at(&q, x)));
                    break;
                }
            }
        }
        // the harness's own record of scanned heights must be marked Scanned (unless a tip update /
        // rewind asked for re-verification, which the dominance rule allows to override)
        self.prev = q;
    }

    fn at_end(&mut self, _h: &mut Hist, r: &mut Reporter) {
        r.count("histories", 1);
        r.count("queue_partition_checks", self.queue_checks);
        r.count("scan_exactness_checks", self.scan_exactness_checks);
        r.count("heights_compared_for_scannedness", self.heights_compared);
        r.count("deep_state_rewind_checks", self.state_rewind_checks);
        r.count("heights_compared_across_deep_state_rewinds", self.heights_compared_across_state_rewinds);
        for (p, n) in &self.prios_seen {
            r.count(&format!("queue_rows_with_priority_{p}"), *n);
        }
    }
}

fn main() {
    vh_common::install_panic_hook();
    let args = Args::parse();
    let mut r = Reporter::new("C15", &args);
    let n = args.pick(10u64, 300u64);
    let thorough = args.tier == vh_common::Tier::Thorough;
    let only = args.extra.get("only-hist").map(|v| v.parse::<u64>().unwrap());
    for i in 0..n {
        if !r.time_left() {
            break;
        }
        if only.is_some() && only != Some(i) {
            continue;
        }
        let mut rng = vh_common::rng(args.shard_seed(), 1500 + i);
        let mut cfg = HistCfg::random(&mut rng, thorough);
        cfg.tip_before_scan = true;
        // a third of the histories start next to a 2^16 subtree boundary and learn the completed
        // subtrees' roots first: shard end heights are then known, so FoundNote extensions reach
        // UP to the shard end and meet the ChainTip range
        let j = i + args.shard + args.seed;
        if j % 3 == 1 {
            cfg.shard_start = true;
        }
        let mut mon = C15::default();
        let suggested_mode = i % 3 != 2;
        if !suggested_mode {
            // random-order histories: long enough for a rewind_to_chain_state deeper than the pruning
            // window while unscanned ranges of higher priority lie between target and floor, and
            // for chain tips told at the edge of the stability rule
            cfg.deep_state_rewinds = true;
            cfg.tip_at_stability_edge = true;
            // subtree roots known in half of them (the stability rule only applies then)
            if (i / 3 + args.shard) % 2 == 0 {
                cfg.shard_start = true;
            }
            cfg.out_of_order = true;
            cfg.initial_len = cfg.initial_len.max(150);
            cfg.steps = cfg.steps.max(25);
        }
        let res = guard(|| {
            let mut h = Hist::new(cfg.clone(), rng);
            h.id = i;
            if suggested_mode {
                let (steps, bound, synced) = h.run_suggested(&mut [&mut mon], &mut r);
                r.count("suggest_driven_histories", 1);
                r.count("suggest_driven_steps", steps);
                if let Some(a) = &h.aborted {
                    if h.f1.any_tainted() {
                        r.count("histories_stopped_by_known_finding_F1", 1);
                    } else {
                        r.violation("C15:sync-stopped", a.clone(), h.ops_json());
                    }
                } else if !synced && steps > bound {
                    r.violation(
                        "C15:sync-did-not-terminate-within-bound",
                        format!("{steps} steps > bound {bound}; suggestions now {:?}", h.suggested()),
                        h.ops_json(),
                    );
                } else if synced {
                    r.count("syncs_completed", 1);
                    // nothing left to suggest: every block birthday..tip is scanned and the wallet says so
                    let (lo, hi) = (h.sim.base_height() + 1, h.sim.tip_height());
                    let q = queue(&h).unwrap_or_default();
                    for x in lo..=hi {
                        if prio_at(&q, x) != Some(SCANNED) {
                            r.violation("C15:synced-but-height-not-scanned", format!("height {x} priority {:?}; queue {q:?}", prio_at(&q, x)), h.ops_json());
                            break;
                        }
                    }
                    if !h.w.fully_scanned_upto(&h.sim) {
                        r.violation("C15:nothing-suggested-but-blocks-unscanned", format!("unscanned {:?}", h.unscanned_ranges()), h.ops_json());
                    }
                    match h.w.db.block_fully_scanned() {
                        Ok(Some(m)) if u32::from(m.block_height()) == hi => {}
                        other => r.violation("C15:block_fully_scanned-not-tip", format!("{:?} vs tip {hi}", other.map(|o| o.map(|m| m.block_height()))), h.ops_json()),
                    }
                } else {
                    r.inconclusive("budget-exhausted-before-sync");
                }
            } else {
                h.run(&mut [&mut mon], &mut r);
                r.count("random_order_histories", 1);
                // directed: chain tips exactly 100 and 101 blocks above the highest scanned block
                // (first and second tip for which that block counts as stable)
                if h.aborted.is_none() {
                    for d in [100u32, 101] {
                        if let Some(&top) = h.w.scanned.keys().next_back() {
                            if h.w.told_tip.map_or(true, |t| t < top + d) {
                                h.tell_tip_above_top(d, &mut [&mut mon], &mut r);
                                r.count("chain_tips_told_exactly_at_stability_edge", 1);
                                if h.cfg.shard_start {
                                    r.count("chain_tips_told_exactly_at_stability_edge_with_subtree_roots_known", 1);
                                }
                            }
                        }
                    }
                }
            }
            let sig = (cfg.pools.clone(), cfg.out_of_order, cfg.max_batch, h.rewinds_done, suggested_mode, h.cfg.n_accounts, mon.prios_seen.keys().copied().collect::<Vec<_>>());
            r.case(&sig, mon.queue_checks > 5);
            let ops: Vec<Value> = h.ops.iter().take(30).map(|o| o.to_json()).collect();
            r.sample(&format!("suggested={suggested_mode} rewinds={}", h.rewinds_done.min(1)), json!({"cfg": cfg.to_json(), "first_ops": ops}));
            r.count("rewinds", h.rewinds_done as u64);
            r.count("deep_state_rewinds_done", h.state_rewinds_done);
            r.count("deep_state_rewinds_refused", h.state_rewinds_refused);
            r.count("chain_tips_told_at_stability_edge", h.tips_at_stability_edge);
            r.count("subtree_roots_put", h.subtree_roots_put);
            if h.cfg.shard_start {
                r.count("histories_starting_at_shard_boundary", 1);
            }
        });
        if let Err(p) = res {
            r.violation(&format!("C15:panic:{}", panic_class(&p)), p, json!({"cfg": cfg.to_json(), "hist": i}));
        }
    }
    r.finish();
}
