//! The trace specification of C18, written against a plain snapshot of the
//! migration state (public accessors only). Nothing here calls the planning
//! kernel, `transaction_statuses`, `deps_mined` or any other decision
//! procedure of the code under test: every predicate is re-derived from the
//! property statement / the documented contract.

use std::collections::{BTreeMap, BTreeSet};

use zcash_pool_migration::engine::{
    MigrationState, MigrationStatus, MigrationTransaction, MigrationTxKind, MigrationTxState,
};
use zcash_pool_migration::state::AdvanceStep;

pub const RANK_NAMES: [&str; 5] = ["awaiting_signature", "signed", "proved", "broadcast", "mined"];

#[derive(Clone, Debug, PartialEq, Eq)]
pub struct TxSnap {
    pub id: u32,
    pub transfer: bool,
    pub deps: Vec<u32>,
    pub sched: u32,
    pub expiry: u32,
    pub boundary: Option<u32>,
    pub txid: [u8; 32],
    /// 0 AwaitingSignature < 1 Signed < 2 Proved < 3 Broadcast < 4 Mined
    pub rank: u8,
    pub mined_at: Option<u32>,
    pub state_txid: Option<[u8; 32]>,
    pub mark: Option<u32>,
    pub report: Option<u32>,
}

#[derive(Clone, Debug, PartialEq, Eq)]
pub struct Snap {
    pub status: MigrationStatus,
    pub txs: Vec<TxSnap>,
}

pub fn rank_of(s: &MigrationTxState) -> u8 {
    match s {
        MigrationTxState::AwaitingSignature => 0,
        MigrationTxState::Signed => 1,
        MigrationTxState::Proved => 2,
        MigrationTxState::Broadcast { .. } => 3,
        MigrationTxState::Mined { .. } => 4,
    }
}

pub fn snap_tx(t: &MigrationTransaction) -> TxSnap {
    let (mined_at, state_txid) = match t.state() {
        MigrationTxState::Broadcast { txid } => (None, Some(*txid.as_ref())),
        MigrationTxState::Mined { txid, height } => (Some(u32::from(height)), Some(*txid.as_ref())),
        _ => (None, None),
    };
    TxSnap {
        id: u32::from(t.id()),
        transfer: matches!(t.kind(), MigrationTxKind::Transfer { .. }),
        deps: t.depends_on().iter().map(|d| u32::from(*d)).collect(),
        sched: u32::from(t.scheduled_height()),
        expiry: u32::from(t.expiry_height()),
        boundary: t.anchor_boundary().map(u32::from),
        txid: *t.txid().as_ref(),
        rank: rank_of(&t.state()),
        mined_at,
        state_txid,
        mark: t.unsatisfiable_at().map(u32::from),
        report: t.broadcast_failure_at().map(u32::from),
    }
}

pub fn snap(s: &MigrationState) -> Snap {
    Snap {
        status: s.status(),
        txs: s.transactions().iter().map(snap_tx).collect(),
    }
}

pub fn policy_terminal(s: MigrationStatus) -> bool {
    matches!(
        s,
        MigrationStatus::Failed | MigrationStatus::Superseded | MigrationStatus::Cancelled
    )
}

pub fn terminal(s: MigrationStatus) -> bool {
    policy_terminal(s) || s == MigrationStatus::Complete
}

pub fn status_name(s: MigrationStatus) -> &'static str {
    match s {
        MigrationStatus::Planning => "planning",
        MigrationStatus::Committed => "committed",
        MigrationStatus::InProgress => "in_progress",
        MigrationStatus::Complete => "complete",
        MigrationStatus::Failed => "failed",
        MigrationStatus::Superseded => "superseded",
        MigrationStatus::Cancelled => "cancelled",
    }
}

impl Snap {
    pub fn tx(&self, id: u32) -> Option<&TxSnap> {
        self.txs.iter().find(|t| t.id == id)
    }

    /// ZIP 203: a transaction may be mined only in a block of height <= expiry
    /// (0 = never expires); `target` is the height of the next block.
    pub fn expired_at(t: &TxSnap, target: u32) -> bool {
        t.rank != 4 && t.expiry != 0 && t.expiry < target
    }

    pub fn deps_all_mined(&self, t: &TxSnap) -> bool {
        t.deps
            .iter()
            .all(|d| self.tx(*d).map(|x| x.rank == 4).unwrap_or(false))
    }

    /// Transactions that can no longer move, judged on chain data (`scanned`):
    /// unmined and (marked unsatisfiable, or expired, or waiting on such a one).
    pub fn dead_set(&self, scanned: u32) -> BTreeSet<u32> {
        let mut dead: BTreeSet<u32> = self
            .txs
            .iter()
            .filter(|t| t.rank != 4 && (t.mark.is_some() || Self::expired_at(t, scanned)))
            .map(|t| t.id)
            .collect();
        loop {
            let before = dead.len();
            for t in &self.txs {
                if t.rank != 4 && t.deps.iter().any(|d| dead.contains(d)) {
                    dead.insert(t.id);
                }
            }
            if dead.len() == before {
                return dead;
            }
        }
    }

    pub fn all_mined(&self) -> bool {
        !self.txs.is_empty() && self.txs.iter().all(|t| t.rank == 4)
    }
}

/// What the harness did between two snapshots.
#[derive(Clone, Debug, PartialEq, Eq)]
pub enum Ev {
    Advance,
    StoreProved(u32),
    MarkBroadcast(u32),
    ReportFailure(u32),
    MarkMined(u32),
    /// `truncate_to_height(h)` (in memory, or through the wallet's own truncation)
    Truncate(u32),
    Cancel,
    Supersede,
    /// rebuild of transfer `id`, `scanned` target at which it was requested
    Rebuild(u32, u32),
    ApplySignature(u32),
    ProveFailed(u32),
}

impl Ev {
    pub fn name(&self) -> &'static str {
        match self {
            Ev::Advance => "advance_migration",
            Ev::StoreProved(_) => "store_proved_transaction",
            Ev::MarkBroadcast(_) => "mark_broadcast",
            Ev::ReportFailure(_) => "report_broadcast_failure",
            Ev::MarkMined(_) => "mark_mined",
            Ev::Truncate(_) => "truncate_to_height",
            Ev::Cancel => "mark_cancelled",
            Ev::Supersede => "mark_superseded",
            Ev::Rebuild(..) => "rebuild_expired_transfer",
            Ev::ApplySignature(_) => "apply_signature",
            Ev::ProveFailed(_) => "prove:input-not-available",
        }
    }
}

pub struct Viol {
    pub class: String,
    pub detail: String,
}

fn v(out: &mut Vec<Viol>, class: String, detail: String) {
    out.push(Viol { class, detail });
}

#[derive(Default, Debug)]
pub struct TransitionStats {
    pub unmined: u32,
    pub kept_mined: u32,
    pub kept_at_exact_height: u32,
    pub complete_reverted: bool,
    pub rank_advances: u32,
    pub on_terminal: bool,
}

/// Lifecycle part of the specification: what one event may do to the
/// per-transaction ranks and to the overall status.
pub fn check_transition(before: &Snap, after: &Snap, ev: &Ev, out: &mut Vec<Viol>) -> TransitionStats {
    let mut st = TransitionStats {
        on_terminal: terminal(before.status),
        ..Default::default()
    };
    let ids_b: Vec<u32> = before.txs.iter().map(|t| t.id).collect();
    let ids_a: Vec<u32> = after.txs.iter().map(|t| t.id).collect();
    if ids_b != ids_a {
        v(
            out,
            format!("C18:lifecycle:transaction-set-changed:{}", ev.name()),
            format!("ids before {ids_b:?} after {ids_a:?}"),
        );
        return st;
    }
    let mut demoted_any = false;
    for (b, a) in before.txs.iter().zip(after.txs.iter()) {
        if a.rank > b.rank {
            st.rank_advances += 1;
        }
        match ev {
            Ev::Truncate(h) => {
                match b.mined_at {
                    Some(m) if m > *h => {
                        // must be un-mined: back in flight under the txid it was mined under
                        if a.rank == 4 {
                            v(
                                out,
                                "C18:rollback:kept-mined-above-height".into(),
                                format!("tx {} mined at {m} still mined after rollback to {h}", b.id),
                            );
                        } else if a.rank != 3 || a.state_txid != b.state_txid {
                            v(
                                out,
                                format!(
                                    "C18:rollback:unmined-into-wrong-state:{}",
                                    RANK_NAMES[a.rank as usize]
                                ),
                                format!("tx {} mined at {m}, rollback to {h}: now {a:?}", b.id),
                            );
                        } else {
                            st.unmined += 1;
                            demoted_any = true;
                        }
                    }
                    Some(m) => {
                        if a.rank != 4 || a.mined_at != Some(m) {
                            v(
                                out,
                                "C18:rollback:unmined-at-or-below-height".into(),
                                format!(
                                    "tx {} mined at {m} <= rollback height {h} became {} {:?}",
                                    b.id, RANK_NAMES[a.rank as usize], a.mined_at
                                ),
                            );
                        } else {
                            st.kept_mined += 1;
                            if m == *h {
                                st.kept_at_exact_height += 1;
                            }
                        }
                    }
                    None => {
                        if a.rank != b.rank {
                            v(
                                out,
                                format!(
                                    "C18:rank:changed-by-rollback:{}->{}",
                                    RANK_NAMES[b.rank as usize], RANK_NAMES[a.rank as usize]
                                ),
                                format!("tx {} (unmined) changed lifecycle state under rollback to {h}", b.id),
                            );
                        }
                    }
                }
            }
            Ev::Rebuild(id, scanned) if *id == b.id => {
                // the documented rebuild: only an expired, unmined transfer goes back to signing
                if a.rank < b.rank && !(b.transfer && Snap::expired_at(b, *scanned)) {
                    v(
                        out,
                        format!(
                            "C18:rank:decrease:rebuild-of-unexpired:{}->{}",
                            RANK_NAMES[b.rank as usize], RANK_NAMES[a.rank as usize]
                        ),
                        format!("tx {} expiry {} scanned target {scanned}", b.id, b.expiry),
                    );
                }
            }
            _ => {
                if a.rank < b.rank {
                    v(
                        out,
                        format!(
                            "C18:rank:decrease:{}:{}->{}",
                            ev.name(),
                            RANK_NAMES[b.rank as usize],
                            RANK_NAMES[a.rank as usize]
                        ),
                        format!("tx {} moved backwards: before {b:?} after {a:?}", b.id),
                    );
                }
            }
        }
    }
    // status
    if policy_terminal(before.status) && after.status != before.status {
        v(
            out,
            format!(
                "C18:terminal:left:{}->{}:{}",
                status_name(before.status),
                status_name(after.status),
                ev.name()
            ),
            format!("policy-terminal status left by {ev:?}"),
        );
    }
    if before.status == MigrationStatus::Complete && after.status != MigrationStatus::Complete {
        // design reading: Complete is chain-derived, left only by a rollback that un-mines something
        let ok = matches!(ev, Ev::Truncate(_)) && demoted_any;
        if ok {
            st.complete_reverted = true;
            if terminal(after.status) {
                v(
                    out,
                    format!("C18:terminal:complete-to-{}:rollback", status_name(after.status)),
                    "a rollback moved Complete to another terminal status".into(),
                );
            }
        } else {
            v(
                out,
                format!(
                    "C18:terminal:complete-left:{}->{}",
                    ev.name(),
                    status_name(after.status)
                ),
                format!("Complete left by {ev:?} without un-mining anything"),
            );
        }
    }
    st
}

/// State invariants that every event must preserve (the generators only
/// produce initial states that satisfy them).
pub fn check_invariants(after: &Snap, ev_name: &str, out: &mut Vec<Viol>) {
    // "never ends silently holding value": Complete means every transaction is mined
    if after.status == MigrationStatus::Complete && !after.all_mined() {
        let left: Vec<u32> = after.txs.iter().filter(|t| t.rank != 4).map(|t| t.id).collect();
        v(
            out,
            format!("C18:stuck:complete-with-unmined:{ev_name}"),
            format!("status Complete while transactions {left:?} are not mined"),
        );
    }
    for t in &after.txs {
        // a broadcast-failure report is only ever recorded on (and withheld from) a Proved row
        if t.report.is_some() && t.rank != 2 {
            v(
                out,
                format!(
                    "C18:invariant:failure-report-on-{}:{ev_name}",
                    RANK_NAMES[t.rank as usize]
                ),
                format!("tx {} carries a broadcast-failure report in state {}", t.id, RANK_NAMES[t.rank as usize]),
            );
        }
        // chain inclusion discharges an unsatisfiability mark
        if t.mark.is_some() && t.rank == 4 {
            v(
                out,
                format!("C18:invariant:unsatisfiable-mark-on-mined:{ev_name}"),
                format!("tx {} is mined and still marked unsatisfiable", t.id),
            );
        }
    }
}

#[derive(Clone, Copy, Debug, PartialEq, Eq)]
pub enum Ans {
    Satisfiable,
    NotYet,
    UnsatMarking,
    UnsatExpired,
}

#[derive(Default, Debug)]
pub struct StepStats {
    pub broadcastable: u32,
    pub proved_rows: u32,
    pub all_dead: bool,
    pub due_exact: bool,
    pub expiry_exact: bool,
    pub doomed_withheld: u32,
    pub partial_deps_withheld: u32,
    pub reported_withheld: u32,
    pub notyet_withheld: u32,
}

/// The broadcastable predicate of the specification at the served targets.
fn broadcastable(s: &Snap, t: &TxSnap, eff: u32) -> bool {
    t.rank == 2
        && s.deps_all_mined(t)
        && t.sched <= eff
        && (t.expiry == 0 || t.expiry >= eff)
        && t.report.is_none()
}

/// Safety of one `advance_migration` answer. `after` is the state the caller
/// holds when it acts on `step`; `answers` are the store's satisfiability
/// answers given during the call (last answer per transaction).
pub fn check_step(
    after: &Snap,
    step: &AdvanceStep,
    scanned: u32,
    eff: u32,
    answers: &BTreeMap<u32, Ans>,
    out: &mut Vec<Viol>,
) -> StepStats {
    let mut st = StepStats::default();
    let dead = after.dead_set(scanned);
    st.proved_rows = after.txs.iter().filter(|t| t.rank == 2).count() as u32;

    // --- a returned Broadcast(id) ---
    if let AdvanceStep::Broadcast { id } = step {
        let id = u32::from(*id);
        match after.tx(id) {
            None => v(
                out,
                "C18:broadcast:unknown-transaction".into(),
                format!("Broadcast names tx {id} which the state does not hold"),
            ),
            Some(t) => {
                if t.rank != 2 {
                    v(
                        out,
                        format!("C18:broadcast:not-proved:{}", RANK_NAMES[t.rank as usize]),
                        format!("Broadcast({id}) but the transaction is {}", RANK_NAMES[t.rank as usize]),
                    );
                }
                if !after.deps_all_mined(t) {
                    let un: Vec<u32> = t
                        .deps
                        .iter()
                        .copied()
                        .filter(|d| after.tx(*d).map(|x| x.rank != 4).unwrap_or(true))
                        .collect();
                    v(
                        out,
                        "C18:broadcast:dependency-not-mined".into(),
                        format!("Broadcast({id}) while dependencies {un:?} of {:?} are not mined", t.deps),
                    );
                }
                if t.sched > eff {
                    v(
                        out,
                        "C18:broadcast:not-due".into(),
                        format!("Broadcast({id}) scheduled at {} > served target {eff}", t.sched),
                    );
                }
                if t.expiry != 0 && t.expiry < scanned {
                    v(
                        out,
                        "C18:broadcast:expired".into(),
                        format!("Broadcast({id}) expiry {} < scanned target {scanned}", t.expiry),
                    );
                } else if t.expiry != 0 && t.expiry < eff {
                    v(
                        out,
                        "C18:broadcast:expired-at-served-target".into(),
                        format!(
                            "Broadcast({id}) expiry {} in the doomed window [scanned {scanned}, served {eff})",
                            t.expiry
                        ),
                    );
                }
                if t.report.is_some() {
                    v(
                        out,
                        "C18:broadcast:open-failure-report".into(),
                        format!("Broadcast({id}) while its failure report at {:?} stands", t.report),
                    );
                }
                st.due_exact = t.sched == eff;
                st.expiry_exact = t.expiry != 0 && t.expiry == eff;
            }
        }
    }

    // --- documented priority: a due broadcast is named ahead of proving work ---
    for t in &after.txs {
        if t.rank == 2 {
            if broadcastable(after, t, eff) {
                st.broadcastable += 1;
            } else if t.sched <= eff && !dead.contains(&t.id) {
                if t.expiry != 0 && t.expiry < eff && t.expiry >= scanned {
                    st.doomed_withheld += 1;
                }
                if !after.deps_all_mined(t) && t.deps.iter().any(|d| after.tx(*d).map(|x| x.rank == 4).unwrap_or(false)) {
                    st.partial_deps_withheld += 1;
                }
                if t.report.is_some() {
                    st.reported_withheld += 1;
                }
            }
        }
    }
    if matches!(
        step,
        AdvanceStep::Prove { .. } | AdvanceStep::Rebuild { .. } | AdvanceStep::Waiting
    ) && !terminal(after.status)
    {
        for t in &after.txs {
            if broadcastable(after, t, eff) && !dead.contains(&t.id) {
                match answers.get(&t.id) {
                    Some(Ans::NotYet) => {
                        st.notyet_withheld += 1;
                    }
                    _ => v(
                        out,
                        format!("C18:priority:due-broadcast-not-named:{}", step_name(step)),
                        format!(
                            "step {} while tx {} is proved, due (sched {} <= {eff}), deps mined, expiry {} live, no report, store answer {:?}",
                            step_name(step),
                            t.id,
                            t.sched,
                            t.expiry,
                            answers.get(&t.id)
                        ),
                    ),
                }
            }
        }
    }

    // --- a Rebuild is only for a transfer whose expiry the wallet's own chain data has passed ---
    if let AdvanceStep::Rebuild { id } = step {
        let id = u32::from(*id);
        match after.tx(id) {
            Some(t) if t.transfer && Snap::expired_at(t, scanned) => {}
            other => v(
                out,
                "C18:rebuild:offered-for-unexpired".into(),
                format!("Rebuild({id}) at scanned target {scanned}: {other:?}"),
            ),
        }
    }

    // --- never silently stuck ---
    let unmined: Vec<&TxSnap> = after.txs.iter().filter(|t| t.rank != 4).collect();
    if !terminal(after.status) && !unmined.is_empty() && unmined.iter().all(|t| dead.contains(&t.id)) {
        st.all_dead = true;
        if matches!(step, AdvanceStep::Waiting | AdvanceStep::Complete) {
            // the one documented exception: a rebuild candidate the wallet answered "not yet" for
            let deferred_rebuild = unmined.iter().any(|t| {
                t.transfer
                    && t.mark.is_none()
                    && Snap::expired_at(t, scanned)
                    && !t.deps.iter().any(|d| dead.contains(d))
                    && answers.get(&t.id) == Some(&Ans::NotYet)
            });
            if !deferred_rebuild {
                v(
                    out,
                    format!("C18:stuck:all-unmined-dead-but-{}", step_name(step)),
                    format!(
                        "every unmined transaction is dead at scanned target {scanned} ({:?}), status {}, yet the step is {}",
                        dead,
                        status_name(after.status),
                        step_name(step)
                    ),
                );
            }
        }
    }
    if matches!(step, AdvanceStep::Complete) && !terminal(after.status) && !after.all_mined() {
        v(
            out,
            "C18:stuck:complete-step-with-unmined".into(),
            format!("step Complete, status {}, unmined {:?}", status_name(after.status), unmined.iter().map(|t| t.id).collect::<Vec<_>>()),
        );
    }
    st
}

pub fn step_name(s: &AdvanceStep) -> &'static str {
    match s {
        AdvanceStep::Prove { .. } => "prove",
        AdvanceStep::Broadcast { .. } => "broadcast",
        AdvanceStep::Rebuild { .. } => "rebuild",
        AdvanceStep::Replan => "replan",
        AdvanceStep::Reevaluate => "reevaluate",
        AdvanceStep::Waiting => "waiting",
        AdvanceStep::Complete => "complete",
    }
}

/// First field in which two states differ (for round-trip violation classes).
pub fn first_difference(a: &MigrationState, b: &MigrationState) -> String {
    if a.status() != b.status() {
        return "status".into();
    }
    if a.denominations() != b.denominations() {
        return "denominations".into();
    }
    if a.preparation() != b.preparation() {
        return "preparation".into();
    }
    if a.anchor_bucket_interval() != b.anchor_bucket_interval() {
        return "anchor_bucket_interval".into();
    }
    if a.replan_threshold() != b.replan_threshold() {
        return "replan_threshold".into();
    }
    if a.transactions().len() != b.transactions().len() {
        return "transaction-count".into();
    }
    for (x, y) in a.transactions().iter().zip(b.transactions()) {
        macro_rules! f {
            ($name:literal, $e:expr) => {
                if $e(x) != $e(y) {
                    return concat!("tx.", $name).into();
                }
            };
        }
        f!("id", |t: &MigrationTransaction| t.id());
        f!("kind", |t: &MigrationTransaction| t.kind());
        f!("pczt", |t: &MigrationTransaction| t.pczt().clone());
        f!("depends_on", |t: &MigrationTransaction| t.depends_on().clone());
        f!("scheduled_height", |t: &MigrationTransaction| t.scheduled_height());
        f!("expiry_height", |t: &MigrationTransaction| t.expiry_height());
        f!("anchor_boundary", |t: &MigrationTransaction| t.anchor_boundary());
        f!("txid", |t: &MigrationTransaction| t.txid());
        f!("state", |t: &MigrationTransaction| t.state());
        f!("lock_owner", |t: &MigrationTransaction| t.lock_owner());
        f!("unsatisfiable", |t: &MigrationTransaction| t.unsatisfiable());
        f!("spend_nullifiers", |t: &MigrationTransaction| t.spend_nullifiers().clone());
        f!("broadcast_failure_at", |t: &MigrationTransaction| t.broadcast_failure_at());
    }
    "none".into()
}
