//! One real wallet database (`WalletDb` behind the backend testing framework)
//! per shard, reused across traces: a scanned chain of empty blocks so that the
//! wallet's own `truncate_to_height` can be driven, two accounts, and the
//! `PoolMigrations` facade over the wallet's connection.

use rusqlite::Connection;
use zcash_client_backend::data_api::testing::{TestBuilder, TestState};
use zcash_client_backend::data_api::{Account as _, WalletRead, WalletWrite};
use zcash_client_sqlite::AccountUuid;
use zcash_client_sqlite::pool_migration::orchard_ironwood::PoolMigrations;
use zcash_client_sqlite::pool_migration::MigrationUuid;
use zcash_client_sqlite::testing::{BlockCache, db::TestDb, db::TestDbFactory};
use zcash_client_sqlite::util::SystemClock;
use zcash_pool_migration::engine::{
    MigrationState, MigrationTransferId, MigrationTxState, PoolMigrationRead, PoolMigrationWrite,
    ProvedTransaction,
};
use zcash_primitives::block::BlockHash;
use zcash_protocol::consensus::BlockHeight;
use zcash_protocol::local_consensus::LocalNetwork;

pub const MIGRATION_TABLES: [&str; 8] = [
    "orchard_ironwood_migration_transaction_deps",
    "orchard_ironwood_migration_spend_nullifiers",
    "orchard_ironwood_migration_transactions",
    "orchard_ironwood_migration_prep_inputs",
    "orchard_ironwood_migration_prep_outputs",
    "orchard_ironwood_migration_prep_direct_funding",
    "orchard_ironwood_migration_crossing_values",
    "orchard_ironwood_migrations",
];

pub struct SqlEnv {
    pub st: TestState<BlockCache, TestDb, LocalNetwork>,
    pub account: AccountUuid,
    pub other_account: AccountUuid,
    /// the wallet's chain tip right after set-up (all scanned)
    pub home_tip: u32,
    /// terminal migrations of earlier traces that were left in the database as the account's
    /// retained history: (id, the state exactly as it was saved)
    pub history: Vec<(MigrationUuid, MigrationState)>,
}

fn e<T: std::fmt::Debug>(x: T) -> String {
    format!("{x:?}")
}

impl SqlEnv {
    pub fn new(depth: usize) -> Self {
        let mut st = TestBuilder::new()
            .with_data_store_factory(TestDbFactory::default())
            .with_block_cache(BlockCache::new())
            .with_account_from_sapling_activation(BlockHash([0; 32]))
            .build();
        let account = st.test_account().expect("test account").account().id();
        let (other_account, _) = st.create_account_from_test_seed("c18-second");
        st.generate_and_scan_empty_blocks(depth);
        let home_tip = u32::from(st.wallet().chain_height().unwrap().unwrap());
        SqlEnv {
            st,
            account,
            other_account,
            home_tip,
            history: vec![],
        }
    }

    fn conn(&self) -> &Connection {
        self.st.wallet().conn()
    }

    fn store_mut(&mut self, account: AccountUuid) -> Result<PoolMigrations<&mut Connection, LocalNetwork, SystemClock>, String> {
        let net = *self.st.network();
        PoolMigrations::for_account(net, SystemClock, self.st.wallet_mut().conn_mut(), account).map_err(e)
    }

    fn store_ref(&self, account: AccountUuid) -> Result<PoolMigrations<&Connection, LocalNetwork, SystemClock>, String> {
        PoolMigrations::for_account(*self.st.network(), SystemClock, self.conn(), account).map_err(e)
    }

    pub fn replace(&mut self, s: &MigrationState) -> Result<(), String> {
        let a = self.account;
        self.store_mut(a)?.replace_migration(s).map_err(e)
    }

    pub fn replace_for(&mut self, account: AccountUuid, s: &MigrationState) -> Result<(), String> {
        self.store_mut(account)?.replace_migration(s).map_err(e)
    }

    pub fn get(&self) -> Result<Option<MigrationState>, String> {
        self.store_ref(self.account)?.get_migration().map_err(e)
    }

    pub fn get_for(&self, account: AccountUuid) -> Result<Option<MigrationState>, String> {
        self.store_ref(account)?.get_migration().map_err(e)
    }

    pub fn latest(&self) -> Result<Option<MigrationState>, String> {
        self.store_ref(self.account)?.latest_migration().map_err(e)
    }

    /// The store-level cancel (works on the stored record, without the consumer's state).
    pub fn cancel(&mut self) -> Result<(), String> {
        let a = self.account;
        self.store_mut(a)?.cancel_migration().map(|_| ()).map_err(e)
    }

    /// (id, status) of every migration of the account, newest first.
    pub fn list(&self) -> Result<Vec<(MigrationUuid, zcash_pool_migration::engine::MigrationStatus)>, String> {
        Ok(self.store_ref(self.account)?.list_migrations().map_err(e)?.iter().map(|m| (m.id(), m.status())).collect())
    }

    pub fn by_id(&self, id: MigrationUuid) -> Result<Option<MigrationState>, String> {
        self.store_ref(self.account)?.get_migration_by_id(id).map_err(e)
    }

    pub fn update_transaction(&mut self, id: MigrationTransferId, state: MigrationTxState) -> Result<(), String> {
        let a = self.account;
        self.store_mut(a)?.update_transaction(id, state).map_err(e)
    }

    pub fn store_proved(&mut self, state: &mut MigrationState, proven: ProvedTransaction) -> Result<(), String> {
        let a = self.account;
        self.store_mut(a)?.store_proved_transaction(state, proven).map_err(e)
    }

    /// (rows of the account with a non-terminal status, all rows of the account)
    pub fn row_counts(&self) -> Result<(u64, u64), String> {
        let c = self.conn();
        let q = |sql: &str| -> Result<u64, String> {
            c.query_row(sql, rusqlite::params![self.account.expose_uuid()], |r| r.get::<_, u64>(0))
                .map_err(e)
        };
        let pending = q("SELECT COUNT(*) FROM orchard_ironwood_migrations m JOIN accounts a ON a.id = m.account_id
             WHERE a.uuid = ? AND m.status NOT IN ('complete','failed','superseded','cancelled')")?;
        let all = q("SELECT COUNT(*) FROM orchard_ironwood_migrations m JOIN accounts a ON a.id = m.account_id WHERE a.uuid = ?")?;
        Ok((pending, all))
    }

    /// Tries to create a second non-terminal migration row for the account behind the store's
    /// back (a copy of the pending parent row). Returns true if the database refused.
    pub fn raw_second_pending_refused(&self) -> Result<bool, String> {
        let c = self.conn();
        let r = c.execute(
            "INSERT INTO orchard_ironwood_migrations
               (account_id, status, note_split_fee_buffer, note_split_change, note_split_prep_fees,
                note_split_total_input, note_split_total_migratable, anchor_bucket_interval, replan_threshold, uuid, committed_height)
             SELECT m.account_id, 'committed', m.note_split_fee_buffer, m.note_split_change, m.note_split_prep_fees,
                    m.note_split_total_input, m.note_split_total_migratable, m.anchor_bucket_interval, m.replan_threshold,
                    randomblob(16), m.committed_height
               FROM orchard_ironwood_migrations m JOIN accounts a ON a.id = m.account_id
              WHERE a.uuid = ? AND m.status NOT IN ('complete','failed','superseded','cancelled')",
            rusqlite::params![self.account.expose_uuid()],
        );
        match r {
            Ok(0) => Err("no pending row to copy".into()),
            Ok(_) => {
                // it went through: remove the intruder again (highest id) so the run can go on
                c.execute(
                    "DELETE FROM orchard_ironwood_migrations WHERE id = (SELECT MAX(id) FROM orchard_ironwood_migrations)",
                    [],
                )
                .map_err(e)?;
                Ok(false)
            }
            Err(_) => Ok(true),
        }
    }

    /// Removes every migration row of the main account (between traces).
    pub fn wipe_account(&mut self) -> Result<(), String> {
        self.history.clear();
        let c = self.conn();
        let ids: Vec<i64> = {
            let mut stmt = c
                .prepare("SELECT m.id FROM orchard_ironwood_migrations m JOIN accounts a ON a.id = m.account_id WHERE a.uuid = ?")
                .map_err(e)?;
            let rows = stmt
                .query_map(rusqlite::params![self.account.expose_uuid()], |r| r.get::<_, i64>(0))
                .map_err(e)?;
            rows.collect::<Result<_, _>>().map_err(e)?
        };
        for id in ids {
            for t in MIGRATION_TABLES {
                let col = if t == "orchard_ironwood_migrations" { "id" } else { "migration_id" };
                c.execute(&format!("DELETE FROM {t} WHERE {col} = ?"), rusqlite::params![id])
                    .map_err(e)?;
            }
        }
        Ok(())
    }

    /// A write that fails in the middle (an injected ABORT on the row for `transfer_id`) must
    /// leave the stored migration untouched. Returns Ok(None) if the fault did not fire.
    pub fn faulted_replace(&mut self, s: &MigrationState, transfer_id: u32) -> Result<Option<String>, String> {
        self.conn()
            .execute_batch(&format!(
                "CREATE TEMP TRIGGER c18_fault BEFORE INSERT ON main.orchard_ironwood_migration_transactions
                 WHEN NEW.transfer_id = {transfer_id}
                 BEGIN SELECT RAISE(ABORT, 'c18 injected fault'); END;"
            ))
            .map_err(e)?;
        let r = self.replace(s);
        self.conn().execute_batch("DROP TRIGGER c18_fault;").map_err(e)?;
        Ok(r.err())
    }

    pub fn wallet_tip(&self) -> u32 {
        u32::from(self.st.wallet().chain_height().unwrap().unwrap())
    }

    /// Truncates the WALLET `depth` blocks below its tip (the wallet rolls the stored migrations
    /// back itself); returns (tip before, height actually achieved). `regrow` restores the chain.
    pub fn wallet_truncate(&mut self, depth: u32) -> Result<(u32, u32), String> {
        let tip = self.wallet_tip();
        let got = self
            .st
            .wallet_mut()
            .truncate_to_height(BlockHeight::from_u32(tip - depth))
            .map_err(e)?;
        Ok((tip, u32::from(got)))
    }

    pub fn regrow(&mut self) {
        let cur = self.wallet_tip();
        // re-align the testing framework's block cache with the wallet
        self.st.truncate_to_height(BlockHeight::from_u32(cur));
        if cur < self.home_tip {
            self.st.generate_and_scan_empty_blocks((self.home_tip - cur) as usize);
        }
    }
}
